"""Flatten a qiskit circuit into the primitive gate alphabet shared with the Lean driver.

One line per gate: ``name w1 w2 ... ; p1 p2 ...`` (wires = indices in the top-level circuit).
qclib's own composite gates are expanded through ``.definition``; qiskit library gates listed in
PRIMITIVE are kept (their matrices are K4 primitives validated separately).
"""
import numpy as np

# qiskit instruction name -> canonical name
PRIMITIVE = {
    "x": "x", "h": "h", "cx": "cx", "cz": "cz", "ccx": "ccx", "ry": "ry", "rz": "rz", "rx": "rx",
    "p": "p", "cp": "cp", "u": "u", "cu": "cu", "swap": "swap", "cswap": "cswap",
    "mcx": "mcx", "c3x": "mcx", "c4x": "mcx", "mcx_gray": "mcx", "mcx_recursive": "mcx",
    "mcx_vchain": "mcxv", "rccx": "rccx", "rcccx": "rcccx", "crx": "crx", "cry": "cry", "crz": "crz",
    "y": "y", "z": "z", "s": "s", "sdg": "sdg", "t": "t", "tdg": "tdg", "sx": "sx", "id": "id",
    "mcphase": "mcp", "mcp": "mcp",
}
OPAQUE = {"unitary", "diagonal", "multiplexer", "ucry", "ucrz", "ucrx", "isometry", "state_preparation",
          "initialize", "reset", "measure", "barrier"}


def flatten(circ, wires=None, out=None, expand_mcx=False):
    """Return list of (name, wires, params)."""
    if out is None:
        out = []
    if wires is None:
        wires = list(range(circ.num_qubits))
    gp = float(circ.global_phase) if circ.global_phase else 0.0
    if abs(gp) > 0:
        out.append(("gphase", [], [gp]))
    for inst in circ.data:
        op = inst.operation
        qs = [wires[circ.find_bit(q).index] for q in inst.qubits]
        name = op.name
        if name in PRIMITIVE and not (expand_mcx and PRIMITIVE[name] == "mcx" and False):
            cname = PRIMITIVE[name]
            params = [float(p) for p in op.params]
            cs = getattr(op, "ctrl_state", None)
            nctrl = getattr(op, "num_ctrl_qubits", 0)
            if nctrl and cs is not None and cs != (1 << nctrl) - 1:
                cname = f"{cname}[{cs:0{nctrl}b}]"
            out.append((cname, qs, params))
        elif name in OPAQUE or op.definition is None:
            params = []
            for p in op.params:
                arr = np.asarray(p)
                params.append(arr)
            out.append((name, qs, params))
        else:
            flatten(op.definition, qs, out)
    return out


def fmt_float(x):
    return repr(float(x))


def to_lines(gates):
    lines = []
    for name, qs, params in gates:
        ps = []
        for p in params:
            if isinstance(p, np.ndarray):
                ps.append("arr(" + ",".join(f"{complex(v):.9g}" for v in p.ravel()) + ")")
            else:
                ps.append(fmt_float(p))
        lines.append((name + " " + " ".join(str(q) for q in qs)).strip() + " ; " + " ".join(ps))
    return lines
