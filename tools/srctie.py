"""Source-tie helper shared by the property harnesses (DESIGN §4.1, WORKER.md item 7).

A *source tie* is a Lean theorem `Qclib.Cxx_<name>_src` stating that a definition re-translated from the
current Python source (`lean/QclibModel/Gen/*.lean`, written by the property's `generate(ctx)` hook) equals
the hand model the property theorems speak about.  After regenerating, the hook calls

    srctie.verify(ctx, "QclibModel.Props.Cxx", ["Qclib.Cxx_foo_src", ...])

which compiles just that module and, if it no longer compiles, records ONE BROKEN OBLIGATION PER `_src`
THEOREM WHOSE PROOF FAILS, named after the theorem (the framework's own build step would only say
`lake build QclibModel.Props.Cxx`).  A failure outside the listed theorems (the generated module itself does
not elaborate, another proof of the file is red) is attributed to the first listed theorem with the compiler's
message, so that it is never silent.  Nothing is returned: the verdict logic stays in `framework.run_check`.
"""
import os
import re

import framework


def _decl_spans(path):
    """[(first line, last line, declaration name)] of the theorems / defs / examples of a Lean file."""
    spans = []
    try:
        lines = open(path).read().split("\n")
    except OSError:
        return spans
    starts = []
    for i, l in enumerate(lines, 1):
        m = re.match(r"\s*(?:private\s+|protected\s+)?(theorem|lemma|def|example|instance)\b\s*([^\s:({\[]*)", l)
        if m:
            starts.append((i, m.group(2) or "example"))
    for k, (ln, nm) in enumerate(starts):
        end = starts[k + 1][0] - 1 if k + 1 < len(starts) else len(lines)
        spans.append((ln, end, nm))
    return spans


def verify(ctx, module, theorems):
    if getattr(ctx, "regen_only", False):     # another property's check only refreshes the generated file
        return True
    rc, log = framework.lake_build([module])
    if rc == 0:
        return True
    errs = [l for l in log.split("\n") if "error" in l]
    path = os.path.join(framework.LEAN, module.replace(".", "/") + ".lean")
    rel = module.replace(".", "/") + ".lean"
    spans = _decl_spans(path)
    short = {t.split(".")[-1]: t for t in theorems}
    hit = {}
    for e in errs:
        m = re.search(re.escape(rel) + r":(\d+):\d+", e)
        if not m:
            continue
        ln = int(m.group(1))
        for a, b, nm in spans:
            if a <= ln <= b and nm in short:
                hit.setdefault(short[nm], []).append(e.strip()[:300])
    if not hit:
        hit = {theorems[0]: ["(the error is outside the proof: generated module or another declaration)"]
               + [e.strip()[:300] for e in errs[:8]]}
    for t, es in hit.items():
        ctx.obligation_broken(t, "source tie: the definition translated from the current source is no longer proved equal to "
                                 "the hand model\n" + "\n".join(es[:8]))
    return False
