#!/usr/bin/env python3
"""seeded_run.py <seeded/ID dir or patch.diff> [property ...] [--tier quick|thorough] [--in-repo]

Runs the registered check(s) of the property a seeded change breaks against the changed code and
reports whether the change is detected (exit 1 + VIOLATION line).

Default: a scratch copy of /repo (`QCLIB_REPO`), so that concurrent work on /repo is not disturbed.
`--in-repo`: apply to /repo itself (`git -C /repo apply`), run, and undo (`git -C /repo checkout -- .`).
Appends one JSON line per run to seeded/RESULTS.jsonl.
"""
import json
import os
import shutil
import subprocess
import sys
import tempfile
import time

VERIF = os.path.dirname(os.path.dirname(os.path.abspath(__file__)))


def main():
    args = [a for a in sys.argv[1:] if not a.startswith("--")]
    tier = "quick"
    if "--tier" in sys.argv:
        tier = sys.argv[sys.argv.index("--tier") + 1]
        args = [a for a in args if a != tier]
    in_repo = "--in-repo" in sys.argv
    target = args[0]
    patch = target if target.endswith(".diff") else os.path.join(target, "patch.diff")
    patch = os.path.abspath(patch)
    sdir = os.path.dirname(patch)
    meta = {}
    if os.path.exists(os.path.join(sdir, "meta.json")):
        meta = json.load(open(os.path.join(sdir, "meta.json")))
    props = args[1:] or [meta.get("property")]
    env = dict(os.environ)
    scratch = None
    try:
        if in_repo:
            subprocess.run(["git", "-C", "/repo", "apply", patch], check=True)
        else:
            scratch = tempfile.mkdtemp(prefix="seedrun_", dir="/tmp")
            subprocess.run(["git", "-C", "/repo", "worktree", "add", "-q", "--detach", scratch + "/r", "HEAD"], check=True)
            subprocess.run(["git", "-C", scratch + "/r", "apply", patch], check=True)
            env["QCLIB_REPO"] = scratch + "/r"
        for pid in props:
            t0 = time.time()
            p = subprocess.run(["python3", "tools/check.py", pid, "--tier", tier], cwd=VERIF, env=env,
                               capture_output=True, text=True)
            out = p.stdout.strip().split("\n")
            vio = [l for l in out if l.startswith("VIOLATION")]
            rec = {"seeded": os.path.relpath(sdir, VERIF), "property": pid, "tier": tier, "exit": p.returncode,
                   "detected": p.returncode == 1 and bool(vio), "violation_line": vio[:1],
                   "summary": out[-1] if out else "", "wall_s": round(time.time() - t0, 1),
                   "mode": "in-repo" if in_repo else "scratch-worktree"}
            # keep the failing input as a corpus entry (runs first in every later check)
            if rec["detected"] and not vio[0].rstrip().endswith("no-failing-input-found"):
                rp = vio[0].split("replay=")[1].split()[0]
                try:
                    payload = json.load(open(rp))
                    if payload.get("kind") == "failing-input":
                        cdir = os.path.join(VERIF, "corpus", pid)
                        os.makedirs(cdir, exist_ok=True)
                        payload["origin"] = "seeded change " + os.path.basename(sdir)
                        json.dump(payload, open(os.path.join(cdir, os.path.basename(sdir) + ".json"), "w"), indent=1, default=str)
                except Exception as e:
                    print("corpus copy failed:", e, file=sys.stderr)
            print(json.dumps(rec))
            if p.returncode not in (0, 1):
                print(p.stderr[-2000:], file=sys.stderr)
            with open(os.path.join(VERIF, "seeded", "RESULTS.jsonl"), "a") as f:
                f.write(json.dumps(rec) + "\n")
    finally:
        if in_repo:
            subprocess.run(["git", "-C", "/repo", "checkout", "--", "."], check=False)
        if scratch:
            subprocess.run(["git", "-C", "/repo", "worktree", "remove", "--force", scratch + "/r"], check=False)
            shutil.rmtree(scratch, ignore_errors=True)
        # the run regenerated lean/QclibModel/Gen/*.lean from the changed code: regenerate from /repo
        env2 = {k: v for k, v in os.environ.items() if k != "QCLIB_REPO"}
        subprocess.run(["python3", "tools/regen.py"] + [p for p in props if p], cwd=VERIF, env=env2,
                       capture_output=True, text=True)


if __name__ == "__main__":
    main()
