#!/usr/bin/env python3
"""seed_verify.py <src dir with patch.diff, demo.py, meta.json> <seeded id> [pytest targets...]

Confirms a seeded change independently, in a fresh scratch worktree of /repo's HEAD:
  * the patch applies, the package still imports;
  * demo.py exits 0 on the original code and non-zero with the change applied;
  * the given pytest targets (default: the test files that mention a changed module) still pass
    with the change applied.
On success copies the three files to /verif/seeded/<id>/ and records what was run in meta.json.
"""
import json
import os
import re
import shutil
import subprocess
import sys
import tempfile

VERIF = os.path.dirname(os.path.dirname(os.path.abspath(__file__)))
PY = "/venv/bin/python"


def run(cmd, cwd, env=None, timeout=7200):
    p = subprocess.run(cmd, cwd=cwd, env=env, capture_output=True, text=True, timeout=timeout)
    return p.returncode, (p.stdout + p.stderr)


def main():
    src, sid = sys.argv[1], sys.argv[2]
    targets = sys.argv[3:]
    patch = os.path.join(src, "patch.diff")
    tmp = tempfile.mkdtemp(prefix="seedverify_", dir="/tmp")
    wt = os.path.join(tmp, "r")
    result = {"id": sid}
    try:
        subprocess.run(["git", "-C", "/repo", "worktree", "add", "-q", "--detach", wt, "HEAD"], check=True)
        env = dict(os.environ, PYTHONPATH=wt)
        demo = os.path.join(wt, "seed_demo.py")
        text = open(os.path.join(src, "demo.py")).read()
        # demos assert that qclib is imported from their original worktree; re-point to this one
        text = re.sub(r"/tmp/mut\d?_[A-Za-z0-9_]+", wt, text)
        open(demo, "w").write(text)
        rc0, out0 = run([PY, demo], wt, env)
        result["demo_original_exit"] = rc0
        rc, out = run(["git", "apply", patch], wt)
        if rc != 0:
            raise SystemExit("patch does not apply: " + out)
        files = re.findall(r"^\+\+\+ b/(\S+)", open(patch).read(), re.M)
        result["files_changed"] = files
        rci, outi = run([PY, "-c", "import qclib, importlib; " + "; ".join(
            f"importlib.import_module('{f[:-3].replace('/', '.')}')" for f in files if f.endswith('.py'))], wt, env)
        result["imports_ok"] = rci == 0
        rc1, out1 = run([PY, demo], wt, env)
        result["demo_mutated_exit"] = rc1
        result["demo_mutated_tail"] = out1.strip().split("\n")[-3:]
        if not targets:
            mods = {os.path.splitext(os.path.basename(f))[0] for f in files}
            for tf in sorted(os.listdir(os.path.join(wt, "test")) + [os.path.join("gates", x) for x in os.listdir(os.path.join(wt, "test", "gates"))]):
                p = os.path.join(wt, "test", tf)
                if p.endswith(".py") and os.path.isfile(p):
                    s = open(p).read()
                    if any(re.search(r"\b" + m + r"\b", s) for m in mods):
                        targets.append("test/" + tf)
        cmd = [PY, "-m", "pytest", "-q", "-p", "no:cacheprovider", "--timeout=3000", "-n", "4"] + targets
        rct, outt = run(cmd, wt, env)
        tail = [l for l in outt.strip().split("\n") if "passed" in l or "failed" in l][-1:]
        result["tests_cmd"] = " ".join(cmd[1:])
        result["tests_exit"] = rct
        result["tests_tail"] = tail
        ok = rc0 == 0 and rc1 != 0 and rci == 0 and rct == 0
        result["confirmed"] = ok
        print(json.dumps(result, indent=1))
        if ok:
            dst = os.path.join(VERIF, "seeded", sid)
            os.makedirs(dst, exist_ok=True)
            shutil.copy(patch, os.path.join(dst, "patch.diff"))
            shutil.copy(os.path.join(src, "demo.py"), os.path.join(dst, "demo.py"))
            meta = json.load(open(os.path.join(src, "meta.json"))) if os.path.exists(os.path.join(src, "meta.json")) else {}
            meta["confirmed_by_integrator"] = result
            meta["how_to_run_demo"] = "in a checkout of qclib with the patch applied: PYTHONPATH=<checkout> python demo.py (paths inside demo.py that point to the author's worktree must be re-pointed to <checkout>)"
            json.dump(meta, open(os.path.join(dst, "meta.json"), "w"), indent=1)
    finally:
        subprocess.run(["git", "-C", "/repo", "worktree", "remove", "--force", wt], check=False)
        shutil.rmtree(tmp, ignore_errors=True)


if __name__ == "__main__":
    main()
