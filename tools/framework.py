"""Shared machinery of the per-property checks (see DESIGN.md §2).

Run flow (`run_check`):
  1. build    – `lake build` of the property's Lean modules (models, proofs, property theorems)
  2. audit    – forbidden-word grep + `#print axioms` of every property theorem
  3. tie      – correspondence: real qclib code vs the Lean model's executable definitions, driven
                through `Main.lean` (line protocol)
  4. oracle   – numerical validation of the K4 assumptions and of the end-to-end statement on the
                real code (this is also the failing-input search)
  5. verdict  – green ⇒ exit 0; red build/audit/tie ⇒ failing-input search on the real code, then
                `VIOLATION property=… replay=…` (with `no-failing-input-found` if none)
"""
import fcntl
import hashlib
import json
import os
import random
import re
import struct
import subprocess
import sys
import time
import traceback

VERIF = os.path.dirname(os.path.dirname(os.path.abspath(__file__)))
LEAN = os.path.join(VERIF, "lean")
REPO = os.environ.get("QCLIB_REPO", "/repo")
WORK = os.path.join(VERIF, "work")
# evidence is only ever written for /repo itself; runs against a scratch copy (QCLIB_REPO=...) go to work/
EVID = os.path.join(VERIF, "evidence") if os.path.realpath(REPO) == "/repo" else os.path.join(WORK, "evidence-scratch")
ALLOWED_AXIOMS = {"propext", "Classical.choice", "Quot.sound"}
FORBIDDEN = re.compile(
    r"\b(sorry|admit|native_decide|bv_decide|implemented_by)\b|^\s*axiom\s|\bunsafe\s|maxHeartbeats\s+0\b"
)

if REPO not in sys.path:
    sys.path.insert(0, REPO)
sys.path.insert(0, os.path.join(VERIF, "tools"))


class Lock:
    def __init__(self, name="lake"):
        os.makedirs(WORK, exist_ok=True)
        self.path = os.path.join(WORK, name + ".lock")

    def __enter__(self):
        self.f = open(self.path, "w")
        fcntl.flock(self.f, fcntl.LOCK_EX)
        return self

    def __exit__(self, *a):
        fcntl.flock(self.f, fcntl.LOCK_UN)
        self.f.close()


def sh(cmd, cwd=None, timeout=3600, inp=None):
    p = subprocess.run(cmd, cwd=cwd, input=inp, capture_output=True, text=True, timeout=timeout,
                       shell=isinstance(cmd, str))
    return p.returncode, p.stdout, p.stderr


# ----------------------------------------------------------------------------------------------
# Lean side
# ----------------------------------------------------------------------------------------------

def strip_comments(src):
    """Remove Lean block comments (nested) and line comments."""
    out = []
    i, depth, n = 0, 0, len(src)
    while i < n:
        if src.startswith("/-", i):
            depth += 1
            i += 2
        elif src.startswith("-/", i) and depth:
            depth -= 1
            i += 2
        elif depth:
            if src[i] == "\n":
                out.append("\n")
            i += 1
        elif src.startswith("--", i):
            while i < n and src[i] != "\n":
                i += 1
        else:
            out.append(src[i])
            i += 1
    return "".join(out)


def import_closure(modules):
    """Project files (transitively) imported by the given modules."""
    seen, todo = set(), list(modules)
    while todo:
        m = todo.pop()
        if m in seen or not m.startswith("QclibModel"):
            continue
        p = os.path.join(LEAN, m.replace(".", "/") + ".lean")
        if not os.path.exists(p):
            continue
        seen.add(m)
        for im in re.findall(r"^import\s+(\S+)", open(p).read(), re.M):
            todo.append(im)
    return sorted(os.path.join(LEAN, m.replace(".", "/") + ".lean") for m in seen)


def grep_forbidden(modules):
    hits = []
    for p in import_closure(modules):
        if True:
            code = strip_comments(open(p).read())
            for ln, line in enumerate(code.split("\n"), 1):
                if FORBIDDEN.search(line):
                    hits.append(f"{os.path.relpath(p, LEAN)}:{ln}: {line.strip()[:100]}")
    return hits


def driver_imports(driver):
    """Project modules imported by a driver file."""
    src = open(os.path.join(LEAN, driver)).read()
    return [m for m in re.findall(r"^import\s+(\S+)", src, re.M) if m.startswith("QclibModel")]


def leanchecker(targets, timeout=3000):
    """Independent re-check of the compiled property modules (thorough tier)."""
    with Lock():
        rc, out, err = sh(["lake", "env", "leanchecker"] + list(targets), cwd=LEAN, timeout=timeout)
    return rc, (out + err)[-1500:]


def lake_build(targets, timeout=3000):
    with Lock():
        rc, out, err = sh(["lake", "build"] + list(targets), cwd=LEAN, timeout=timeout)
    return rc, out + err


def audit_axioms(module, theorems, tag):
    """Returns dict theorem -> list of axioms (or None if the theorem is missing / errors)."""
    os.makedirs(WORK, exist_ok=True)
    path = os.path.join(WORK, f"Audit_{tag}.lean")
    with open(path, "w") as f:
        for m in ([module] if isinstance(module, str) else module):
            f.write(f"import {m}\n")
        for t in theorems:
            f.write(f"#print axioms {t}\n")
    with Lock():
        rc, out, err = sh(["lake", "env", "lean", path], cwd=LEAN, timeout=1800)
    text = out + err
    res = {t: None for t in theorems}
    # messages: "'Qclib.C13_ucr' depends on axioms: [propext, Quot.sound]" or "does not depend on any axioms"
    for m in re.finditer(r"'([^']+)' depends on axioms: \[([^\]]*)\]", text, re.S):
        res[m.group(1)] = [a.strip() for a in m.group(2).replace("\n", " ").split(",") if a.strip()]
    for m in re.finditer(r"'([^']+)' does not depend on any axioms", text):
        res[m.group(1)] = []
    return res, text, rc


def decode_param(tok):
    if tok.startswith("f") and tok[1:].isdigit():
        return struct.unpack("<d", struct.pack("<Q", int(tok[1:])))[0]
    return float(tok)


def run_driver(ops, timeout=3000, driver="Drivers/Main.lean"):
    """ops: list of JSON-serialisable dicts.  Returns list of blocks (list of lines).
    The driver file is interpreted (`lean --run`) against the compiled model modules."""
    inp = "\n".join(json.dumps(o) for o in ops) + "\n"
    if True:
        rc, out, err = sh(["lake", "env", "lean", "--run", driver], cwd=LEAN, inp=inp,
                          timeout=timeout)
    if rc != 0:
        raise RuntimeError("driver failed: " + (err or out)[-2000:])
    blocks, cur = [], []
    for line in out.split("\n"):
        if line == "END":
            blocks.append(cur)
            cur = []
        elif line != "":
            cur.append(line)
    if len(blocks) != len(ops):
        raise RuntimeError(f"driver returned {len(blocks)} blocks for {len(ops)} ops: {err[-1000:]}")
    return blocks


def parse_line(line):
    """'name w w ; p p' -> (name, [wires], [params])"""
    head, _, tail = line.partition(";")
    toks = head.split()
    name = toks[0] if toks else ""
    wires = [int(t) if t.lstrip('-').isdigit() else t for t in toks[1:]]
    params = []
    for t in tail.split():
        try:
            params.append(decode_param(t))
        except ValueError:
            params.append(t)
    return name, wires, params


def angle_close(a, b, tol=1e-9, period=None):
    if isinstance(a, str) or isinstance(b, str):
        return a == b
    d = a - b
    if period:
        d = (d + period / 2) % period - period / 2
    return abs(d) <= tol * max(1.0, abs(a), abs(b))


def diff_lines(impl, model, tol=1e-9):
    """Compare two gate-line lists after parsing.  Returns None if equal else a description."""
    if len(impl) != len(model):
        # find first differing line for the message
        for i, (x, y) in enumerate(zip(impl, model)):
            if diff_lines([x], [y], tol):
                return f"length {len(impl)} vs {len(model)}; first diff at line {i}: impl={x!r} model={y!r}"
        return f"length {len(impl)} vs {len(model)} (common prefix equal)"
    for i, (x, y) in enumerate(zip(impl, model)):
        nx, wx, px = parse_line(x)
        ny, wy, py = parse_line(y)
        if nx != ny or wx != wy or len(px) != len(py) or any(
                not angle_close(p, q, tol) for p, q in zip(px, py)):
            return f"line {i}: impl={x!r} model={y!r}"
    return None


# ----------------------------------------------------------------------------------------------
# Context handed to property modules
# ----------------------------------------------------------------------------------------------

class Ctx:
    def __init__(self, pid, tier, seed):
        self.pid, self.tier, self.seed = pid, tier, seed
        self.rng = random.Random(seed)
        self.quick = tier == "quick"
        self.tie_cases = []        # (op dict, impl lines, label, driver or None, compare or None)
        self.broken = []           # obligations a property module found broken by itself
        self.regen_only = False    # True: generate hooks only rewrite their files (no proof obligations)
        self.tie_direct = []       # (label, impl value, model-op dict, comparator)
        self.oracle_evals = 0
        self.oracle_keys = set()
        self.failures = []         # dict(kind, key, detail, replay)
        self.samples = []
        self.assumption_checks = 0
        self.hist = {}
        self.notes = []

    def nprng(self):
        import numpy as np
        return np.random.default_rng(self.rng.getrandbits(63))

    # --- tie
    def tie(self, op, impl_lines, label=None, driver=None, compare=None):
        """Register a correspondence case: `op` is sent to the Lean driver (default: the
        property's own `Drivers/Cxx.lean`), its output block is compared with `impl_lines`."""
        self.tie_cases.append((op, list(impl_lines), label or json.dumps(op)[:200], driver, compare))

    def obligation_broken(self, name, detail):
        """A proof obligation / source fingerprint / translator step found broken by the module."""
        self.broken.append({"obligation": name, "detail": str(detail)[:3000]})

    # --- oracle
    def ok(self, key, nontrivial=True, sample=None):
        self.oracle_evals += 1
        if nontrivial:
            self.oracle_keys.add(key)
        if sample is not None and len(self.samples) < 12:
            self.samples.append(sample)

    def fail(self, key, detail, replay=None, kind="oracle"):
        self.oracle_evals += 1
        self.failures.append({"kind": kind, "key": key, "detail": detail, "replay": replay or {}})

    def count(self, name, k=1):
        self.hist[name] = self.hist.get(name, 0) + k


def known_match(k, key):
    """A known-finding entry matches a failure key exactly (`match`) or by full regex (`match_re`)."""
    if k.get("match") is not None and k["match"] == key:
        return True
    if k.get("match_re") and re.fullmatch(k["match_re"], key):
        return True
    return False


def regen_others(pid):
    import importlib
    pdir = os.path.join(VERIF, "tools", "props")
    for fn in sorted(os.listdir(pdir)):
        m = re.fullmatch(r"(c\d\d)\.py", fn)
        if not m or m.group(1).upper() == pid:
            continue
        try:
            src = open(os.path.join(pdir, fn)).read()
            if "def generate(" not in src:
                continue
            mod = importlib.import_module("props." + m.group(1))
            c = Ctx(m.group(1).upper(), "quick", 0)
            c.regen_only = True
            mod.generate(c)
        except Exception:
            pass        # a refusal for another property is that property's business


def load_known():
    p = os.path.join(VERIF, "known_findings.json")
    if not os.path.exists(p):
        return []
    return json.load(open(p))


def write_replay(pid, payload):
    d = os.path.join(EVID, "replay")
    os.makedirs(d, exist_ok=True)
    h = hashlib.sha1(json.dumps(payload, sort_keys=True, default=str).encode()).hexdigest()[:10]
    p = os.path.join(d, f"{pid}-{h}.json")
    with open(p, "w") as f:
        json.dump(payload, f, indent=1, default=str)
    return p


def run_check(mod, pid, tier, seed, replay=None):
    t0 = time.time()
    ctx = Ctx(pid, tier, seed)
    known = [k for k in load_known() if k.get("property") == pid and k.get("status") == "known"]
    broken = []       # obligations that no longer check (proof / audit / tie)
    theorems = list(mod.THEOREMS)
    targets = list(mod.LEAN_TARGETS)

    # Source-derived Lean modules (lean/QclibModel/Gen/*.lean) of OTHER properties may be imported by this
    # property's theorems (e.g. C01 -> C11) and may be stale from a run against different code: refresh them
    # from the code under test first (files only; their own obligations belong to their own checks).
    regen_others(pid)

    # optional: regenerate models from source
    gen_info = None
    if hasattr(mod, "generate"):
        try:
            gen_info = mod.generate(ctx)
        except Exception as e:  # translator refusal = broken tie
            broken.append({"obligation": "translator", "detail": str(e)[:2000]})

    # 1. build
    rc, log = lake_build(targets + list(getattr(mod, "MODEL_TARGETS", [])))
    build_ok = rc == 0
    if not build_ok:
        errs = [l for l in log.split("\n") if "error" in l][:20]
        broken.append({"obligation": "lake build " + " ".join(targets), "detail": "\n".join(errs)})

    # 2. audit
    discharged = 0
    ax_report = {}
    if build_ok:
        hits = grep_forbidden(targets)
        if hits:
            broken.append({"obligation": "forbidden-constructs", "detail": "\n".join(hits[:20])})
        ax, text, arc = audit_axioms(targets, theorems, pid)
        for t in theorems:
            a = ax.get(t)
            ax_report[t] = a
            if a is None:
                broken.append({"obligation": t, "detail": "theorem missing or failed to elaborate: " + text[-500:]})
            elif not set(a) <= ALLOWED_AXIOMS:
                broken.append({"obligation": t, "detail": f"depends on axioms {a}"})
            else:
                discharged += 1

    checker_note = None
    if build_ok and tier == "thorough" and not replay and not os.environ.get("VERIF_NO_LEANCHECKER"):
        try:
            crc, ctext = leanchecker(targets)
            checker_note = f"leanchecker {' '.join(targets)}: exit {crc}"
            if crc != 0:
                broken.append({"obligation": "leanchecker " + " ".join(targets), "detail": ctext})
        except Exception as e:  # tool problems are not violations
            checker_note = f"leanchecker could not be run: {e}"

    # 3. correspondence + 4. oracle (property module fills ctx)
    try:
        if replay:
            mod.replay(ctx, json.load(open(replay)))
        else:
            # corpus first: minimised inputs of past failures (seeded changes, repaired defects)
            cdir = os.path.join(VERIF, "corpus", pid)
            if os.path.isdir(cdir) and hasattr(mod, "replay"):
                for fn in sorted(os.listdir(cdir)):
                    if fn.endswith(".json"):
                        try:
                            mod.replay(ctx, json.load(open(os.path.join(cdir, fn))))
                            ctx.count("corpus")
                        except Exception as e:  # a stale corpus entry must not break the check
                            ctx.notes.append(f"corpus entry {fn} could not be replayed: {type(e).__name__}: {str(e)[:200]}")
            mod.run(ctx)
    except (MemoryError, TimeoutError, KeyboardInterrupt):
        print(traceback.format_exc(), file=sys.stderr)
        print(f"CHECK-ERROR property={pid} harness resource problem (not a violation)")
        return 2
    except Exception:
        # The harness could not extract / interpret what the code did.  On the unchanged tree this
        # never happens; on a changed tree it means the code's observable protocol (the functions,
        # intermediates or shapes the correspondence reads) no longer is what the model describes:
        # a broken correspondence, handled like any other (failing-input search, then verdict).
        tb = traceback.format_exc()
        print(tb, file=sys.stderr)
        broken.append({"obligation": "correspondence extraction (harness could not observe the code as modelled)",
                       "detail": tb[-2500:]})

    broken.extend(ctx.broken)
    tie_diffs = []
    tie_ran = 0
    if ctx.tie_cases:
        default_driver = getattr(mod, "DRIVER", f"Drivers/{pid}.lean")
        by_driver = {}
        for c in ctx.tie_cases:
            by_driver.setdefault(c[3] or default_driver, []).append(c)
        for drv, cases in by_driver.items():
            if not build_ok:
                # the proofs are red, but the executable model may still compile: build just what
                # the driver imports so that the correspondence can point at disagreeing inputs
                rc2, _ = lake_build(driver_imports(drv))
                if rc2 != 0:
                    broken.append({"obligation": f"model build for {drv}", "detail": "model modules do not compile"})
                    continue
            tie_ran += len(cases)
            try:
                blocks = run_driver([c[0] for c in cases], driver=drv)
            except Exception as e:
                broken.append({"obligation": f"driver {drv}", "detail": str(e)[:2000]})
                continue
            for (op, impl, label, _, ccmp), model in zip(cases, blocks):
                cmp = ccmp or getattr(mod, "compare", None)
                d = cmp(op, impl, model) if cmp else diff_lines(impl, model)
                if d:
                    tie_diffs.append({"op": op, "diff": d, "label": label})
    if tie_diffs:
        broken.append({"obligation": "correspondence model<->code",
                       "detail": json.dumps(tie_diffs[:5], default=str)[:3000],
                       "count": len(tie_diffs)})

    # 5. verdict
    violations, known_hits = [], []
    for f in ctx.failures:
        m = [k for k in known if known_match(k, f["key"])]
        if m:
            known_hits.append((f, m[0]))
        else:
            violations.append(f)

    out_lines = []
    for f, k in known_hits:
        out_lines.append(f"KNOWN-FINDING: property={pid} {k.get('id','')} {k.get('what','')} [{f['key']}]")
    seen = set()
    out_lines = [l for l in out_lines if not (l in seen or seen.add(l))]

    exit_code = 0
    if broken and not violations:
        # failing-input search on the real code, seeded by the disagreeing inputs
        if hasattr(mod, "search"):
            try:
                sctx = Ctx(pid, "thorough", seed + 1)
                mod.search(sctx, tie_diffs)
                for f in sctx.failures:
                    if not [k for k in known if known_match(k, f["key"])]:
                        violations.append(f)
                ctx.oracle_evals += sctx.oracle_evals
            except Exception:
                print(traceback.format_exc(), file=sys.stderr)
    if violations:
        f = violations[0]
        payload = {"property": pid, "kind": "failing-input", "key": f["key"], "detail": f["detail"],
                   "replay": f["replay"], "seed": seed, "tier": tier,
                   "broken_obligations": broken, "other_failures": len(violations) - 1}
        p = write_replay(pid, payload)
        out_lines.append(f"VIOLATION property={pid} replay={p}")
        exit_code = 1
    elif broken:
        payload = {"property": pid, "kind": "obligation-no-longer-checks", "broken_obligations": broken,
                   "seed": seed, "tier": tier,
                   "note": "model/proof or correspondence broke; search on the real code found no failing input"}
        p = write_replay(pid, payload)
        out_lines.append(f"VIOLATION property={pid} replay={p} no-failing-input-found")
        exit_code = 1

    # evidence
    wall = time.time() - t0
    cov = {
        "obligations": len(theorems),
        "discharged": discharged,
        "checker_cmd": "cd lean && lake build " + " ".join(targets) + " && lake env lean work/Audit_%s.lean  (#print axioms)" % pid,
        "trusted_base": list(getattr(mod, "TRUSTED", [])) + [
            "Lean 4.33 kernel; axioms allowed: propext, Classical.choice, Quot.sound (audited this run)",
            "hand model <-> code correspondence holds only on the inputs explored (see correspondence_cases)",
            "tools/flatten.py, tools/framework.py, Main.lean driver",
        ],
        "axioms": ax_report,
        "evaluations": ctx.oracle_evals + len(ctx.tie_cases),
        "distinct_nontrivial": len(ctx.oracle_keys) + len({json.dumps(c[0], sort_keys=True) for c in ctx.tie_cases}),
        "rule": getattr(mod, "RULE", "distinct inputs (by parameters) on which the real code was executed and compared"),
        "samples": (ctx.samples or [c[2] for c in ctx.tie_cases[:5]] or ["none"])[:12],
        "correspondence_cases": len(ctx.tie_cases),
        "correspondence_diffs": len(tie_diffs),
        "oracle_evaluations": ctx.oracle_evals,
        "assumption_checks": ctx.assumption_checks,
        "branch_histogram": ctx.hist,
        "broken_obligations": broken,
        "known_findings_hit": sorted({k.get("id", "") for _, k in known_hits}),
        "notes": ctx.notes + ([checker_note] if checker_note else []),
        "correspondence_run": tie_ran,
    }
    if gen_info:
        cov["generated"] = gen_info
    ev = {
        "property_id": pid, "tier": tier, "seed": seed, "level": "proof", "coverage": cov,
        "assumptions": list(getattr(mod, "ASSUMPTIONS", [])), "wall_s": round(wall, 2),
        "violations": len(violations) + (1 if (broken and not violations) else 0),
    }
    os.makedirs(EVID, exist_ok=True)
    with open(os.path.join(EVID, f"{pid}.json"), "w") as f:
        json.dump(ev, f, indent=1, default=str)
    for l in out_lines:
        print(l)
    print(f"{pid} {tier}: theorems {discharged}/{len(theorems)} tie {tie_ran-len(tie_diffs)}/{len(ctx.tie_cases)} "
          f"oracle evals {ctx.oracle_evals} failures {len(ctx.failures)} known {len(known_hits)} "
          f"wall {wall:.1f}s exit {exit_code}")
    return exit_code
