#!/usr/bin/env python3
"""Regenerate seeded/REPORT.md: one row per seeded change — what it breaks, what it needs to
manifest, and what the registered check reported on it (latest run per tier in RESULTS.jsonl)."""
import json
import os
import re

VERIF = os.path.dirname(os.path.dirname(os.path.abspath(__file__)))
S = os.path.join(VERIF, "seeded")


def main():
    latest = {}
    hist = {}
    for l in open(os.path.join(S, "RESULTS.jsonl")):
        r = json.loads(l)
        sid = os.path.basename(r["seeded"])
        latest[(sid, r["tier"])] = r
        hist.setdefault(sid, []).append(r)
    rows = []
    for sid in sorted(d for d in os.listdir(S) if os.path.isdir(os.path.join(S, d))):
        meta = json.load(open(os.path.join(S, sid, "meta.json")))
        files = ", ".join(os.path.basename(f) for f in meta.get("files_changed", meta.get("confirmed_by_integrator", {}).get("files_changed", [])))
        needs = re.sub(r"\s+", " ", str(meta.get("what_it_needs_to_manifest", "")))[:260]
        out = []
        for tier in ("quick", "thorough"):
            r = latest.get((sid, tier))
            if not r:
                continue
            if r["detected"]:
                nf = r["violation_line"] and r["violation_line"][0].rstrip().endswith("no-failing-input-found")
                m = re.search(r"tie (\d+)/(\d+) oracle evals \d+ failures (\d+)", r["summary"])
                ch = []
                if m and int(m.group(1)) < int(m.group(2)):
                    ch.append(f"tie {int(m.group(2)) - int(m.group(1))} diffs")
                if m and int(m.group(3)) > 0:
                    ch.append(f"oracle {m.group(3)} failing inputs")
                m2 = re.search(r"theorems (\d+)/(\d+)", r["summary"])
                if m2 and m2.group(1) != m2.group(2):
                    ch.append("proof obligations broken")
                out.append(f"{tier}: VIOLATION" + (" (no-failing-input-found)" if nf else " with replay") + " — " + ", ".join(ch))
            else:
                out.append(f"{tier}: **missed** (exit {r['exit']})")
        first_missed = any(not r["detected"] for r in hist.get(sid, []))
        note = " (missed before the generators were strengthened)" if first_missed and all(
            latest[k]["detected"] for k in latest if k[0] == sid) else ""
        rows.append(f"| {sid} | {meta.get('property', sid[:3])} | {files} | {needs} | {'; '.join(out)}{note} |")
    with open(os.path.join(S, "REPORT.md"), "w") as f:
        f.write("# Seeded changes and what the checks report on them\n\n"
                "Each change was produced by an independent sub-agent that saw only the property text, keeps the\n"
                "pinned test-suite green, and was confirmed by `tools/seed_verify.py` (demo exits 0 on the original,\n"
                "non-zero with the change; relevant tests pass). `tools/seeded_run.py` applies it to a scratch worktree\n"
                "and runs the registered check. Regenerate with `python3 tools/seeded_report.py`.\n\n"
                "| id | property | file | needs, to manifest | check result |\n|---|---|---|---|---|\n" + "\n".join(rows) + "\n")
    print(f"{len(rows)} seeded changes")


if __name__ == "__main__":
    main()
