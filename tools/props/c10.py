"""C10 — CNOT-cost estimates match the circuits actually synthesised
(qclib/unitary.py, qclib/isometry.py, qclib/state_preparation/lowrank.py)."""
import itertools
import json
import os
import sys
import types

CLAIMED = True
TECHNIQUE = ("estimate functions re-translated from the Python source on every run (tools/py2lean.py) + Lean 4 proofs by "
             "induction that the generated closed forms / recurrences equal a structural count defined on the recursion shape of "
             "the synthesis; shape, cost-table and translator ties; transpile-count oracle")
LEVEL_TEXT = ("Proved in Lean for ALL sizes, about the definitions generated from the current Python source: the QSD closed form "
              "(with and without A.2; the ceiling is exact because the numerator is 48 x count), the CSD closed form, the "
              "_cnot_count_iso recurrence with A.2 for every iso>=1, the column-by-column double loop for every (n, m), and the "
              "low-rank phase-by-phase sum for every n, partition size, rank and scheme (ccd/csd x qsd/csd) each equal the structural "
              "count cnotsOf of the modelled circuit shape; _a/_b/_k_s are shift, remainder and bit. Link to the correctness models "
              "(Props/C10Link.lean, all n, every kernel tape): the gate lists of the C02 model of build_unitary (qsd, csd, qsd in "
              "isometry mode: the lists C02_qsd_full / C02_csd_full / C02_qsd_iso_full prove to denote the input matrix) and the "
              "schedule of the C03 model of _ccd (m<=n) are, object for object with the same control counts, the shapes the estimates "
              "are proved against, so each generated closed form equals the Prim.cost count of the circuit proved correct; the QSD "
              "list has 4^(n-2) two-qubit leaves; the ucr gate list has 2^k entanglers (2^k-1 without the last). Tied each run: every generated "
              "function vs its Python original on an exhaustive small range (closed forms to n=26); the shape models vs the "
              "instruction structure of the real circuits (build_unitary, _ccd) and the dispatch of the real low-rank recursion; the "
              "per-object CNOT cost table and the effect of _apply_a2 vs transpile. Tested only: transpiled CNOT count of the real "
              "circuits vs estimate vs structural count on Haar-random inputs (unitary n<=6 quick / 7 thorough, isometry n<=5 / 7, "
              "low-rank n<=8 / 9, all partitions for n<=4 / 5), the Knill scheme, and the m=n column-by-column upper bound.")
LEVEL_NOTE = ("Trusted: Lean kernel; tools/py2lean.py (kept honest by the second tie); qiskit's transpile/UCGate/UCRZ/UCRY/"
              "DiagonalGate/_apply_a2/two-qubit synthesis cost table (validated numerically each run, generic inputs); numpy SVD rank "
              "of generic inputs; the hand shape models agree with the code beyond the explored sizes by uniformity of the recursion.")
LEAN_TARGETS = ["QclibModel.Props.C10", "QclibModel.Props.C10Link"]
THEOREMS = ["Qclib.C10_qsd", "Qclib.C10_csd", "Qclib.C10_iso", "Qclib.C10_ccd", "Qclib.C10_lowrank", "Qclib.C10_bits",
            "Qclib.C10_link_qsd", "Qclib.C10_link_csd", "Qclib.C10_link_iso", "Qclib.C10_link_ccd", "Qclib.C10_link_ucr"]
TRUSTED = [
    "tools/py2lean.py translation of unitary._cnot_count_estimate/_cnot_count_iso/_cnot_count_iso_qsd, isometry._a/_b/_k_s/"
    "_cnot_count_estimate_ccd, lowrank._default_partition, entanglement._to_qubits (differentially tied each run)",
    "qiskit cost table: generic 2-qubit block 3 CX (2 up to diagonal under _apply_a2, last block 3), UCRZ/UCRY 2^k, "
    "UCGate 2^k-1 (+DiagonalGate 2^(k+1)-2), DiagonalGate 2^m-2, qclib ucr(CZ, no last) 2^k-1 (validated by transpile each run)",
    "inputs in general position: full Schmidt rank of generic vectors, no multiplexer simplification for m<n",
    "float evaluation of int(ceil(23/48*4^n - 3/2*2^n + 4/3)) equals the exact rational ceiling (tied for n<=26)",
]
ASSUMPTIONS = ["general position (Haar-random complex inputs); Knill scheme and the m=n column-by-column upper bound are tested, not proved"]
RULE = ("tie: (function, argument tuple) for the generated functions; (decomposition, n, iso) / (n, m) / (n, p, e, schemes) for "
        "shapes; (object, k) for costs.  oracle: distinct (call, options, size) on which estimate, transpiled circuit and structural "
        "count were compared; non-trivial = at least 3 qubits (2 for isometries/state preparation).  diversity: the same comparison per "
        "(entry point, options, size, value kind, container/dtype form), each evaluated through every call form; structured / real value "
        "kinds only for exceptions and shape-only estimates")
DRIVER = "Drivers/C10.lean"

import framework  # noqa: E402

GEN_FILE = os.path.join(framework.LEAN, "QclibModel", "Gen", "CnotCount.lean")
SOURCES = ["qclib/unitary.py", "qclib/isometry.py", "qclib/state_preparation/lowrank.py", "qclib/entanglement.py"]


# --------------------------------------------------------------------------------------------------
# translator hook
# --------------------------------------------------------------------------------------------------

def generate(ctx):
    import py2lean
    py2lean.ensure_prelude(framework.LEAN)

    def tr(rel, names, ns, **h):
        return py2lean.translate_functions(os.path.join(framework.REPO, rel), names, "Qclib.Gen.CnotCount." + ns,
                                           relpath=rel, **h)
    blocks = [
        tr("qclib/unitary.py", ["_cnot_count_estimate", "_cnot_count_iso", "_cnot_count_iso_qsd"], "unitary",
           views={"_cnot_count_estimate": {"gate.shape[0]": "gate_rows"}},
           termination={"_cnot_count_iso": "2 * (n_qubits - 2).toNat",
                        "_cnot_count_iso_qsd": "2 * (n_qubits - 3).toNat + 1"}),
        tr("qclib/isometry.py", ["_a", "_b", "_k_s", "_cnot_count_estimate_ccd"], "isometry"),
        tr("qclib/state_preparation/lowrank.py", ["_default_partition"], "lowrank"),
        tr("qclib/entanglement.py", ["_to_qubits"], "entanglement"),
    ]
    text = py2lean.write_module(GEN_FILE, blocks, SOURCES)
    return {"file": os.path.relpath(GEN_FILE, framework.VERIF), "functions": 9, "bytes": len(text)}


# --------------------------------------------------------------------------------------------------
# worker side (runs in a process pool; everything here touches the REAL code)
# --------------------------------------------------------------------------------------------------

def cx_count(circ):
    from qiskit import transpile
    t = transpile(circ, basis_gates=["u", "cx"], optimization_level=0)
    return int(t.count_ops().get("cx", 0))


def haar(dim, seed):
    from scipy.stats import unitary_group
    import numpy as np
    if dim == 1:
        return np.array([[np.exp(1j * (seed % 7))]])
    return unitary_group.rvs(dim, random_state=seed % (2 ** 31))


def rand_state(dim, seed):
    import numpy as np
    r = np.random.default_rng(seed)
    v = r.normal(size=dim) + 1j * r.normal(size=dim)
    return v / np.linalg.norm(v)


def walk(circ, out):
    """Entangling structure of a circuit: library objects by name, runs of cx / cz collapsed, one-qubit
    gates dropped, anonymous composites entered."""
    for inst in circ.data:
        op = inst.operation
        nm = op.name
        nq = len(inst.qubits)
        if nm == "qsd2q":
            out.append("qsd2q")
        elif nm == "unitary":
            if nq >= 2:
                out.append("u%d" % nq)
        elif nm in ("ucrz", "ucry"):
            out.append("%s %d" % (nm, nq - 1))
        elif nm.startswith("multiplexer"):
            utd = getattr(op, "up_to_diagonal", None)
            if utd is None:
                utd = not any(i.operation.name.startswith("diagonal") for i in op.definition.data)
            if nq > 1:
                out.append("%s %d" % ("ucd" if utd else "uc", nq - 1))
        elif nm.startswith("diagonal"):
            out.append("diag %d" % nq)
        elif nm in ("cx", "cz"):
            if out and out[-1].split()[0] == nm:
                out[-1] = "%s %d" % (nm, int(out[-1].split()[1]) + 1)
            else:
                out.append(nm + " 1")
        elif nq == 1 or nm in ("barrier",):
            pass
        elif op.definition is not None:
            walk(op.definition, out)
        else:
            out.append("?" + nm)
    return out


def _exc(e):
    return "%s: %s" % (type(e).__name__, str(e)[:160])


EXACT_NMAX_UNITARY = 4
EXACT_NMAX_ISOMETRY = 3
EXACT_NMAX_LOWRANK = 4

UNREACHED_JUSTIFIED = {
    "qclib/unitary.py:_qrd,_build_qr_circuit,_build_qr_gate_sequence,_get_row_col,_row_and_col_qubits,_apply_mcxs,_undo_mcxs,_apply_cx,"
    "_append_mcmt_gate,build_unitary:104->105": "'qr' decomposition has no estimate and is not an option combination of C10 (C02 covers it)",
    "qclib/unitary.py:40->45,46->47": "validation raises on invalid input (C16)",
    "qclib/unitary.py:53-57": "A.2 fallback on QiskitError: degenerate two-qubit blocks only, not general position (C02 probes it)",
    "qclib/unitary.py:212->214,_closest_unitary": "degenerate eigenvalues of gate1 @ gate2^dagger: structured input, outside general position (C02)",
    "qclib/isometry.py:74->75,78->79,82->83,84->85": "validation raises on invalid input (C16)",
    "qclib/isometry.py:301->315": "zero column pair in Lemma 2: only for structured isometries (exact zeros), outside general position (C03)",
}


def job_unitary(n, dec, iso, a2, seed):
    from qclib.unitary import unitary, build_unitary, cnot_count
    u = haar(2 ** n, seed)
    res = {}
    try:
        res["est"] = int(cnot_count(u, dec, "estimate", iso, a2))
    except Exception as e:  # noqa: BLE001
        res["est_exc"] = _exc(e)
    try:
        res["cx"] = cx_count(unitary(u.copy(), dec, iso, a2))
    except Exception as e:  # noqa: BLE001
        res["cx_exc"] = _exc(e)
    if n <= EXACT_NMAX_UNITARY:     # the library's own method='exact' (transpile inside cnot_count; 'return 0' when no cx at n=1)
        try:
            res["exact"] = int(cnot_count(u.copy(), dec, "exact", iso, a2))
        except Exception as e:  # noqa: BLE001
            res["exact_exc"] = _exc(e)
    if a2:      # the shape is that of the circuit before _apply_a2 flattens it
        try:
            res["tokens"] = walk(build_unitary(u.copy(), dec, iso), [])
        except Exception as e:  # noqa: BLE001
            res["tokens"] = ["EXC " + _exc(e)]
    return res


def job_isometry(n, m, scheme, seed, vec1d=False):
    import numpy as np
    from qclib.isometry import decompose, cnot_count
    v = haar(2 ** n, seed)[:, : 2 ** m]
    if vec1d:
        v = np.ascontiguousarray(v[:, 0])
    res = {}
    try:
        res["est"] = int(cnot_count(v.copy(), scheme, "estimate"))
    except Exception as e:  # noqa: BLE001
        res["est_exc"] = _exc(e)
    if n <= EXACT_NMAX_ISOMETRY:
        try:
            res["exact"] = int(cnot_count(v.copy(), scheme, "exact"))
        except Exception as e:  # noqa: BLE001
            res["exact_exc"] = _exc(e)
    try:
        circ = decompose(v.copy(), scheme)
        res["cx"] = cx_count(circ)
        if scheme == "ccd":
            res["tokens"] = walk(circ, [])[::-1]
    except Exception as e:  # noqa: BLE001
        res["cx_exc"] = _exc(e)
    return res


def job_lowrank(n, partition, lr, iso, uni, seed):
    """estimate, transpiled count, the rank the real Schmidt decomposition produced, and the leaves of both
    recursions (recorded by wrapping the functions lowrank.py dispatches to; behaviour unchanged)."""
    import numpy as np
    import qclib.state_preparation.lowrank as lrmod
    from qclib.entanglement import schmidt_decomposition, _to_qubits
    v = rand_state(2 ** n, seed)
    part = list(partition) if partition is not None else None
    res = {}
    enc, est_leaves = [], []
    orig = (lrmod.decompose_isometry, lrmod.decompose_unitary, lrmod.cnots_isometry, lrmod.cnots_unitary)

    def lg(x):
        return int(round(np.log2(x)))

    def w_dec_iso(data, scheme="ccd"):
        c = orig[0](data, scheme=scheme)
        enc.append(["iso %s %d %d" % (scheme, lg(data.shape[0]), lg(data.shape[1])),
                    bool(np.abs(np.imag(data)).max() < 1e-12), cx_count(c)])
        return c

    def w_dec_uni(data, decomposition="qsd"):
        c = orig[1](data, decomposition=decomposition)
        enc.append(["uni %s %d" % (decomposition, lg(data.shape[0])),
                    bool(np.abs(np.imag(data)).max() < 1e-12), cx_count(c)])
        return c

    def w_est_iso(data, scheme="ccd", method="estimate"):
        r = orig[2](data, scheme=scheme, method=method)
        est_leaves.append(["iso %s %d %d" % (scheme, lg(data.shape[0]), lg(data.shape[1])), int(r)])
        return r

    def w_est_uni(data, decomposition="qsd", method="estimate"):
        r = orig[3](data, decomposition=decomposition, method=method)
        est_leaves.append(["uni %s %d" % (decomposition, lg(data.shape[0])), int(r)])
        return r

    lrmod.decompose_isometry, lrmod.decompose_unitary = w_dec_iso, w_dec_uni
    lrmod.cnots_isometry, lrmod.cnots_unitary = w_est_iso, w_est_uni
    try:
        try:
            res["est"] = int(lrmod.cnot_count(v.copy(), low_rank=lr, isometry_scheme=iso, unitary_scheme=uni,
                                              partition=None if part is None else list(part)))
        except Exception as e:  # noqa: BLE001
            res["est_exc"] = _exc(e)
        try:
            opt = {"lr": lr, "iso_scheme": iso, "unitary_scheme": uni, "partition": None if part is None else list(part)}
            form = (seed % 4) if (iso, uni) == ("ccd", "qsd") else 0
            if form:        # default schemes: leave the keys out (lowrank.py __init__ fills them in)
                opt = {"lr": lr, "partition": opt["partition"]}
            if form == 2:
                g = lrmod.LowRankInitialize(v.copy(), label="psi", opt_params=opt)
                res["cx"] = cx_count(g.definition)
            elif form == 3:   # static entry point, qubits=None / explicit list
                from qiskit import QuantumCircuit
                host = QuantumCircuit(n)
                lrmod.LowRankInitialize.initialize(host, v.copy(), qubits=None if (seed // 4) % 2 else list(range(n)), opt_params=opt)
                res["cx"] = cx_count(host)
            else:
                g = lrmod.LowRankInitialize(v.copy(), opt_params=opt)
                res["cx"] = cx_count(g.definition)
            res["form"] = form
        except Exception as e:  # noqa: BLE001
            res["cx_exc"] = _exc(e)
    finally:
        lrmod.decompose_isometry, lrmod.decompose_unitary, lrmod.cnots_isometry, lrmod.cnots_unitary = orig
    if n <= EXACT_NMAX_LOWRANK and iso != "knill":
        try:        # the library's own method='exact': leaves counted by transpile, summed phase by phase
            res["exact"] = int(lrmod.cnot_count(v.copy(), low_rank=lr, isometry_scheme=iso, unitary_scheme=uni,
                                                partition=None if part is None else list(part), method="exact"))
        except Exception as e:  # noqa: BLE001
            res["exact_exc"] = _exc(e)
    p = part if part is not None else lrmod._default_partition(n)
    rank = schmidt_decomposition(v.copy(), list(p), rank=lr)[0]
    res["p"] = len(p)
    res["rank"] = int(rank)
    res["e"] = int(_to_qubits(rank))
    res["enc"] = enc
    res["est_leaves"] = est_leaves
    return res


def job_prim(kind, k, seed):
    """K4 cost table: CNOTs transpile spends on one library object with generic parameters."""
    import numpy as np
    from qiskit import QuantumCircuit
    from qiskit.circuit.library import UCRZGate, UCRYGate, UCGate, DiagonalGate, UnitaryGate, RYGate, CZGate
    r = np.random.default_rng(seed)
    if kind in ("ucrz", "ucry"):
        g = (UCRZGate if kind == "ucrz" else UCRYGate)(list(r.uniform(-3, 3, size=2 ** k)))
        c = QuantumCircuit(k + 1)
        c.append(g, list(range(k + 1)))
    elif kind == "ucrCZ":
        from qclib.gates.ucr import ucr
        c = QuantumCircuit(k + 1)
        c.append(ucr(RYGate, list(r.uniform(-3, 3, size=2 ** k)), CZGate, False).to_instruction(), list(range(k + 1)))
    elif kind in ("ucg", "ucgd"):
        gates = [haar(2, int(r.integers(1 << 30))) for _ in range(2 ** k)]
        c = QuantumCircuit(k + 1)
        c.append(UCGate(gates, up_to_diagonal=(kind == "ucgd")), list(range(k + 1)))
    elif kind == "diag":
        c = QuantumCircuit(k)
        c.append(DiagonalGate(list(np.exp(1j * r.uniform(-3, 3, size=2 ** k)))), list(range(k)))
    elif kind == "u2":
        c = QuantumCircuit(2)
        c.append(UnitaryGate(haar(4, seed)), [0, 1])
    elif kind == "a2":          # k visible two-qubit blocks separated by 2-control UCRZ (4 CX each), through _apply_a2
        from qiskit.synthesis.unitary.qsd import _apply_a2
        c = QuantumCircuit(3)
        for j in range(k):
            sub = QuantumCircuit(2, name="qsd2q")
            sub.append(UnitaryGate(haar(4, seed + j)), [0, 1])
            c.append(sub.to_instruction(), [0, 1])
            if j < k - 1:
                c.append(UCRZGate(list(r.uniform(-3, 3, size=4))), [2, 0, 1])
        return {"cx": cx_count(_apply_a2(c)) - 4 * (k - 1)}
    else:
        raise ValueError(kind)
    return {"cx": cx_count(c)}


# --------------------------------------------------------------------------------------------------
# input-diversity pass: the FORM of otherwise ordinary inputs (worker side: job_div)
# --------------------------------------------------------------------------------------------------
#
# The property is stated for inputs in general position.  The ESTIMATE depends only on shapes and options (low-rank: plus
# the numerical Schmidt rank), the COUNT of the synthesised circuit is only claimed for generic complex input.  Hence two classes:
#   (i)  forms that keep the input generic-complex -> estimate == count (upper bound for ccd on a full unitary), the library's
#        own method='exact' == count, every call form gives the same estimate, structural count of the Lean model == count;
#   (ii) structured / real inputs ("diversity:...:outside-equality") -> both functions return without an undocumented
#        exception, estimate == estimate of the complex128 ndarray with the same values, for unitary / isometry ccd|csd also
#        == estimate of a generic input of the same shape and options (shape-only), ccd full unitary: estimate >= count.
# Forms the library does not claim (lists for the ndarray-typed unitary/isometry functions, a (2^n,1) column for
# LowRankInitialize) may raise AttributeError / TypeError ("unsupported-form-raises-..."), reduced precision (complex64) may be
# rejected with the documented ValueError; anything else raised is a failure.  If such a form is accepted the value is checked.
#
# form x entry point -> where generated (diversity_cases -> job_div -> evaluate_div / diversity_ties; all in BOTH tiers)
#   1 element types, class (i)
#       unitary.cnot_count / _cnot_count_estimate / unitary():  DIV_UNITARY_VARIANTS haar x {F, view, list, tuple, npscalars, c64},
#           n = 1, 2 x EVERY dec x a2 x iso = 0..n; n = 3 every in-scope option; n = 4 two variants per option (div_unitary_cases)
#       isometry.cnot_count / _cnot_count_estimate / decompose():  m >= 1: DIV_ISOMETRY_2D_VARIANTS {F, view, list, c64};
#           m = 0: DIV_ISOMETRY_VEC_VARIANTS 1-D {nd, view, list, tuple, npscalars, c64} AND (2^n,1) column {col, col-view, col-c64},
#           n = 1..3 x m = 0..n x ccd / csd / knill, n = 4 rotating (div_isometry_cases)
#       lowrank.cnot_count / LowRankInitialize:  DIV_LOWRANK_VARIANTS gauss x {nd, col, col-view, list, tuple, npscalars, c64, col-c64,
#           view}, n = 1..4 x (ccd,qsd),(csd,csd), n = 5 alternating, n = 6 a few (div_lowrank_cases A)
#   1 element types, class (ii)  int-perm {int64, int list}, real-orth {f64, cz0, negzero}, diag-pm (matrices, and [:, :2^m]);
#           int-basis {int list, int64, f32}, real {f64, f64 list, cz0, negzero, negzero list}, neg-real, imag, uniform, sparse,
#           one-subtree (vectors: isometry m = 0 as 1-D and column, lowrank)
#   2 scale   unitary: n/a.  isometry m = 0 and lowrank: eqmod (equal moduli, generic phases), headtail-{start,end,mixed}-{2.5,3}
#           (tails 10^-2.5 / 10^-3: class (i)); headtail-*-{5,6} (class (ii): within qiskit's 1 - 1e-9 Weyl specialisation).
#           lowrank only (div_lowrank_cases B, n = 3..6, two or three cuts each): Schmidt spectra with Haar Schmidt vectors
#           tail-above / tail-mixed (light tail above the 1e-7 cut, full rank) / tail-below / rank1-tail (tail a factor >= 50 below the
#           cut: reduced rank - the estimate must follow the rank the construction uses) / repeat / repeat-pairs (class (ii))
#   3 phase   -U, iU, D1 U D2 (unit phases) on unitaries and isometries; -v, iv, per-entry unit phases on generic moduli on vectors
#   4 call forms   EVERY job evaluates the estimate through: positional / keyword / keyword-shuffled / only-non-defaults /
#           the private _cnot_count_estimate positional and keyword (unitary, isometry); positional (with and without svd) /
#           keyword / only-non-defaults (lowrank).  method='exact' and the public constructor rotate through their call forms
#           (unitary(), decompose(): positional / keyword / defaults;  LowRankInitialize: opt_params full / partial / None / {} /
#           label=, static initialize(qubits=None | list | permuted non-contiguous qubits of a larger host)).
#           div_lowrank_cases C (n = 3..6): every option alone, all non-default at once, lr int | np.int64 on both sides of each
#           power of two and out of range (-1, max+1: documented "ignored"), every partition size as list | tuple | reversed |
#           rotated tuple | list of np.int64, svd 'regular' | 'randomized' (lr = 2), iso_scheme knill.
#           D (job_div_host, n = 2..5): one opt_params dict reused for two constructions with its contents replaced in between
#           (and not mutated by the library), copy() before .definition is first read, inverse(), the same gate appended twice,
#           Qubit objects on hosts built from two registers in both orders, register slices, to_gate() / to_instruction().
#           Every job also checks that the caller's array / list / partition object is unchanged afterwards.
#   5 sizes   n = 1 and n = 2 explicitly for every function x scheme x method x iso x form (A-lists above); every partition size at
#           n = 3..6 with lr in {max/2, max/2+1, max, max+1} (C).
# Tie: the (shape, option) tuples of the class-(i) cases go to the driver ops unitary / isometry / lowrank (count of the REAL
# circuit built from the diverse input vs structural count of the model; low-rank B and C: estimate, estimate leaves and
# construction dispatch as in shape_ties, incl. the reduced-rank tuples of the light-tail spectra).  The forms themselves (dtype,
# container, layout, call form, host placement) are not modelled: oracle only.

DIV_LISTLIKE = ("list", "tuple", "npscalars", "int-list", "f64-list", "negzero-list")
DIV_C64 = ("c64", "col-c64")
DIV_STRUCT_MAT = ("int-perm", "real-orth", "diag-pm")
DIV_STRUCT_VEC = ("int-basis", "real", "neg-real", "imag", "uniform", "sparse", "one-subtree")
DIV_SPECTRA = {
    "tail-above": [1.0, 0.5, 1e-3, 1e-4],       # all four Schmidt coefficients above the 1e-7 cut: full rank
    "tail-mixed": [1.0, 1e-3, 1e-5, 1e-6],      # one heavy coefficient, light tail still above the cut
    "tail-below": [1.0, 0.6, 1e-9, 1e-10],      # tail far below the cut: the rank halves
    "rank1-tail": [1.0, 1e-9, 1e-10, 1e-11],    # numerically a product state
    "repeat": [0.5, 0.5, 0.5, 0.5],             # exactly repeated coefficients: outside the equality claim, see div_class
    "repeat-pairs": [0.7, 0.7, 0.1, 0.1],
}
DIV_SPECTRUM_EXT = [0.45, 0.35, 0.4, 0.5]       # second half of an 8-entry spectrum = first half times these
HEADTAIL_GENERIC_MAX_EXPONENT = 3.2               # tails 10^-2.5, 10^-3: generic; 10^-5, 10^-6: outside the equality claim
RANK_CUT_BAND = (1e-7 / 3, 3e-7)                # generated Schmidt coefficients stay outside this band around the 1e-7 cut


def div_class(spec):
    """'structured' = outside the equality claim (class (ii)).  Heavy head + light tail amplitudes count as generic only while
    tail^2 stays well above 1e-9: qiskit's two-qubit Weyl decomposition snaps a block that is within fidelity 1 - 1e-9 of a
    cheaper class onto it (cf. K-C02-1), so tails of 1e-5 / 1e-6 legitimately lose a CNOT (seen: n=3, 4x2 leaf, 2 instead of 3)."""
    kind = spec["kind"]
    if kind.startswith("schmidt:repeat"):
        # exactly repeated Schmidt coefficients: LAPACK resolves the degenerate subspace arbitrarily (for [.5,.5,.5,.5] the
        # separation matrix is a scaled unitary W and the SVD returns W x identity), so a Schmidt factor can come out
        # non-generic (seen: n=4, one 4x4 factor synthesised with 2 CNOTs, estimate 8 vs circuit 7), and the singular-value
        # vector is a product state (estimate 8 = circuit 8 vs 9 for the model's general-position shape)
        return "structured"
    if kind.startswith("headtail"):
        return "structured" if float(kind.split("-")[2]) > HEADTAIL_GENERIC_MAX_EXPONENT else "generic"
    return "structured" if kind in DIV_STRUCT_MAT + DIV_STRUCT_VEC else "generic"


def div_matrix(kind, n, seed):
    import numpy as np
    dim = 2 ** n
    r = np.random.default_rng(seed)
    if kind == "haar":
        return haar(dim, seed)
    if kind == "phase-1":
        return -haar(dim, seed)
    if kind == "phase-i":
        return 1j * haar(dim, seed)
    if kind == "unit-phases":
        return (np.exp(1j * r.uniform(0, 2 * np.pi, dim))[:, None] * haar(dim, seed)) * np.exp(1j * r.uniform(0, 2 * np.pi, dim))[None, :]
    if kind == "int-perm":
        return np.eye(dim, dtype=np.int64)[r.permutation(dim)]
    if kind == "real-orth":
        q, t = np.linalg.qr(r.normal(size=(dim, dim)))
        return q * np.sign(np.diag(t))
    if kind == "diag-pm":
        return np.diag([(-1.0) ** ((k * (k + 1)) // 2) for k in range(dim)])
    raise ValueError(kind)


def state_from_schmidt(n, part, spectrum, seed):
    """generic Schmidt vectors (Haar) with prescribed coefficients across the cut `part` (own implementation of the
    index convention of entanglement._separation_matrix; job_div re-reads the coefficients from the real code's matrix)"""
    import numpy as np
    p = len(part)
    u, v = haar(2 ** (n - p), seed), haar(2 ** p, seed + 1)
    s = np.array(spectrum, dtype=float)
    s = s / np.linalg.norm(s)
    k = len(s)
    mat = (u[:, :k] * s) @ v[:k, :]
    return np.moveaxis(mat.reshape([2] * n), list(range(n - p, n)), sorted(part)).reshape(-1)


def div_spectrum(tag, maxr):
    s = list(DIV_SPECTRA[tag])
    if maxr == 2:
        return [s[0], s[-1] if tag in ("tail-above", "tail-mixed") else s[1] if tag.startswith("repeat") else s[2]]
    if maxr >= 8:
        s = s + [a * b for a, b in zip(s, DIV_SPECTRUM_EXT)] if not tag.startswith("repeat") else s + [0.4 * a for a in s]
    return s


def div_state(kind, n, seed, part=None):
    import numpy as np
    dim = 2 ** n
    r = np.random.default_rng(seed)
    g = rand_state(dim, seed)
    if kind == "gauss":
        return g
    if kind == "phase-1":
        return -g
    if kind == "phase-i":
        return 1j * g
    if kind == "unit-phases":
        return np.abs(g) * np.exp(1j * r.uniform(0, 2 * np.pi, dim))
    if kind == "eqmod":
        return np.exp(1j * r.uniform(0, 2 * np.pi, dim)) / np.sqrt(dim)
    if kind.startswith("headtail"):
        _, pos, tail = kind.split("-")          # headtail-start-3: tail amplitudes 1e-3 (generic complex)
        v = (r.normal(size=dim) + 1j * r.normal(size=dim)) * 10.0 ** (-float(tail))
        idx = {"start": [0, 1], "end": [dim - 1, dim - 2], "mixed": [1 % dim, dim - 2]}[pos]
        for i in sorted(set(idx))[: max(1, min(2, dim // 2))]:
            v[i] = r.normal() + 1j * r.normal() + 0.5
        return v / np.linalg.norm(v)
    if kind.startswith("schmidt:"):
        p = len(part)
        return state_from_schmidt(n, part, div_spectrum(kind.split(":")[1], 2 ** min(p, n - p)), seed)
    if kind == "int-basis":
        e = np.zeros(dim, dtype=np.int64)
        e[seed % dim] = 1
        return e
    if kind in ("real", "neg-real", "imag"):
        x = r.normal(size=dim)
        x = x / np.linalg.norm(x)
        return x if kind == "real" else -np.abs(x) if kind == "neg-real" else 1j * x
    if kind == "uniform":
        return np.ones(dim) / np.sqrt(dim)
    if kind == "sparse":
        x = np.zeros(dim)
        x[seed % dim] = 0.6
        x[(seed % dim + 1 + (seed // 7) % (dim - 1)) % dim] = -0.8
        return x
    if kind == "one-subtree":       # the whole norm is carried by the first quarter (half for n = 1)
        k = max(1, dim // 4)
        x = np.zeros(dim, dtype=complex)
        x[:k] = rand_state(k, seed) if k > 1 else 1j
        return x
    raise ValueError(kind)


def div_form(x, form):
    """the SAME values in another container / dtype / memory layout"""
    import numpy as np
    a = np.asarray(x)
    if form == "nd":
        return np.ascontiguousarray(a.astype(complex))
    if form == "F":
        return np.asfortranarray(a.astype(complex))
    if form in ("view", "col-view"):
        if form == "col-view":
            a = a.reshape(-1, 1)
        big = np.zeros(tuple(2 * k for k in a.shape), dtype=complex) + 7.0
        sl = tuple(slice(None, None, 2) for _ in a.shape)
        big[sl] = a
        return big[sl]
    if form == "list":
        return a.astype(complex).tolist()
    if form == "tuple":
        return tuple(tuple(row) for row in a.astype(complex).tolist()) if a.ndim == 2 else tuple(a.astype(complex).tolist())
    if form == "npscalars":
        return [[np.complex128(v) for v in row] for row in a] if a.ndim == 2 else [np.complex128(v) for v in a]
    if form == "c64":
        return a.astype(np.complex64)
    if form == "col":
        return np.ascontiguousarray(a.astype(complex)).reshape(-1, 1)
    if form == "col-c64":
        return a.astype(np.complex64).reshape(-1, 1)
    if form == "int64":
        return np.rint(a.real).astype(np.int64)
    if form == "int-list":
        return np.rint(a.real).astype(np.int64).tolist()
    if form == "f64":
        return np.ascontiguousarray(a.real.astype(np.float64))
    if form == "f64-list":
        return a.real.astype(np.float64).tolist()
    if form == "f32":           # only used for exactly representable values (basis states)
        return a.real.astype(np.float32)
    if form == "cz0":           # complex dtype, imaginary parts exactly +0.0
        return a.real.astype(np.float64).astype(complex)
    if form in ("negzero", "negzero-list"):     # complex dtype, imaginary parts -0.0, real zeros -0.0
        re = a.real.astype(np.float64).copy()
        re[re == 0] = -0.0
        out = np.empty(a.shape, dtype=complex)
        out.real = re
        out.imag = -0.0
        return out if form == "negzero" else [complex(v.real, -0.0) for v in out]
    raise ValueError(form)


def _snap(x):
    import copy
    import numpy as np
    return x.copy() if isinstance(x, np.ndarray) else copy.deepcopy(x)


def _unchanged(x, snap):
    import numpy as np
    if isinstance(x, np.ndarray):
        return x.dtype == snap.dtype and x.shape == snap.shape and bool(np.array_equal(x, snap))
    return type(x) is type(snap) and repr(x) == repr(snap)


def _try(fn):
    try:
        return int(fn())
    except Exception as e:  # noqa: BLE001
        return "EXC " + _exc(e)


def _nondefault(defaults, **kw):
    """only the arguments that differ from the documented defaults (the others are left to the callee's defaults)"""
    out = {}
    for k, v in kw.items():
        d = defaults[k]
        if d is None:
            same = v is None
        else:
            same = v is not None and not isinstance(v, (list, tuple)) and bool(v == d)
        if not same:
            out[k] = v
    return out


def _opt_form(v, form):
    """the option value `v` in the form named (canonical: Python bool / int)"""
    import numpy as np
    if form in (None, "bool", "int") and not (form == "int" and isinstance(v, bool)):
        return v
    return {"int": int, "np.bool_": np.bool_, "np.int64": np.int64, "np.int32": np.int32, "np.uint8": np.uint8}[form](v)


def div_unitary(spec):
    import numpy as np
    import qclib.unitary as qu
    n, dec, iso0, a20, rot = spec["n"], spec["dec"], spec["iso"], spec["a2"], spec.get("rot", 0)
    # the call under test hands apply_a2 / iso over in the form named (np.bool_, int 1 / 0, numpy integers); the references
    # (est_ref, cx_ref, est_generic) and the tie use the canonical bool / int
    iso, a2 = _opt_form(iso0, spec.get("isoform")), _opt_form(a20, spec.get("a2form"))
    base = div_matrix(spec["kind"], n, spec["seed"])
    ref = np.ascontiguousarray(np.asarray(base).astype(complex))
    x = div_form(base, spec["form"])
    snap = _snap(x)
    dfl = {"decomposition": "qsd", "method": "estimate", "iso": 0, "apply_a2": True}
    calls = {
        "pos": lambda g, mt: qu.cnot_count(g, dec, mt, iso, a2),
        "kw": lambda g, mt: qu.cnot_count(gate=g, decomposition=dec, method=mt, iso=iso, apply_a2=a2),
        "kw-shuffled": lambda g, mt: qu.cnot_count(g, apply_a2=a2, iso=iso, method=mt, decomposition=dec),
        "default": lambda g, mt: qu.cnot_count(g, **_nondefault(dfl, decomposition=dec, method=mt, iso=iso, apply_a2=a2)),
    }
    ctors = {
        "pos": lambda g: qu.unitary(g, dec, iso, a2),
        "kw": lambda g: qu.unitary(gate=g, decomposition=dec, iso=iso, apply_a2=a2),
        "default": lambda g: qu.unitary(g, **_nondefault(dfl, decomposition=dec, iso=iso, apply_a2=a2)),
    }
    res = {"est": {c: _try(lambda: f(x, "estimate")) for c, f in calls.items()}}
    res["est"]["private-pos"] = _try(lambda: qu._cnot_count_estimate(x, dec, iso, a2))
    res["est"]["private-kw"] = _try(lambda: qu._cnot_count_estimate(x, **_nondefault(dfl, decomposition=dec, iso=iso, apply_a2=a2)))
    cname = list(calls)[rot % len(calls)]
    kname = list(ctors)[rot % len(ctors)]
    res["exact_call"], res["ctor_call"] = cname, kname
    if n <= EXACT_NMAX_UNITARY:
        res["exact"] = _try(lambda: calls[cname](x, "exact"))
    res["cx"] = _try(lambda: cx_count(ctors[kname](x)))
    if isinstance(res["cx"], str):
        res["cx_ref"] = _try(lambda: cx_count(qu.unitary(ref.copy(), dec, iso0, a20)))
    res["est_ref"] = _try(lambda: qu.cnot_count(ref.copy(), dec, "estimate", iso0, a20))
    res["est_generic"] = _try(lambda: qu.cnot_count(haar(2 ** n, spec["seed"] + 1), dec, "estimate", iso0, a20))
    if spec.get("isoform") or spec.get("a2form"):
        # the circuit built with the canonical values: the form must not change what is synthesised
        res["cx_canon"] = _try(lambda: cx_count(qu.unitary(ref.copy(), dec, iso0, a20)))
    res["input_unchanged"] = _unchanged(x, snap)
    return res


def div_isometry(spec):
    import numpy as np
    import qclib.isometry as qi
    n, m, scheme, rot, shape = spec["n"], spec["m"], spec["scheme"], spec.get("rot", 0), spec.get("shape", "2d")
    if shape == "2d":
        base = np.asarray(div_matrix(spec["kind"], n, spec["seed"]))[:, : 2 ** m]
        generic = haar(2 ** n, spec["seed"] + 1)[:, : 2 ** m].copy()
    else:       # m = 0 handed over as a 1-D vector or (through the col* forms) as a (2^n, 1) column
        base = div_state(spec["kind"], n, spec["seed"])
        generic = rand_state(2 ** n, spec["seed"] + 1)
    ref = np.ascontiguousarray(np.asarray(base).astype(complex))
    x = div_form(base, spec["form"])
    if shape == "col" and isinstance(x, np.ndarray) and x.ndim == 1:
        x = x.reshape(-1, 1)            # dtype-preserving column (int64 / f64 / ... forms)
    snap = _snap(x)
    dfl = {"scheme": "ccd", "method": "estimate"}
    calls = {
        "pos": lambda g, mt: qi.cnot_count(g, scheme, mt),
        "kw": lambda g, mt: qi.cnot_count(isometry=g, scheme=scheme, method=mt),
        "default": lambda g, mt: qi.cnot_count(g, **_nondefault(dfl, scheme=scheme, method=mt)),
    }
    ctors = {
        "pos": lambda g: qi.decompose(g, scheme),
        "kw": lambda g: qi.decompose(isometry=g, scheme=scheme),
        "default": lambda g: qi.decompose(g, **_nondefault(dfl, scheme=scheme)),
    }
    res = {"est": {c: _try(lambda: f(x, "estimate")) for c, f in calls.items()}}
    res["est"]["private-pos"] = _try(lambda: qi._cnot_count_estimate(x, scheme))
    res["est"]["private-kw"] = _try(lambda: qi._cnot_count_estimate(x, **_nondefault(dfl, scheme=scheme)))
    cname = list(calls)[rot % len(calls)]
    kname = list(ctors)[rot % len(ctors)]
    res["exact_call"], res["ctor_call"] = cname, kname
    if n <= EXACT_NMAX_ISOMETRY:
        res["exact"] = _try(lambda: calls[cname](x, "exact"))
    res["cx"] = _try(lambda: cx_count(ctors[kname](x)))
    if isinstance(res["cx"], str):
        res["cx_ref"] = _try(lambda: cx_count(qi.decompose(ref.copy(), scheme)))
    res["est_ref"] = _try(lambda: qi.cnot_count(ref.copy(), scheme, "estimate"))
    res["est_generic"] = _try(lambda: qi.cnot_count(generic, scheme, "estimate"))
    res["input_unchanged"] = _unchanged(x, snap)
    return res


def _div_partition(part, pform):
    import numpy as np
    if part is None:
        return None
    p = sorted(part)
    if pform == "list":
        return list(p)
    if pform == "tuple":
        return tuple(p)
    if pform == "reversed":
        return list(p[::-1])
    if pform == "rotated-tuple":
        return tuple(p[1:] + p[:1])
    if pform == "npints":
        return [np.int64(q) for q in p]
    raise ValueError(pform)


class _LrRecorder:
    """records the leaves of the estimate recursion and of the construction (as job_lowrank does), behaviour unchanged"""

    def __init__(self, lrmod):
        self.m, self.enc, self.leaves = lrmod, [], []

    def __enter__(self):
        import numpy as np
        m = self.m
        self.orig = orig = (m.decompose_isometry, m.decompose_unitary, m.cnots_isometry, m.cnots_unitary)

        def lg(v):
            return int(round(np.log2(v)))

        def w_dec_iso(data, scheme="ccd"):
            c = orig[0](data, scheme=scheme)
            self.enc.append(["iso %s %d %d" % (scheme, lg(data.shape[0]), lg(data.shape[1])),
                             bool(np.abs(np.imag(data)).max() < 1e-12), cx_count(c)])
            return c

        def w_dec_uni(data, decomposition="qsd"):
            c = orig[1](data, decomposition=decomposition)
            self.enc.append(["uni %s %d" % (decomposition, lg(data.shape[0])), bool(np.abs(np.imag(data)).max() < 1e-12), cx_count(c)])
            return c

        def w_est_iso(data, scheme="ccd", method="estimate"):
            r = orig[2](data, scheme=scheme, method=method)
            self.leaves.append(["iso %s %d %d" % (scheme, lg(data.shape[0]), lg(data.shape[1])), int(r)])
            return r

        def w_est_uni(data, decomposition="qsd", method="estimate"):
            r = orig[3](data, decomposition=decomposition, method=method)
            self.leaves.append(["uni %s %d" % (decomposition, lg(data.shape[0])), int(r)])
            return r

        m.decompose_isometry, m.decompose_unitary, m.cnots_isometry, m.cnots_unitary = w_dec_iso, w_dec_uni, w_est_iso, w_est_uni
        return self

    def __exit__(self, *a):
        m = self.m
        m.decompose_isometry, m.decompose_unitary, m.cnots_isometry, m.cnots_unitary = self.orig
        return False


def div_lowrank(spec):
    import numpy as np
    import qclib.state_preparation.lowrank as lrmod
    from qclib.entanglement import schmidt_decomposition, _to_qubits, _separation_matrix
    from qiskit import QuantumCircuit
    n, lr, iso, uni, rot = spec["n"], spec.get("lr", 0), spec.get("iso", "ccd"), spec.get("uni", "qsd"), spec.get("rot", 0)
    svd = spec.get("svd", "auto")
    part0 = spec.get("part")
    base = div_state(spec["kind"], n, spec["seed"], part0)
    ref = np.ascontiguousarray(np.asarray(base).astype(complex))
    x = div_form(base, spec["form"])
    if spec.get("lrform") in ("np.int64", "np.int32", "np.uint8"):
        lr = _opt_form(lr, spec["lrform"])
    part = _div_partition(part0, spec.get("pform", "list"))
    snap, psnap = _snap(x), _snap(part)
    res = {}
    pdef = sorted(part0) if part0 is not None else lrmod._default_partition(n)
    if n >= 2:      # keep away from the rank cut (the band has its own boundary cases)
        sv = np.linalg.svd(_separation_matrix(n, ref, pdef), compute_uv=False)
        sv = sv / np.linalg.norm(sv)
        if any(RANK_CUT_BAND[0] < s < RANK_CUT_BAND[1] for s in sv):
            return {"skipped": "schmidt coefficient inside the excluded band around the 1e-7 rank cut"}
        res["schmidt"] = [float("%.3g" % s) for s in sv[:8]]
    dfl = {"low_rank": 0, "isometry_scheme": "ccd", "unitary_scheme": "qsd", "partition": None, "method": "estimate", "svd": "auto"}
    calls = {
        "pos": (lambda g, mt: lrmod.cnot_count(g, lr, iso, uni, part, mt, svd)) if (svd != "auto" or rot % 2) else
               (lambda g, mt: lrmod.cnot_count(g, lr, iso, uni, part, mt)),
        "kw": lambda g, mt: lrmod.cnot_count(state_vector=g, low_rank=lr, isometry_scheme=iso, unitary_scheme=uni, partition=part,
                                             method=mt, svd=svd),
        "default": lambda g, mt: lrmod.cnot_count(g, **_nondefault(dfl, low_rank=lr, isometry_scheme=iso, unitary_scheme=uni,
                                                                   partition=part, method=mt, svd=svd)),
    }
    full = {"lr": lr, "iso_scheme": iso, "unitary_scheme": uni, "partition": part, "svd": svd}
    partial = _nondefault({"lr": 0, "iso_scheme": "ccd", "unitary_scheme": "qsd", "partition": None, "svd": "auto"}, **full)

    def on_host(g, qubits, extra):
        host = QuantumCircuit(n + extra)
        lrmod.LowRankInitialize.initialize(host, g, qubits=qubits, opt_params=dict(partial))
        return host

    perm = [(3 * k + 1) % (n + 2) for k in range(n + 2)] if (n + 2) % 3 else [(5 * k + 2) % (n + 2) for k in range(n + 2)]
    ctors = {
        "opt-full": lambda g: lrmod.LowRankInitialize(g, opt_params=dict(full)).definition,
        "opt-partial": lambda g: lrmod.LowRankInitialize(g, opt_params=(dict(partial) if partial or rot % 2 else None)).definition,
        "opt-full-label": lambda g: lrmod.LowRankInitialize(g, label="psi", opt_params=dict(full)).definition,
        "static-qubits-none": lambda g: on_host(g, None, 0),
        "static-qubits-list": lambda g: on_host(g, list(range(n)), 0),
        "static-permuted-larger-host": lambda g: on_host(g, perm[:n], 2),
    }
    res["est"] = {c: _try(lambda: f(x, "estimate")) for c, f in calls.items()}
    cname = list(calls)[rot % len(calls)]
    kname = list(ctors)[rot % len(ctors)]
    res["exact_call"], res["ctor_call"] = cname, kname
    if n <= EXACT_NMAX_LOWRANK and iso != "knill":
        res["exact"] = _try(lambda: calls[cname](x, "exact"))
    res["cx"] = _try(lambda: cx_count(ctors[kname](x)))
    if isinstance(res["cx"], str):
        res["cx_ref"] = _try(lambda: cx_count(lrmod.LowRankInitialize(ref.copy(), opt_params=dict(full)).definition))
    res["est_ref"] = _try(lambda: lrmod.cnot_count(ref.copy(), int(lr), iso, uni, None if part0 is None else sorted(part0), "estimate", svd))
    res["input_unchanged"] = _unchanged(x, snap) and _unchanged(part, psnap)
    cx = res["cx"] if not isinstance(res["cx"], str) else res.get("cx_ref")
    est = res["est"]["pos"]
    if n >= 2 and svd != "randomized":
        rank = schmidt_decomposition(ref.copy(), list(pdef), rank=int(lr))[0]
        res["p"], res["rank"], res["e"] = len(pdef), int(rank), int(_to_qubits(rank))
    if n >= 2 and iso != "knill" and "p" in res and not isinstance(est, str) and not isinstance(cx, str) and (spec.get("record") or est != cx):
        # leaves of both recursions (for the shape tie, and to classify a difference exactly as eval_lowrank does)
        with _LrRecorder(lrmod) as rec:
            e2 = _try(lambda: lrmod.cnot_count(ref.copy(), int(lr), iso, uni, None if part0 is None else sorted(part0), "estimate", svd))
            c2 = _try(lambda: cx_count(lrmod.LowRankInitialize(ref.copy(), opt_params=dict(full, lr=int(lr), partition=None if part0 is None else sorted(part0))).definition))
        if e2 == res["est_ref"] and c2 == cx:
            res["enc"], res["est_leaves"] = rec.enc, rec.leaves
    return res


def job_div_host(spec):
    """object / host forms of LowRankInitialize on one generic state: every entry is (name, expected CNOTs, observed)"""
    import copy
    import numpy as np
    import qclib.state_preparation.lowrank as lrmod
    from qiskit import QuantumCircuit, QuantumRegister
    n, seed = spec["n"], spec["seed"]
    v = rand_state(2 ** n, seed)
    lri = lrmod.LowRankInitialize
    out = []

    def rec(name, want, fn):
        out.append([name, want, _try(fn)])

    lr_b = 2 if n >= 4 else 0
    pa, pb = [n - 1], [0, n - 1][: max(1, n // 2)]
    est_a = int(lrmod.cnot_count(v, 1, "ccd", "qsd", pa))
    est_b = int(lrmod.cnot_count(v, lr_b, "csd", "csd", pb))
    # the SAME dict object for two constructions, contents replaced in between; definitions built afterwards
    opt = {"lr": 1, "partition": list(pa)}
    g1 = lri(v.copy(), opt_params=opt)
    opt["lr"], opt["partition"], opt["iso_scheme"], opt["unitary_scheme"] = lr_b, list(pb), "csd", "csd"
    keep = copy.deepcopy(opt)
    g2 = lri(v.copy(), opt_params=opt)
    rec("dict-reuse:first", est_a, lambda: cx_count(g1.definition))
    rec("dict-reuse:second", est_b, lambda: cx_count(g2.definition))
    out.append(["dict-reuse:caller-dict-unchanged", 1, int(opt == keep)])
    # copy taken BEFORE .definition is first read, then both used
    g3 = lri(v.copy(), opt_params=dict(keep))
    g3c = g3.copy()
    rec("copy-before-definition:copy", est_b, lambda: cx_count(g3c.definition))
    rec("copy-before-definition:original", est_b, lambda: cx_count(g3.definition))
    rec("inverse", est_b, lambda: cx_count(g3.inverse().definition))
    rec("definition.to_gate", est_b, lambda: cx_count(g3.definition.to_gate().definition))
    rec("definition.to_instruction", est_b, lambda: cx_count(g3.definition.to_instruction().definition))
    # the same gate object appended twice on a larger host, permuted non-contiguous qubits
    w = n + 2
    perm1 = [(3 * k + 1) % w for k in range(w)] if w % 3 else [(5 * k + 2) % w for k in range(w)]
    perm2 = perm1[::-1]

    def twice():
        h = QuantumCircuit(w)
        h.append(g3, perm1[:n])
        h.append(g3, perm2[:n])
        return cx_count(h)
    rec("same-gate-appended-twice", 2 * est_b, twice)
    # Qubit objects / register slices on a host built from two registers in either order
    qa, qb = QuantumRegister(n // 2 + 1, "a"), QuantumRegister(n - n // 2 + 1, "b")

    def qubit_objects(order):
        h = QuantumCircuit(*order)
        allq = list(qb) + list(qa)
        qs = [allq[i] for i in perm1[:n]]
        lri.initialize(h, v.copy(), qubits=qs, opt_params=dict(keep))
        return cx_count(h)
    rec("static:qubit-objects:host(a,b)", est_b, lambda: qubit_objects((qa, qb)))
    rec("static:qubit-objects:host(b,a)", est_b, lambda: qubit_objects((qb, qa)))

    def slices():
        h = QuantumCircuit(qb, qa)
        qs = (qb[1:] + qa[:])[:n]
        lri.initialize(h, v.copy(), qubits=qs, opt_params=dict(keep))
        return cx_count(h)
    rec("static:register-slices", est_b, slices)
    return {"host": out, "n": n, "ests": [est_a, est_b]}


def job_div(spec):
    ep = spec["ep"]
    if ep == "unitary":
        return div_unitary(spec)
    if ep == "isometry":
        return div_isometry(spec)
    if ep == "lowrank":
        return div_lowrank(spec)
    if ep == "lowrank-host":
        return job_div_host(spec)
    raise ValueError(ep)


def run_job(job):
    sys.setrecursionlimit(10000)
    kind = job[0]
    try:
        if kind == "unitary":
            return job_unitary(*job[1:])
        if kind == "isometry":
            return job_isometry(*job[1:])
        if kind == "lowrank":
            return job_lowrank(*job[1:])
        if kind == "prim":
            return job_prim(*job[1:])
        if kind == "div":
            return job_div(job[1])
    except Exception as e:  # noqa: BLE001  (harness trouble must not look like a violation)
        import traceback
        return {"harness_exc": traceback.format_exc()[-1500:]}
    return {"harness_exc": "unknown job " + repr(job)}


def run_jobs(jobs, workers=None):
    if not jobs:
        return []
    import multiprocessing as mp
    from concurrent.futures import ProcessPoolExecutor
    workers = workers or max(1, min(14, (os.cpu_count() or 2) - 1, len(jobs)))
    if workers == 1 or len(jobs) < 4:
        return [run_job(j) for j in jobs]
    os.environ.setdefault("OMP_NUM_THREADS", "1")
    os.environ["OMP_NUM_THREADS"] = "1"
    os.environ["OPENBLAS_NUM_THREADS"] = "1"
    os.environ["RAYON_NUM_THREADS"] = "1"
    # heaviest first so the pool drains evenly
    order = sorted(range(len(jobs)), key=lambda i: -job_weight(jobs[i]))
    with ProcessPoolExecutor(max_workers=workers, mp_context=mp.get_context("spawn")) as ex:
        res = list(ex.map(run_job, [jobs[i] for i in order], chunksize=1))
    out = [None] * len(jobs)
    for i, r in zip(order, res):
        out[i] = r
    return out


def job_weight(job):
    if job[0] == "unitary":
        return 4 ** job[1] * (2 if job[2] == "csd" else 1)
    if job[0] == "isometry":
        return 4 ** job[1] * (8 if job[3] == "knill" else 1)
    if job[0] == "lowrank":
        return 2 ** job[1] * (64 if job[4] == "knill" else 1)
    if job[0] == "div":
        s = job[1]
        return 4 ** s["n"] * (8 if "knill" in (s.get("scheme"), s.get("iso")) else 1) if s["ep"] != "lowrank" else 3 * 2 ** s["n"]
    return 1


# --------------------------------------------------------------------------------------------------
# second tie of the translator: generated function vs Python original, exhaustive small range
# --------------------------------------------------------------------------------------------------

def gen_ties(ctx, big=False):
    import qclib.unitary as qu
    import qclib.isometry as qi
    import qclib.state_preparation.lowrank as ql
    import qclib.entanglement as qe
    sys.setrecursionlimit(10000)

    def tie(fn, args, val, **extra):
        if isinstance(val, float):
            # e.g. 2 ** (n - 1) with n < 1: Python leaves the integers, outside the translated fragment
            ctx.count("gen:outside-fragment(float result)")
            return
        op = dict({"op": "gen", "fn": fn, "args": list(args)}, **extra)
        ctx.tie(op, [val if isinstance(val, str) else str(int(val))])
        ctx.count("gen:" + fn)

    # closed forms: up to 26 qubits (range where the float formula is claimed exact); recursions: n <= 9 (4^n calls)
    rows = [2 ** n for n in range(0, 27)] + [3, 5, 6, 7, 9, 12, 15, 17, 31, 33, 63, 65, 100]
    for r in rows:
        fake = types.SimpleNamespace(shape=(r, r))
        for dec in ("qsd", "csd"):
            for a2 in (True, False):
                tie("unitary._cnot_count_estimate", [r, 0], qu._cnot_count_estimate(fake, dec, 0, a2), dec=dec, a2=a2)
    nmax = 10 if big else 9
    for n in range(0, nmax + 1):
        fake = types.SimpleNamespace(shape=(2 ** n, 2 ** n))
        for iso in sorted({1, 2, 3, max(n - 2, 1), max(n - 1, 1), max(n, 1), n + 2}):
            for dec in ("qsd", "csd"):
                for a2 in (True, False):
                    tie("unitary._cnot_count_estimate", [2 ** n, iso], qu._cnot_count_estimate(fake, dec, iso, a2),
                        dec=dec, a2=a2)
    for n in range(-1, nmax + 1):
        for a2 in (True, False):
            tie("unitary._cnot_count_iso_qsd", [n], qu._cnot_count_iso_qsd(n, a2), a2=a2)
            for iso in range(-1, n + 3):
                tie("unitary._cnot_count_iso", [n, iso], qu._cnot_count_iso(n, iso, a2), a2=a2)
    for k in range(0, 70):
        for i in range(0, 8):
            tie("isometry._a", [k, i], qi._a(k, i))
            tie("isometry._b", [k, i], qi._b(k, i))
            tie("isometry._k_s", [k, i], qi._k_s(k, i))
    for n in range(0, (9 if big else 8) + 1):
        for m in range(0, n + 1 + (1 if n <= 5 else 0)):
            tie("isometry._cnot_count_estimate_ccd", [n, m], qi._cnot_count_estimate_ccd(n, m))
    for n in range(0, 24):
        tie("lowrank._default_partition", [n], "[" + " ".join(str(x) for x in ql._default_partition(n)) + "]")
    xs = list(range(-2, 1030)) + [2 ** j + d for j in range(11, 40) for d in (-1, 0, 1)]
    for x in xs:
        tie("entanglement._to_qubits", [x], qe._to_qubits(x))


# --------------------------------------------------------------------------------------------------
# case lists
# --------------------------------------------------------------------------------------------------

def in_scope_unitary(dec, iso, a2):
    """Option combinations the property speaks of: QSD and CSD on full unitaries, QSD with A.2 in isometry mode."""
    return iso == 0 or (dec == "qsd" and a2)


def unitary_cases(ctx, nmax, nfull):
    out = []
    for n in range(1, nmax + 1):
        for dec in ("qsd", "csd"):
            for a2 in (True, False):
                isos = range(0, n + 1) if n <= nfull else sorted({0, 1, n - 2, n})
                for iso in isos:
                    if n > nfull and not in_scope_unitary(dec, iso, a2):
                        continue
                    if n > nfull and dec == "csd" and not a2:
                        continue
                    out.append(("unitary", n, dec, iso, a2, ctx.rng.getrandbits(30)))
    return out


def isometry_cases(ctx, nmax, nknill, nbig=None):
    out = []
    for n in range(1, nmax + 1):
        for m in range(0, n + 1):
            for scheme in ("ccd", "csd") + (("knill",) if 2 <= n <= nknill else ()):
                out.append(("isometry", n, m, scheme, ctx.rng.getrandbits(30), False))
        for scheme in ("ccd", "csd") + (("knill",) if 2 <= n <= nknill else ()):
            out.append(("isometry", n, 0, scheme, ctx.rng.getrandbits(30), True))      # 1-D state vector input
    for m in (0, 1):        # Knill on one qubit: decompose raises (documented); the estimate takes its no-cx branch
        out.append(("isometry", 1, m, "knill", ctx.rng.getrandbits(30), False))
    if nbig:
        for m in sorted({0, 1, nbig // 2, nbig - 1}):
            for scheme in ("ccd", "csd"):
                out.append(("isometry", nbig, m, scheme, ctx.rng.getrandbits(30), False))
    return out


def rank_choices(maxr):
    if maxr <= 4:
        return list(range(0, maxr + 1))
    return sorted({0, 1, 2, 3, 4, 5, maxr // 2, maxr // 2 + 1, maxr - 1, maxr})


def lowrank_cases(ctx, nall, nmax, knill_n=4):
    out = []
    for n in range(1, nmax + 1):
        maxp = n // 2 + n % 2
        parts = [None]
        if n >= 2:
            for size in range(1, maxp + 1):
                subsets = list(itertools.combinations(range(n), size))
                if n <= nall:
                    parts += [list(s) for s in subsets]
                else:
                    parts.append(list(range(size)))
                    parts.append(sorted(ctx.rng.sample(range(n), size)))
        for part in parts:
            p = len(part) if part is not None else maxp
            maxr = 2 ** min(p, n - p) if n >= 2 else 1
            ranks = rank_choices(maxr)
            if n <= nall and part is not None and part != list(range(p)):
                ranks = sorted({0, 1, maxr // 2 + 1} & set(ranks)) or [0]      # all subsets: fewer ranks each
            for lr in ranks:
                for iso in ("ccd", "csd"):
                    for uni in ("qsd", "csd"):
                        out.append(("lowrank", n, part, lr, iso, uni, ctx.rng.getrandbits(30)))
        if 4 <= n <= knill_n:
            out.append(("lowrank", n, [0], 0, "knill", "qsd", ctx.rng.getrandbits(30)))
    return out


def boundary_cases(ctx):
    """Sizes next to thresholds that the regular grids leave out in the quick tier (everything else - n = 1/2/3 of the closed
    forms, every iso in 0..n for n <= 5, every (n, m) <= 5 incl. m = 0/1 and 1-D vectors, ranks maxr//2, maxr//2+1, maxr-1, maxr,
    every partition size - is already AT and one off the boundary in unitary_cases / isometry_cases / lowrank_cases, and the
    generated estimate functions are tied exhaustively around every comparison):
    * `n_qubits - 1 == 2` inside _cnot_count_iso is reached with iso still > 0 iff iso >= n - 2: iso = n-3 / n-2 / n-1 / n at n = 6;
    * lowrank.cnot_count -> schmidt_decomposition(svd='auto'): n = 13 / 14 / 15 with low_rank = 1 (default partition, above
      round(n/2.5)), a 6-qubit partition at n = 14 (at the bound) and low_rank = 2 at n = 14 - rank 1 keeps estimate and circuit
      cheap (two generic states of <= 8 qubits)."""
    out = []
    for iso in (3, 5):
        out.append(("unitary", 6, "qsd", iso, True, ctx.rng.getrandbits(30)))
        ctx.count(f"boundary:unitary:n=6:iso={iso}(n-3..n)")
    for n, part, lr in ((13, None, 1), (14, None, 1), (15, None, 1), (14, sorted(ctx.rng.sample(range(14), 6)), 1), (14, None, 2)):
        for iso, uni in (("ccd", "qsd"), ("csd", "csd")):
            out.append(("lowrank", n, part, lr, iso, uni, ctx.rng.getrandbits(30)))
            ctx.count(f"boundary:lowrank:svd-switch:n={n}:p={'default' if part is None else len(part)}:lr={lr}")
    return out


PRIM_RANGE = {"ucrz": range(1, 7), "ucry": range(1, 7), "ucrCZ": range(1, 7), "ucg": range(1, 6), "ucgd": range(1, 6),
              "diag": range(1, 8), "u2": range(0, 1), "a2": range(1, 5)}


# --------------------------------------------------------------------------------------------------
# evaluation
# --------------------------------------------------------------------------------------------------

def model_counts(ctx, ops):
    """Structural counts from the Lean model (None when the model is not built: the oracle then compares
    estimate and circuit only)."""
    if not ops:
        return []
    try:
        return framework.run_driver(ops, driver=DRIVER)
    except Exception as e:  # noqa: BLE001
        ctx.notes.append("structural counts unavailable (model not built?): " + str(e)[:200])
        return [None] * len(ops)


def key_of(job):
    k = job[0]
    if k == "div":
        return div_key(job[1])
    if k == "unitary":
        _, n, dec, iso, a2, _ = job
        return f"unitary.cnot_count:{dec}:n={n}:iso={iso}:a2={int(a2)}"
    if k == "isometry":
        _, n, m, scheme, _, vec = job
        return f"isometry.cnot_count:{scheme}:n={n}:m={m}" + (":vector-1d" if vec else "")
    _, n, part, lr, iso, uni, _ = job
    ptxt = "default" if part is None else "-".join(map(str, part))
    return f"lowrank.cnot_count:n={n}:partition={ptxt}:lr={lr}:iso={iso}:uni={uni}"


def replay_of(job):
    if job[0] == "div":
        return {"job": ["div", job[1]], "how": "tools/props/c10.py run_job(('div', spec)): job_div rebuilds the input from spec (kind + seed -> "
                                                "values, form -> container / dtype / layout, options and call forms as named) and calls "
                                                "cnot_count in every call form, method='exact' and the public constructor"}
    return {"job": list(job), "how": "tools/props/c10.py run_job(job): Haar-random input from the seed (last-but-one field), "
                                     "cnot_count(..., method='estimate') vs transpile(circuit, ['u','cx'], 0).count_ops()['cx']"}


def evaluate(ctx, jobs, results, struct):
    for job, res, st in zip(jobs, results, struct):
        key = key_of(job)
        rep = replay_of(job)
        if "harness_exc" in res:
            raise RuntimeError("harness failure in %r: %s" % (job, res["harness_exc"]))
        kind = job[0]
        if kind == "div":
            evaluate_div(ctx, job, res, st)
            continue
        ctx.count(kind + ":" + (job[2] if kind == "unitary" else job[3] if kind == "isometry" else job[4]))
        if "est_exc" in res or "cx_exc" in res:
            # Knill is documented not to work on one qubit
            if kind == "isometry" and job[3] == "knill" and job[1] < 2:
                ctx.count("branch:knill-one-qubit:" + ("synthesis-rejects" if "cx_exc" in res else "synthesis-accepts")
                          + ("/estimate-raises" if "est_exc" in res else "/estimate=%s" % res.get("est")))
                continue
            which = "estimate-raises" if "est_exc" in res else "synthesis-raises"
            ctx.fail(f"{key}:{which}", res.get("est_exc") or res.get("cx_exc"), dict(rep, observed=res))
            continue
        est, cx = res["est"], res["cx"]
        if "exact_exc" in res:
            ctx.fail(f"{key}:exact-method-raises", res["exact_exc"], dict(rep, observed=res))
        elif "exact" in res:
            ctx.count("branch:method=exact:" + kind)
            if res["exact"] == 0:
                ctx.count("branch:method=exact:no-cx(return 0):" + kind)
            if res["exact"] != cx:
                ctx.fail(f"{key}:exact-method={res['exact']}:circuit={cx}", "cnot_count(..., method='exact') differs from the "
                         "transpiled count of the circuit built for the same input", dict(rep, observed=res))
            else:
                ctx.ok(key + ":exact-method", job[1] >= 2, None)
        if kind == "lowrank" and res.get("form"):
            ctx.count("branch:lowrank-entry-form:%d" % res["form"])
        nontrivial = job[1] >= (3 if kind == "unitary" else 2)
        sample = {"call": key, "estimate": est, "circuit_cx": cx, "structural": st}
        if kind == "unitary":
            _, n, dec, iso, a2, _ = job
            if st is not None and cx != st:
                ctx.fail(f"{key}:circuit={cx}:structural={st}", "transpiled circuit differs from the structural count "
                         "(cost table / shape assumption broken)", dict(rep, observed=res), kind="assumption")
                continue
            if not in_scope_unitary(dec, iso, a2):
                ctx.count("out-of-scope-option-combination")
                if est != cx:
                    ctx.count("out-of-scope:estimate!=circuit")
                continue
            if est != cx:
                ctx.fail(f"{key}:diff={est - cx:+d}", f"estimate {est} != circuit {cx} (structural {st})", dict(rep, observed=res))
            else:
                ctx.ok(key, nontrivial, sample)
        elif kind == "isometry":
            _, n, m, scheme, _, vec = job
            full_ccd = scheme == "ccd" and m == n and n >= 1
            if st is not None and scheme != "knill" and ((cx != st) if not full_ccd else (cx > st)):
                ctx.fail(f"{key}:circuit={cx}:structural={st}", "transpiled circuit differs from the structural count",
                         dict(rep, observed=res), kind="assumption")
                continue
            if full_ccd:
                ctx.count("ccd-full-unitary-upper-bound")
                if est < cx:
                    ctx.fail(f"{key}:upper-bound-violated:diff={est - cx:+d}", f"estimate {est} < circuit {cx}", dict(rep, observed=res))
                else:
                    ctx.ok(key, nontrivial, sample)
            elif est != cx:
                ctx.fail(f"{key}:diff={est - cx:+d}", f"estimate {est} != circuit {cx} (structural {st})", dict(rep, observed=res))
            else:
                ctx.ok(key, nontrivial, sample)
        else:
            eval_lowrank(ctx, job, res, st, key, rep, nontrivial)


def eval_lowrank(ctx, job, res, st, key, rep, nontrivial):
    _, n, part, lr, iso, uni, _ = job
    est, cx = res["est"], res["cx"]
    sample = {"call": key, "rank": res["rank"], "estimate": est, "circuit_cx": cx, "structural": st}
    if est == cx:
        if st is not None and st != cx:
            ctx.fail(f"{key}:circuit={cx}:structural={st}", "structural count differs", dict(rep, observed=res), kind="assumption")
        else:
            ctx.ok(key, nontrivial, sample)
        return
    # localise: estimate per leaf tag vs the transpiled count of each leaf the circuit really used
    est_by_tag = {}
    for tag, v in res["est_leaves"]:
        est_by_tag.setdefault(tag, v)
    explained, bad = 0, []
    for tag, is_real, lcx in res["enc"]:
        e = est_by_tag.get(tag)
        if e is None:
            bad.append((tag, "no estimate leaf"))
            continue
        d = e - lcx
        two_qubit = tag.split()[0] == "uni" and tag.split()[2] == "2" or tag.split()[0] == "iso" and tag.split()[2] == "2"
        if d == 0:
            continue
        if d == 1 and is_real and two_qubit:
            explained += 1
        else:
            bad.append((tag, is_real, e, lcx))
    p, rank = res["p"], res["rank"]
    base = f"lowrank.cnot_count:n={n}:p={p}:rank={rank}:iso={iso}:uni={uni}"
    if not bad and explained == est - cx and explained > 0:
        ctx.count("lowrank:real-singular-value-block")
        ctx.fail(f"{base}:+{explained}:real-singular-value-block",
                 f"estimate {est} = circuit {cx} + {explained}: the singular-value sub-vector is real, so its two-qubit "
                 f"block(s) are real orthogonal and qiskit synthesises them with 2 CNOTs; the estimate charges 3",
                 dict(rep, observed=res))
    else:
        ctx.fail(f"{key}:diff={est - cx:+d}", f"estimate {est} != circuit {cx}; unexplained leaves {bad}", dict(rep, observed=res))


def struct_op(job):
    k = job[0]
    if k == "div":
        return None         # needs the result (rank): div_struct_op, see oracle()
    if k == "unitary":
        _, n, dec, iso, a2, _ = job
        return {"op": "unitary", "dec": dec, "n": n, "iso": iso, "a2": a2}
    if k == "isometry":
        _, n, m, scheme, _, _ = job
        if scheme == "knill":
            return None
        return {"op": "isometry", "scheme": scheme, "n": n, "m": m}
    return None


def oracle(ctx, jobs, with_model=True):
    results = run_jobs(jobs)
    ops, idx = [], []
    for i, (job, res) in enumerate(zip(jobs, results)):
        op = struct_op(job)
        if job[0] == "lowrank" and job[4] != "knill" and "e" in res:
            op = {"op": "lowrank", "n": job[1], "p": res["p"], "e": res["e"], "iso": job[4], "uni": job[5]}
        if job[0] == "div" and job[1]["ep"] != "lowrank-host" and "harness_exc" not in res:
            op = div_struct_op(job[1], res)
        if op is not None:
            ops.append(op)
            idx.append(i)
    struct = [None] * len(jobs)
    if with_model:
        uniq = {}
        for op in ops:
            uniq.setdefault(json.dumps(op, sort_keys=True), op)
        blocks = model_counts(ctx, list(uniq.values()))
        table = dict(zip(uniq.keys(), blocks))
        for i, op in zip(idx, ops):
            b = table[json.dumps(op, sort_keys=True)]
            if b is None:
                continue
            if op["op"] == "lowrank":
                struct[i] = int([l for l in b if l.startswith("struct ")][0].split()[1])
            else:
                struct[i] = int(b[0])
    evaluate(ctx, jobs, results, struct)
    return results


def shape_ties(ctx, jobs, results):
    """tie of the hand shape models: instruction structure of the real circuits / dispatch of the real recursion"""
    seen = set()
    for job, res in zip(jobs, results):
        if job[0] == "unitary" and "tokens" in res:
            _, n, dec, iso, a2, _ = job
            k = (dec, n, iso)
            if k not in seen:
                seen.add(k)
                ctx.tie({"op": "shape", "dec": dec, "n": n, "iso": iso}, res["tokens"])
                ctx.count("shape:" + dec)
        elif job[0] == "isometry" and "tokens" in res and not job[5]:
            _, n, m, scheme, _, _ = job
            if m < n and ("ccd", n, m) not in seen:       # m = n: qiskit simplifies multiplexers (the stated exception)
                seen.add(("ccd", n, m))
                ctx.tie({"op": "ccdshape", "n": n, "m": m}, res["tokens"])
                ctx.count("shape:ccd")
        elif job[0] == "lowrank" and job[4] != "knill" and "e" in res and "est" in res and "cx" in res:
            _, n, part, lr, iso, uni, _ = job
            k = ("lr", n, res["p"], res["e"], iso, uni)
            if k in seen:
                continue
            seen.add(k)
            impl = ["est %d" % res["est"]]
            impl += sorted("leaf %s %d" % (t, v) for t, v in res["est_leaves"])
            impl += sorted("enc %s" % t for t, _, _ in res["enc"])
            ctx.tie({"op": "lowrank", "n": n, "p": res["p"], "e": res["e"], "iso": iso, "uni": uni}, impl)
            ctx.count("shape:lowrank")


def compare(op, impl, model):
    if op.get("op") == "lowrank":
        m = [l for l in model if l.startswith("est ")]
        leaves = [l for l in model if l.startswith("leaf ")]
        m += sorted(leaves)
        m += sorted("enc " + " ".join(l.split()[1:-1]) for l in leaves)
        model = m
    if list(impl) == list(model):
        return None
    for i, (a, b) in enumerate(zip(impl, model)):
        if a != b:
            return f"line {i}: impl={a!r} model={b!r}"
    return f"length {len(impl)} vs {len(model)}: impl tail {impl[len(model):][:3]} model tail {model[len(impl):][:3]}"


def cost_ties(ctx):
    jobs = [("prim", kind, k, 1000 * k + 7) for kind, rng in PRIM_RANGE.items() for k in rng]
    for job, res in zip(jobs, run_jobs(jobs)):
        if "harness_exc" in res:
            raise RuntimeError(res["harness_exc"])
        _, kind, k, _ = job
        ctx.assumption_checks += 1
        if kind == "a2":
            ctx.tie({"op": "a2", "vis": k, "inl": 0}, [str(res["cx"])], label=f"_apply_a2 on {k} blocks")
        else:
            ctx.tie({"op": "cost", "prim": kind, "k": k}, [str(res["cx"])], label=f"transpile cost of {kind} k={k}")


KNOWN_PROBE = ("lowrank", 6, None, 0, "ccd", "qsd")


def probe_known(ctx):
    """The known low-rank finding is data dependent (sign of a determinant): probe fixed seeds so it is reported
    on every run."""
    jobs = [KNOWN_PROBE + (s,) for s in (600, 601, 602, 603, 604, 605)]
    return jobs


# --------------------------------------------------------------------------------------------------
# input-diversity pass: case lists and evaluation (main process)
# --------------------------------------------------------------------------------------------------

DIV_UNITARY_VARIANTS = [
    ("haar", "F", "element-type"), ("haar", "view", "element-type"), ("haar", "list", "element-type"),
    ("haar", "tuple", "element-type"), ("haar", "npscalars", "element-type"), ("haar", "c64", "element-type"),
    ("phase-1", "nd", "phase"), ("phase-i", "nd", "phase"), ("unit-phases", "nd", "phase"),
    ("int-perm", "int64", "structured"), ("int-perm", "int-list", "structured"), ("real-orth", "f64", "structured"),
    ("real-orth", "cz0", "structured"), ("real-orth", "negzero", "structured"), ("diag-pm", "f64", "structured"),
]
DIV_ISOMETRY_2D_VARIANTS = [
    ("haar", "F", "element-type"), ("haar", "view", "element-type"), ("haar", "list", "element-type"), ("haar", "c64", "element-type"),
    ("phase-1", "nd", "phase"), ("phase-i", "nd", "phase"), ("unit-phases", "nd", "phase"),
    ("int-perm", "int64", "structured"), ("real-orth", "f64", "structured"), ("real-orth", "cz0", "structured"),
    ("real-orth", "negzero", "structured"),
]
DIV_ISOMETRY_VEC_VARIANTS = [       # (kind, form, family, shape)
    ("gauss", "nd", "element-type", "1d"), ("gauss", "view", "element-type", "1d"), ("gauss", "list", "element-type", "1d"),
    ("gauss", "tuple", "element-type", "1d"), ("gauss", "npscalars", "element-type", "1d"), ("gauss", "c64", "element-type", "1d"),
    ("phase-1", "nd", "phase", "1d"), ("phase-i", "nd", "phase", "1d"), ("unit-phases", "nd", "phase", "1d"),
    ("eqmod", "nd", "scale", "1d"), ("headtail-start-3", "nd", "scale", "1d"), ("headtail-end-2.5", "nd", "scale", "1d"),
    ("headtail-mixed-3", "nd", "scale", "1d"), ("headtail-end-5", "nd", "scale", "1d"),
    ("int-basis", "int64", "structured", "1d"), ("int-basis", "f32", "structured", "1d"), ("real", "f64", "structured", "1d"),
    ("real", "cz0", "structured", "1d"), ("real", "negzero", "structured", "1d"), ("neg-real", "f64", "structured", "1d"),
    ("imag", "nd", "structured", "1d"), ("uniform", "f64", "structured", "1d"), ("sparse", "f64", "structured", "1d"),
    ("one-subtree", "nd", "structured", "1d"),
    ("gauss", "col", "element-type", "col"), ("gauss", "col-view", "element-type", "col"), ("gauss", "col-c64", "element-type", "col"),
    ("phase-i", "col", "phase", "col"), ("eqmod", "col", "scale", "col"), ("headtail-mixed-2.5", "col", "scale", "col"),
    ("headtail-mixed-6", "col", "scale", "col"),
    ("int-basis", "int64", "structured", "col"), ("real", "f64", "structured", "col"),
]
DIV_LOWRANK_VARIANTS = [
    ("gauss", "nd", "element-type"), ("gauss", "col", "element-type"), ("gauss", "col-view", "element-type"),
    ("gauss", "list", "element-type"), ("gauss", "tuple", "element-type"), ("gauss", "npscalars", "element-type"),
    ("gauss", "c64", "element-type"), ("gauss", "col-c64", "element-type"), ("gauss", "view", "element-type"),
    ("phase-1", "nd", "phase"), ("phase-i", "list", "phase"), ("unit-phases", "nd", "phase"),
    ("eqmod", "nd", "scale"), ("eqmod", "list", "scale"), ("headtail-start-3", "nd", "scale"), ("headtail-end-2.5", "nd", "scale"),
    ("headtail-mixed-3", "list", "scale"), ("headtail-mixed-2.5", "col", "scale"), ("headtail-end-5", "nd", "scale"),
    ("headtail-mixed-6", "list", "scale"),
    ("int-basis", "int-list", "structured"), ("int-basis", "int64", "structured"), ("int-basis", "f32", "structured"),
    ("real", "f64", "structured"), ("real", "f64-list", "structured"), ("real", "cz0", "structured"), ("real", "negzero", "structured"),
    ("real", "negzero-list", "structured"), ("neg-real", "f64", "structured"), ("imag", "nd", "structured"),
    ("uniform", "f64", "structured"), ("sparse", "f64", "structured"), ("one-subtree", "nd", "structured"),
]
DIV_PFORMS = ("list", "tuple", "reversed", "rotated-tuple", "npints")


class _DivList:
    def __init__(self, ctx):
        self.ctx, self.jobs, self.k = ctx, [], 0

    def add(self, **spec):
        spec["seed"] = self.ctx.rng.getrandbits(30)
        spec["rot"] = self.k           # which call form carries method='exact' / which constructor form builds the circuit
        self.k += 1
        self.jobs.append(("div", spec))


def div_unitary_cases(ctx, out):
    for n in (1, 2, 3, 4):
        k = 0
        for dec in ("qsd", "csd"):
            for a2 in (True, False):
                for iso in range(0, n + 1):
                    if n >= 3 and not in_scope_unitary(dec, iso, a2):
                        continue
                    variants = DIV_UNITARY_VARIANTS if n <= 3 else [DIV_UNITARY_VARIANTS[(2 * k + j) % len(DIV_UNITARY_VARIANTS)] for j in (0, 1)]
                    k += 1
                    for kind, form, fam in variants:
                        out.add(ep="unitary", n=n, dec=dec, iso=iso, a2=a2, kind=kind, form=form, fam=fam)


def div_isometry_cases(ctx, out):
    for n in (1, 2, 3, 4):
        k = 0
        for scheme in ("ccd", "csd", "knill"):
            if n == 4 and scheme == "knill":
                continue
            for m in range(0, n + 1):
                v2 = [(a, b, c, "2d") for a, b, c in DIV_ISOMETRY_2D_VARIANTS]
                variants = (DIV_ISOMETRY_VEC_VARIANTS if m == 0 else []) + (v2 if m >= 1 else [])
                if n == 4:
                    variants = [variants[(3 * k + j) % len(variants)] for j in (0, 1, 2)]
                k += 1
                for kind, form, fam, shape in variants:
                    out.add(ep="isometry", n=n, m=m, scheme=scheme, shape=shape, kind=kind, form=form, fam=fam)


def div_lowrank_cases(ctx, out):
    rng = ctx.rng
    # A: element types / phase / scale / structured x n = 1..5 (+ a few n = 6), default rank and partition
    for n in (1, 2, 3, 4, 5, 6):
        for i, (kind, form, fam) in enumerate(DIV_LOWRANK_VARIANTS):
            if n == 6 and (kind, form) not in (("gauss", "col"), ("gauss", "list"), ("eqmod", "nd"), ("headtail-mixed-2.5", "col"), ("real", "f64")):
                continue
            pairs = (("ccd", "qsd"), ("csd", "csd")) if n <= 4 else ((("ccd", "qsd"), ("csd", "csd"))[i % 2],)
            for iso, uni in pairs:
                out.add(ep="lowrank", n=n, iso=iso, uni=uni, kind=kind, form=form, fam=fam)
    # B: prescribed Schmidt spectra across a cut, generic Schmidt vectors (estimate must follow the rank the construction uses)
    for n, parts in ((3, ([0], [1])), (4, ([0, 1], [1, 3], [2])), (5, ([0, 1], [0, 2, 3])), (6, ([0, 1, 2], [1, 4]))):
        for part in parts:
            for tag in DIV_SPECTRA:
                for iso, uni in (("ccd", "qsd"), ("csd", "csd")):
                    out.add(ep="lowrank", n=n, part=list(part), iso=iso, uni=uni, kind="schmidt:" + tag, form=("nd", "list", "col")[out.k % 3],
                            fam="scale", record=True, pform=DIV_PFORMS[out.k % len(DIV_PFORMS)])
    # C: option / call forms at n = 3..6: every option alone, all non-default, lr on both sides of each power of two (and out
    #    of range: documented to be ignored), every partition size in every container form
    for n in (3, 4, 5, 6):
        maxp = n // 2 + n % 2
        maxr = 2 ** (n // 2)
        sets = [{}]
        for j, lr in enumerate(sorted(x for x in (-1, 1, 2, 3, 4, 5, 7, 8, 9) if x <= maxr + 1)):
            sets.append({"lr": lr, "lrform": ("int", "np.int64")[j % 2]})
        sets += [{"iso": "csd"}, {"uni": "csd"}, {"svd": "regular"}]
        if n <= 4:
            sets.append({"iso": "knill", "part": [0]})
            sets.append({"iso": "knill", "uni": "csd", "lr": 1, "part": [n - 1]})
        if n >= 4:
            sets.append({"svd": "randomized", "lr": 2})
        for size in range(1, maxp + 1):
            part = sorted(rng.sample(range(n), size))
            mr = 2 ** min(size, n - size)
            sets.append({"part": part})
            for lr in sorted({max(1, mr // 2), mr // 2 + 1, mr, mr + 1}):
                sets.append({"part": sorted(rng.sample(range(n), size)), "lr": lr, "iso": "csd", "uni": "csd", "svd": "regular",
                             "lrform": ("int", "np.int64")[lr % 2]})
                if lr < mr:
                    sets.append({"part": sorted(rng.sample(range(n), size)), "lr": lr, "uni": "csd"})
        for j, s in enumerate(sets):
            out.add(ep="lowrank", n=n, kind="gauss", form=("nd", "list", "col", "tuple")[j % 4], fam="call-form", record=True,
                    pform=DIV_PFORMS[j % len(DIV_PFORMS)], **s)
    # D: object / host forms
    for n in (2, 3, 4, 5):
        out.add(ep="lowrank-host", n=n, kind="gauss", form="nd", fam="call-form")


def div_flagform_cases(ctx, out):
    """apply_a2 True and False as bool / numpy.bool_ / int 1, 0; iso = 0 (valid, falsy: "not an isometry"), the middle and n as int /
    numpy.int64 / int32 - every call form of cnot_count (positional, keyword, shuffled keywords, defaults, the private estimate)
    and of unitary() (they rotate with the case counter), at n = 2 (no recursion: size <= 4) and n = 3, 4 (recursive); low_rank = 0
    handed over EXPLICITLY as int and numpy integers next to 1 and the top of the range, for lowrank.cnot_count and
    LowRankInitialize.  Same oracle (estimate in every call form == canonical estimate == transpiled circuit) + circuit count ==
    count of the circuit built with the canonical value; the tie op carries the canonical value."""
    a2forms, isoforms = ("bool", "np.bool_", "int"), ("int", "np.int64", "np.int32")
    k = ctx.rng.randrange(6)
    for n in (2, 3, 4):
        for dec in ("qsd", "csd"):
            for a2 in (True, False):
                for iso in sorted({0, n // 2, n}):
                    if n >= 3 and not in_scope_unitary(dec, iso, a2):
                        continue
                    for j in range(3 if n <= 3 else 2):
                        k += 1
                        a2f, isof = a2forms[k % 3], isoforms[(k // 3) % 3]
                        if n == 4 and a2f == "bool" and isof == "int":
                            a2f = "np.bool_"
                        out.add(ep="unitary", n=n, dec=dec, iso=iso, a2=a2, kind="haar", form=("nd", "F", "list")[(k + j) % 3], fam="flagforms",
                                a2form=a2f, isoform=isof)
    for n in (3, 4, 5):
        top = 2 ** (n // 2)
        for lr in sorted({0, 1, top}):
            for j, lrf in enumerate(("int", "np.int64", "np.int32", "np.uint8")):
                k += 1
                s = {"lr": lr, "lrform": lrf, "flagform": True}
                if (k + j) % 2:
                    s["part"] = [0] if k % 4 == 1 else [0, n - 1][: max(1, n // 2)]      # qubit 0 only / both ends
                out.add(ep="lowrank", n=n, kind="gauss", form=("nd", "list", "tuple")[k % 3], fam="flagforms", record=True,
                        pform=DIV_PFORMS[k % len(DIV_PFORMS)], iso=("ccd", "csd")[k % 2], uni=("qsd", "csd")[(k // 2) % 2], **s)


def diversity_cases(ctx):
    out = _DivList(ctx)
    div_unitary_cases(ctx, out)
    div_isometry_cases(ctx, out)
    div_lowrank_cases(ctx, out)
    div_flagform_cases(ctx, out)
    return out.jobs


def div_key(spec):
    ep = spec["ep"]
    if ep == "unitary":
        o = f"unitary.cnot_count:{spec['dec']}:n={spec['n']}:iso={spec['iso']}:a2={int(spec['a2'])}"
        if spec.get("isoform") or spec.get("a2form"):
            o += f":forms=iso/{spec.get('isoform') or 'int'},apply_a2/{spec.get('a2form') or 'bool'}"
    elif ep == "isometry":
        o = f"isometry.cnot_count:{spec['scheme']}:n={spec['n']}:m={spec['m']}:{spec.get('shape', '2d')}"
    elif ep == "lowrank":
        part = spec.get("part")
        ptxt = "default" if part is None else "-".join(map(str, part)) + "(" + spec.get("pform", "list") + ")"
        o = (f"lowrank.cnot_count:n={spec['n']}:partition={ptxt}:lr={spec.get('lr', 0)}({spec.get('lrform', 'int')}):"
             f"iso={spec.get('iso', 'ccd')}:uni={spec.get('uni', 'qsd')}:svd={spec.get('svd', 'auto')}")
    else:
        o = f"LowRankInitialize-host:n={spec['n']}"
    return f"diversity:{o}:{spec['kind']}:{spec['form']}"


def div_allowed(spec, site, text):
    """`text` = 'EXC <Type>: <message>' raised at `site` (est | exact | ctor).  Returns a tag when this is a documented
    rejection or the clean refusal of a form the library does not claim, else None (= failure)."""
    ep, form = spec["ep"], spec["form"]
    typ = text[4:].split(":")[0]
    if form in DIV_LISTLIKE and typ in ("AttributeError", "TypeError") and (ep == "isometry" or (ep == "unitary" and site == "est")):
        return "unsupported-form-raises-" + typ      # ndarray-typed functions (.shape / .astype); unitary() itself accepts lists
    if site != "est" and form in DIV_C64:
        # complex64 values ARE a slightly non-normalised input: the validation messages of unitary() / decompose() /
        # Initialize / UnitaryGate are accepted, and so is qiskit's two-qubit Weyl decomposition giving up on the 4x4 block
        # isometry.decompose(state_2q, 'csd') extends such a state to (robustness of decompose, not a CNOT-count claim)
        if typ == "ValueError" and ("unitary" in text.lower() or "non orthonormal" in text or "amplitudes-squared" in text):
            return "reduced-precision-rejected-ValueError"
        if typ == "QiskitError" and "TwoQubitWeylDecomposition" in text:
            return "reduced-precision-rejected-QiskitError(TwoQubitWeylDecomposition)"
        if typ == "TranspilerError" and "unable to synthesize" in text:
            return "reduced-precision-rejected-in-definition(TranspilerError)"      # Initialize's norm check, raised inside .definition
    if site != "est" and div_class(spec) == "structured" and typ == "QiskitError" and "TwoQubitWeylDecomposition" in text:
        # real / structured blocks: qiskit's Weyl decomposition sporadically fails to diagonalise (about 1 real orthogonal 8x8 in
        # 300); outside general position, same family as the A.2 fallback listed in UNREACHED_JUSTIFIED
        return "outside-equality:qiskit-TwoQubitWeylDecomposition-gave-up"
    if ep == "isometry" and site != "est" and spec["scheme"] == "knill" and spec["n"] < 2 and typ == "ValueError" and "Knill" in text:
        return "knill-one-qubit-rejected-ValueError"
    if ep == "lowrank" and site == "ctor" and form in ("col", "col-view", "col-c64") and typ in ("TypeError", "ValueError"):
        return "unsupported-form-raises-" + typ      # LowRankInitialize documents "list of complex", not a (2^n, 1) column
    return None


def div_struct_op(spec, res):
    """driver op of the (shape, option) tuple of a class-(i) case (None: not modelled / not claimed)"""
    if div_class(spec) != "generic" or "skipped" in res:
        return None
    ep = spec["ep"]
    if ep == "unitary":
        return {"op": "unitary", "dec": spec["dec"], "n": spec["n"], "iso": spec["iso"], "a2": spec["a2"]}
    if ep == "isometry" and spec["scheme"] != "knill":
        return {"op": "isometry", "scheme": spec["scheme"], "n": spec["n"], "m": spec["m"]}
    if ep == "lowrank" and spec.get("iso", "ccd") != "knill" and "e" in res:
        return {"op": "lowrank", "n": spec["n"], "p": res["p"], "e": res["e"], "iso": spec.get("iso", "ccd"), "uni": spec.get("uni", "qsd")}
    return None


def evaluate_div(ctx, job, res, st):
    spec = job[1]
    key, rep, ep, cls = div_key(spec), replay_of(job), spec["ep"], div_class(spec)
    ctx.count(f"diversity:{ep}:{spec['fam']}")
    ctx.count(f"diversity:{ep}:{spec['fam']}:{spec['kind'].split(':')[0]}/{spec['form']}")
    if ep == "lowrank-host":
        for name, want, got in res["host"]:
            ctx.count("diversity:lowrank-host:" + name)
            if got == want:
                ctx.ok(f"{key}:{name}", True, None)
            else:
                ctx.fail(f"{key}:{name}:expected={want}:observed={got}", "CNOT count of the circuit built through this object / host form "
                         "differs from lowrank.cnot_count for the same options", dict(rep, observed=res))
        return
    if "skipped" in res:
        ctx.count("diversity:skipped:near-rank-cut")
        return
    n = spec["n"]
    obs = dict(rep, observed={k: v for k, v in res.items() if k not in ("enc", "est_leaves")})
    failed = False

    def fail(k, detail):
        nonlocal failed
        failed = True
        ctx.fail(k, detail, obs)

    def site_value(site, v, label):
        """None when the site raised (allowed outcomes are counted, others fail)"""
        if not isinstance(v, str):
            return v
        tag = div_allowed(spec, site, v)
        if tag:
            ctx.count(f"diversity:{ep}:{spec['form']}:{tag}")
        else:
            fail(f"{key}:{label}-raises", v)
        return None

    if not res.get("input_unchanged", True):
        fail(f"{key}:caller-input-mutated", "the array / list / partition handed in was modified by the library")
    est_ref = res["est_ref"]
    if isinstance(est_ref, str):
        fail(f"{key}:estimate-raises:ndarray-reference", est_ref)
        return
    ests = {}
    for call, v in res["est"].items():
        v = site_value("est", v, "estimate:call=" + call)
        if v is not None:
            ests[call] = v
            ctx.count(f"diversity:{ep}:call-form:estimate:{call}")
    cx = site_value("ctor", res["cx"], "synthesis:ctor=" + res["ctor_call"])
    if cx is None:
        if not isinstance(res.get("cx_ref", "EXC"), str):
            cx = res["cx_ref"]      # the form was refused by the constructor: count for the same values as complex128 ndarray
    else:
        ctx.count(f"diversity:{ep}:call-form:constructor:{res['ctor_call']}")
    exact = site_value("exact", res["exact"], "exact-method:call=" + res["exact_call"]) if "exact" in res else None
    # every call form and every container / dtype of the same values gives the same estimate (both classes)
    for call, v in ests.items():
        if v != est_ref:
            fail(f"{key}:call={call}:estimate={v}:ndarray-positional={est_ref}", "the estimate depends on the call form / on the "
                 "container or dtype of the same values")
    if failed:
        return
    est = est_ref
    if "cx_canon" in res and cx is not None and not isinstance(res["cx_canon"], str) and cx != res["cx_canon"]:
        fail(f"{key}:circuit={cx}:circuit-of-canonical-options={res['cx_canon']}", "the circuit synthesised with apply_a2 / iso in this "
             "form has another CNOT count than the circuit synthesised with the canonical bool / int of the same value")
        return
    for opt_, f_ in (("apply_a2", spec.get("a2form")), ("iso", spec.get("isoform")), ("low_rank", spec.get("lrform") if spec.get("flagform") else None)):
        if f_:
            val_ = {"apply_a2": spec.get("a2"), "iso": spec.get("iso"), "low_rank": spec.get("lr", 0)}[opt_]
            ctx.count(f"flagforms:{opt_}:{f_}")
            ctx.count(f"flagforms:{opt_}:{f_}:{val_}")
    nontrivial = n >= (3 if ep == "unitary" else 2)
    sample = {"call": key, "estimate": est, "circuit_cx": cx, "structural": st, "calls": sorted(ests)}
    if cls == "structured":
        ctx.count(f"diversity:{ep}:outside-equality")
        if cx is not None:
            ctx.count("diversity:outside-equality:estimate" + ("==" if est == cx else ">" if est > cx else "<") + "circuit")
        if exact is not None and cx is not None and exact != cx:
            ctx.count("diversity:outside-equality:exact-method!=circuit")
        shape_only = ep == "unitary" or (ep == "isometry" and spec["scheme"] != "knill")
        if shape_only and est != res["est_generic"]:
            fail(f"{key}:estimate={est}:generic-same-shape={res['est_generic']}", "the estimate of a structured / real input differs "
                 "from the estimate of a generic input of the same shape and options (it is a function of shape and options only)")
        elif ep == "isometry" and spec["scheme"] == "ccd" and spec["m"] == n and cx is not None and est < cx:
            fail(f"{key}:upper-bound-violated:diff={est - cx:+d}", f"estimate {est} < circuit {cx}")
        elif not failed:
            ctx.ok(key, nontrivial, sample)
        return
    # class (i): generic complex values
    if not ests:        # the estimate refused this (unclaimed) form in every call form; nothing to compare
        ctx.ok(key + ":form-refused", False, None)
        return
    if exact is not None and cx is not None:
        if exact != cx:
            fail(f"{key}:exact-method={exact}:circuit={cx}", "cnot_count(..., method='exact') differs from the transpiled count of "
                 "the circuit built for the same input")
        else:
            ctx.ok(key + ":exact-method", nontrivial, None)
    if cx is None:      # Knill on one qubit: synthesis documented not to work, estimate takes its no-cx branch
        ctx.ok(key + ":no-circuit", False, None)
        return
    if ep == "unitary":
        if st is not None and cx != st:
            ctx.fail(f"{key}:circuit={cx}:structural={st}", "transpiled circuit differs from the structural count", obs, kind="assumption")
        elif not in_scope_unitary(spec["dec"], spec["iso"], spec["a2"]):
            ctx.count("out-of-scope-option-combination")
        elif est != cx:
            fail(f"{key}:diff={est - cx:+d}", f"estimate {est} != circuit {cx} (structural {st})")
        elif not failed:
            ctx.ok(key, nontrivial, sample)
    elif ep == "isometry":
        full_ccd = spec["scheme"] == "ccd" and spec["m"] == n
        if st is not None and ((cx != st) if not full_ccd else (cx > st)):
            ctx.fail(f"{key}:circuit={cx}:structural={st}", "transpiled circuit differs from the structural count", obs, kind="assumption")
        elif full_ccd and est < cx:
            fail(f"{key}:upper-bound-violated:diff={est - cx:+d}", f"estimate {est} < circuit {cx}")
        elif not full_ccd and est != cx:
            fail(f"{key}:diff={est - cx:+d}", f"estimate {est} != circuit {cx} (structural {st})")
        elif not failed:
            ctx.ok(key, nontrivial, sample)
    else:
        if "rank" in res:
            ctx.count("diversity:lowrank:rank=%d-of-%d" % (res["rank"], 2 ** min(res["p"], n - res["p"])))
        if est == cx or ("enc" in res and "rank" in res):
            if failed:
                return
            pseudo = ("lowrank", n, spec.get("part"), spec.get("lr", 0), spec.get("iso", "ccd"), spec.get("uni", "qsd"), spec["seed"])
            eval_lowrank(ctx, pseudo, dict(res, est=est, cx=cx, rank=res.get("rank", 0)), st, key, obs, nontrivial)
        else:
            fail(f"{key}:diff={est - cx:+d}", f"estimate {est} != circuit {cx}")


def diversity_ties(ctx, jobs, results):
    """the (shape, option) tuples of the class-(i) diversity cases, tied to the driver: count of the REAL circuit built from
    the diverse input vs structural count of the model; low-rank: estimate, estimate leaves and construction dispatch."""
    seen = set()
    for job, res in zip(jobs, results):
        if job[0] != "div" or job[1]["ep"] == "lowrank-host" or "harness_exc" in res:
            continue
        spec = job[1]
        op = div_struct_op(spec, res)
        if op is None or isinstance(res.get("cx"), str):
            continue
        if op["op"] == "unitary":
            impl = [str(res["cx"])]
        elif op["op"] == "isometry":
            if spec["scheme"] == "ccd" and spec["m"] == spec["n"]:
                continue        # stated exception: upper bound only
            impl = [str(res["cx"])]
        else:
            if "enc" not in res or isinstance(res["est"].get("pos"), str):
                continue
            impl = ["est %d" % res["est"]["pos"]] + sorted("leaf %s %d" % (t, v) for t, v in res["est_leaves"]) \
                + sorted("enc %s" % t for t, _, _ in res["enc"])
        k = json.dumps(op, sort_keys=True) + "|" + "|".join(impl)
        if k in seen:
            continue
        seen.add(k)
        ctx.tie(op, impl, label="diversity " + div_key(spec)[:160])
        ctx.count("diversity:tie:" + op["op"])


def knill_smallphase_matrix(n, m, tiny, mode, seed):
    """Columns of W diag(e^{i phi}) W^dagger, W Haar (generic eigenvectors), with eigenphases of size `tiny`: all of them /
    two of them among generic ones / a single one next to exact ones."""
    import numpy as np
    dim = 2 ** n
    w = haar(dim, seed)
    ph = np.random.default_rng(seed).uniform(0.5, 2.5, dim)
    if mode == "all":
        ph = tiny * np.array([1, -2, 0.5, 3, 1, 1, 2, -1] * (dim // 8 + 1))[:dim]
    elif mode == "mixed":
        ph[:2] = [tiny, -2 * tiny]
    else:
        ph = np.zeros(dim)
        ph[-1] = tiny
    return (w @ np.diag(np.exp(1j * ph)) @ w.conj().T)[:, : 2 ** m]


def knill_smallphase_probe(ctx):
    """Knill's estimate must count exactly the eigenvectors the synthesis spends gates on: eigenphases just above the code's own
    1e-7 cut (3e-7 .. 8e-6, far below any default isclose / allclose tolerance) with generic eigenvectors.  In-process, n = 2, 3."""
    from qclib.isometry import decompose, cnot_count
    cases = [(n, m, tiny, mode) for n in ((2, 3) if ctx.quick else (2, 3, 4)) for m in (n, n - 1) for tiny in (3e-7, 3e-6, 8e-6)
             for mode in ("all", "mixed", "one")]
    if ctx.quick:
        cases = [c for i, c in enumerate(cases) if c[0] == 2 or i % 3 == ctx.rng.randrange(3)]
    for n, m, tiny, mode in cases:
        seed = ctx.rng.getrandbits(30)
        key = f"isometry.cnot_count:knill:small-eigenphase:n={n}:m={m}:phase={tiny:g}:{mode}"
        rep = {"call": "qclib.isometry.cnot_count(V, 'knill', 'estimate') vs cx count of decompose(V, 'knill')", "n": n, "m": m,
               "tiny": tiny, "mode": mode, "seed": seed, "how": "V = tools/props/c10.py knill_smallphase_matrix(n, m, tiny, mode, seed)"}
        ctx.count(f"boundary:knill-eigenphase-vs-1e-7:{tiny:g}:{mode}")
        try:
            v = knill_smallphase_matrix(n, m, tiny, mode, seed)
            est = int(cnot_count(v.copy(), "knill", "estimate"))
            cx = cx_count(decompose(v.copy(), "knill"))
        except Exception as e:  # noqa: BLE001
            ctx.fail(key + ":raises", f"{type(e).__name__}: {str(e)[:200]}", rep)
            continue
        if est != cx:
            ctx.fail(key + f":diff={est - cx:+d}", f"estimate {est} != circuit {cx}", dict(rep, estimate=est, circuit=cx))
        else:
            ctx.ok(key, nontrivial=True, sample={"estimate": est, "circuit_cx": cx})


def knill_repeated_eigenvalue_probe(ctx):
    """Knill's estimate and Knill's synthesis must use the SAME eigenbasis: unitaries with a repeated eigenvalue other than 1,
    where different orthonormal bases of the eigenspace have different Schmidt rank (LAPACK's eig returns entangled combinations
    where the Schur form returns product vectors).  Exact structured inputs; estimate == circuit holds for them on the code
    as it is."""
    import functools
    import math
    import numpy as np
    from qclib.isometry import decompose, cnot_count
    X = np.array([[0, 1], [1, 0]], dtype=complex)
    Y = np.array([[0, -1j], [1j, 0]])
    Z = np.diag([1, -1]).astype(complex)
    I2 = np.eye(2, dtype=complex)
    H = np.array([[1, 1], [1, -1]], dtype=complex) / math.sqrt(2)
    k = lambda *m: functools.reduce(np.kron, m)     # noqa: E731
    cases = {"e^0.3i X(x)Z": np.exp(0.3j) * k(X, Z), "e^i Y(x)Z": np.exp(1j) * k(Y, Z),
             "(H(x)I)diag(i,-1,-1,i)(H(x)I)": k(H, I2) @ np.diag([1j, -1, -1, 1j]) @ k(H, I2),
             "e^0.3i I(x)X(x)Z": np.exp(0.3j) * k(I2, X, Z), "e^0.3i X(x)X(x)Z": np.exp(0.3j) * k(X, X, Z)}
    for name, u in cases.items():
        n = int(round(math.log2(len(u))))
        for m in (n, n - 1):
            key = f"isometry.cnot_count:knill:repeated-eigenvalue:n={n}:m={m}:{name}"
            rep = {"call": "qclib.isometry.cnot_count(V, 'knill', 'estimate') vs cx count of decompose(V, 'knill')", "n": n, "m": m,
                   "matrix": name, "how": "V = first 2^m columns of the named matrix (tools/props/c10.py knill_repeated_eigenvalue_probe)"}
            ctx.count("boundary:knill-repeated-eigenvalue")
            try:
                v = u[:, : 2 ** m]
                est = int(cnot_count(v.copy(), "knill", "estimate"))
                cx = cx_count(decompose(v.copy(), "knill"))
            except Exception as e:  # noqa: BLE001
                ctx.fail(key + ":raises", f"{type(e).__name__}: {str(e)[:200]}", rep)
                continue
            if est != cx:
                ctx.fail(key + f":diff={est - cx:+d}", f"estimate {est} != circuit {cx}", dict(rep, estimate=est, circuit=cx))
            else:
                ctx.ok(key, nontrivial=True, sample={"estimate": est, "circuit_cx": cx})


def lowrank_svd_option_probe(ctx):
    """The `svd` option must reach the estimate the same way it reaches the synthesis: product states across the default
    partition (Schmidt rank 1) with a requested rank 2 - the randomized SVD keeps rank 2, the regular one trims to rank 1, so
    the two routines cost differently (7 / 14 / 21 against 2 / 5 / 8 CNOTs at n = 4 / 5 / 6) and a dropped option shows."""
    import numpy as np
    from qclib.state_preparation import LowRankInitialize
    from qclib.state_preparation.lowrank import cnot_count
    g = ctx.nprng()
    for n in ((4, 5) if ctx.quick else (4, 5, 6)):
        k = (n + 1) // 2
        a = g.normal(size=2 ** k) + 1j * g.normal(size=2 ** k)
        b = g.normal(size=2 ** (n - k)) + 1j * g.normal(size=2 ** (n - k))
        v = np.kron(a, b)
        v = v / np.linalg.norm(v)
        for svd in ("randomized", "regular", "auto"):
            key = f"lowrank.cnot_count:svd-option:n={n}:lr=2:svd={svd}:product-state"
            rep = {"call": f"lowrank.cnot_count(v, low_rank=2, svd='{svd}') vs cx count of LowRankInitialize(v, {{'lr': 2, 'svd': '{svd}'}})",
                   "n": n, "svd": svd, "re": [float(x) for x in v.real], "im": [float(x) for x in v.imag], "svdprobe": True}
            ctx.count(f"boundary:lowrank-svd-option:{svd}")
            try:
                est = int(cnot_count(list(v), low_rank=2, svd=svd))
                cx = cx_count(LowRankInitialize(list(v), opt_params={"lr": 2, "svd": svd}).definition)
            except Exception as e:  # noqa: BLE001
                ctx.fail(key + ":raises", f"{type(e).__name__}: {str(e)[:200]}", rep)
                continue
            if est != cx:
                ctx.fail(key + f":diff={est - cx:+d}", f"estimate {est} != circuit {cx}", dict(rep, estimate=est, circuit=cx))
            else:
                ctx.ok(key, nontrivial=True, sample={"estimate": est, "circuit_cx": cx})


def run(ctx):
    quick = ctx.quick
    gen_ties(ctx, big=not quick)
    lowrank_svd_option_probe(ctx)
    knill_smallphase_probe(ctx)
    knill_repeated_eigenvalue_probe(ctx)
    cost_ties(ctx)
    jobs = []
    jobs += unitary_cases(ctx, 6 if quick else 7, 5 if quick else 6)
    jobs += isometry_cases(ctx, 5 if quick else 6, 3 if quick else 4, None if quick else 7)
    jobs += lowrank_cases(ctx, 4 if quick else 5, 8 if quick else 9, 4 if quick else 5)
    jobs += probe_known(ctx)
    jobs += boundary_cases(ctx)
    jobs += diversity_cases(ctx)
    results = oracle(ctx, jobs)
    shape_ties(ctx, jobs, results)
    diversity_ties(ctx, jobs, results)
    ctx.notes.append("scope: (qsd, apply_a2=False, iso>0) and (csd, iso>0) are not option combinations the property speaks of; "
                     "they are synthesised and their shape is tied, but estimate != circuit there is only counted "
                     "(branch_histogram 'out-of-scope:estimate!=circuit')")
    ctx.notes.append("input forms (diversity:*): generic values in other containers / dtypes / layouts / phases / scales must give "
                     "estimate == circuit; excluded as legitimately different: amplitude tails below ~1e-4 (qiskit snaps two-qubit blocks within "
                     "fidelity 1-1e-9 onto cheaper classes), exactly repeated Schmidt coefficients (non-unique SVD), Schmidt coefficients "
                     "inside (3.3e-8, 3e-7) around the 1e-7 rank cut, real / integer / basis inputs (counted as outside-equality)")
    ctx.notes.append("general position: Haar-random unitaries / complex Gaussian states only; structured inputs change qiskit's "
                     "multiplexer simplification and two-qubit synthesis and are outside the property")


def search(ctx, hints):
    """A proof / translation / tie is red: look for a failing input of the property itself on the real code
    (estimate vs transpiled circuit), no model needed."""
    jobs = []
    for h in hints:
        op = h.get("op", {})
        if op.get("op") == "gen":
            continue
        if op.get("op") == "shape":
            jobs.append(("unitary", op["n"], op["dec"], op["iso"], True, ctx.rng.getrandbits(30)))
        if op.get("op") == "ccdshape":
            jobs.append(("isometry", op["n"], op["m"], "ccd", ctx.rng.getrandbits(30), False))
    knill_smallphase_probe(ctx)
    knill_repeated_eigenvalue_probe(ctx)
    jobs += unitary_cases(ctx, 6, 5)
    jobs += isometry_cases(ctx, 6, 3)
    jobs += lowrank_cases(ctx, 4, 8, 4)
    jobs += diversity_cases(ctx)
    oracle(ctx, jobs, with_model=False)


def replay(ctx, payload):
    r = payload["replay"]
    if r.get("svdprobe"):                   # lowrank_svd_option_probe case (re-run on the stored state)
        import numpy as np
        from qclib.state_preparation import LowRankInitialize
        from qclib.state_preparation.lowrank import cnot_count
        v = np.array(r["re"]) + 1j * np.array(r["im"])
        est = int(cnot_count(list(v), low_rank=2, svd=r["svd"]))
        cx = cx_count(LowRankInitialize(list(v), opt_params={"lr": 2, "svd": r["svd"]}).definition)
        key = f"lowrank.cnot_count:svd-option:n={r['n']}:lr=2:svd={r['svd']}:product-state"
        if est != cx:
            ctx.fail(key + f":diff={est - cx:+d}", f"estimate {est} != circuit {cx}", r)
        else:
            ctx.ok(key, nontrivial=True)
        return
    if "matrix" in r and "job" not in r:    # knill_repeated_eigenvalue_probe case (fixed inputs: the whole probe is re-run)
        knill_repeated_eigenvalue_probe(ctx)
        return
    if "tiny" in r and "mode" in r:         # knill_smallphase_probe case
        from qclib.isometry import decompose, cnot_count
        v = knill_smallphase_matrix(r["n"], r["m"], r["tiny"], r["mode"], r["seed"])
        est, cx = int(cnot_count(v.copy(), "knill", "estimate")), cx_count(decompose(v.copy(), "knill"))
        key = f"isometry.cnot_count:knill:small-eigenphase:n={r['n']}:m={r['m']}:phase={r['tiny']:g}:{r['mode']}"
        if est != cx:
            ctx.fail(key + f":diff={est - cx:+d}", f"estimate {est} != circuit {cx}", r)
        else:
            ctx.ok(key, nontrivial=True)
        return
    oracle(ctx, [tuple(payload["replay"]["job"])])      # ("div", spec) jobs: the spec dict survives the JSON round trip
