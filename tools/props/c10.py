"""C10 — CNOT-cost estimates match the circuits actually synthesised
(qclib/unitary.py, qclib/isometry.py, qclib/state_preparation/lowrank.py)."""
import itertools
import json
import os
import sys
import types

CLAIMED = True
TECHNIQUE = ("estimate functions re-translated from the Python source on every run (tools/py2lean.py) + Lean 4 proofs by "
             "induction that the generated closed forms / recurrences equal a structural count defined on the recursion shape of "
             "the synthesis; shape, cost-table and translator ties; transpile-count oracle")
LEVEL_TEXT = ("Proved in Lean for ALL sizes, about the definitions generated from the current Python source: the QSD closed form "
              "(with and without A.2; the ceiling is exact because the numerator is 48 x count), the CSD closed form, the "
              "_cnot_count_iso recurrence with A.2 for every iso>=1, the column-by-column double loop for every (n, m), and the "
              "low-rank phase-by-phase sum for every n, partition size, rank and scheme (ccd/csd x qsd/csd) each equal the structural "
              "count cnotsOf of the modelled circuit shape; _a/_b/_k_s are shift, remainder and bit. Tied each run: every generated "
              "function vs its Python original on an exhaustive small range (closed forms to n=26); the shape models vs the "
              "instruction structure of the real circuits (build_unitary, _ccd) and the dispatch of the real low-rank recursion; the "
              "per-object CNOT cost table and the effect of _apply_a2 vs transpile. Tested only: transpiled CNOT count of the real "
              "circuits vs estimate vs structural count on Haar-random inputs (unitary n<=6 quick / 7 thorough, isometry n<=5 / 7, "
              "low-rank n<=8 / 9, all partitions for n<=4 / 5), the Knill scheme, and the m=n column-by-column upper bound.")
LEVEL_NOTE = ("Trusted: Lean kernel; tools/py2lean.py (kept honest by the second tie); qiskit's transpile/UCGate/UCRZ/UCRY/"
              "DiagonalGate/_apply_a2/two-qubit synthesis cost table (validated numerically each run, generic inputs); numpy SVD rank "
              "of generic inputs; the hand shape models agree with the code beyond the explored sizes by uniformity of the recursion.")
LEAN_TARGETS = ["QclibModel.Props.C10"]
THEOREMS = ["Qclib.C10_qsd", "Qclib.C10_csd", "Qclib.C10_iso", "Qclib.C10_ccd", "Qclib.C10_lowrank", "Qclib.C10_bits"]
TRUSTED = [
    "tools/py2lean.py translation of unitary._cnot_count_estimate/_cnot_count_iso/_cnot_count_iso_qsd, isometry._a/_b/_k_s/"
    "_cnot_count_estimate_ccd, lowrank._default_partition, entanglement._to_qubits (differentially tied each run)",
    "qiskit cost table: generic 2-qubit block 3 CX (2 up to diagonal under _apply_a2, last block 3), UCRZ/UCRY 2^k, "
    "UCGate 2^k-1 (+DiagonalGate 2^(k+1)-2), DiagonalGate 2^m-2, qclib ucr(CZ, no last) 2^k-1 (validated by transpile each run)",
    "inputs in general position: full Schmidt rank of generic vectors, no multiplexer simplification for m<n",
    "float evaluation of int(ceil(23/48*4^n - 3/2*2^n + 4/3)) equals the exact rational ceiling (tied for n<=26)",
]
ASSUMPTIONS = ["general position (Haar-random complex inputs); Knill scheme and the m=n column-by-column upper bound are tested, not proved"]
RULE = ("tie: (function, argument tuple) for the generated functions; (decomposition, n, iso) / (n, m) / (n, p, e, schemes) for "
        "shapes; (object, k) for costs.  oracle: distinct (call, options, size) on which estimate, transpiled circuit and structural "
        "count were compared; non-trivial = at least 3 qubits (2 for isometries/state preparation)")
DRIVER = "Drivers/C10.lean"

import framework  # noqa: E402

GEN_FILE = os.path.join(framework.LEAN, "QclibModel", "Gen", "CnotCount.lean")
SOURCES = ["qclib/unitary.py", "qclib/isometry.py", "qclib/state_preparation/lowrank.py", "qclib/entanglement.py"]


# --------------------------------------------------------------------------------------------------
# translator hook
# --------------------------------------------------------------------------------------------------

def generate(ctx):
    import py2lean
    py2lean.ensure_prelude(framework.LEAN)

    def tr(rel, names, ns, **h):
        return py2lean.translate_functions(os.path.join(framework.REPO, rel), names, "Qclib.Gen.CnotCount." + ns,
                                           relpath=rel, **h)
    blocks = [
        tr("qclib/unitary.py", ["_cnot_count_estimate", "_cnot_count_iso", "_cnot_count_iso_qsd"], "unitary",
           views={"_cnot_count_estimate": {"gate.shape[0]": "gate_rows"}},
           termination={"_cnot_count_iso": "2 * (n_qubits - 2).toNat",
                        "_cnot_count_iso_qsd": "2 * (n_qubits - 3).toNat + 1"}),
        tr("qclib/isometry.py", ["_a", "_b", "_k_s", "_cnot_count_estimate_ccd"], "isometry"),
        tr("qclib/state_preparation/lowrank.py", ["_default_partition"], "lowrank"),
        tr("qclib/entanglement.py", ["_to_qubits"], "entanglement"),
    ]
    text = py2lean.write_module(GEN_FILE, blocks, SOURCES)
    return {"file": os.path.relpath(GEN_FILE, framework.VERIF), "functions": 9, "bytes": len(text)}


# --------------------------------------------------------------------------------------------------
# worker side (runs in a process pool; everything here touches the REAL code)
# --------------------------------------------------------------------------------------------------

def cx_count(circ):
    from qiskit import transpile
    t = transpile(circ, basis_gates=["u", "cx"], optimization_level=0)
    return int(t.count_ops().get("cx", 0))


def haar(dim, seed):
    from scipy.stats import unitary_group
    import numpy as np
    if dim == 1:
        return np.array([[np.exp(1j * (seed % 7))]])
    return unitary_group.rvs(dim, random_state=seed % (2 ** 31))


def rand_state(dim, seed):
    import numpy as np
    r = np.random.default_rng(seed)
    v = r.normal(size=dim) + 1j * r.normal(size=dim)
    return v / np.linalg.norm(v)


def walk(circ, out):
    """Entangling structure of a circuit: library objects by name, runs of cx / cz collapsed, one-qubit
    gates dropped, anonymous composites entered."""
    for inst in circ.data:
        op = inst.operation
        nm = op.name
        nq = len(inst.qubits)
        if nm == "qsd2q":
            out.append("qsd2q")
        elif nm == "unitary":
            if nq >= 2:
                out.append("u%d" % nq)
        elif nm in ("ucrz", "ucry"):
            out.append("%s %d" % (nm, nq - 1))
        elif nm.startswith("multiplexer"):
            utd = getattr(op, "up_to_diagonal", None)
            if utd is None:
                utd = not any(i.operation.name.startswith("diagonal") for i in op.definition.data)
            if nq > 1:
                out.append("%s %d" % ("ucd" if utd else "uc", nq - 1))
        elif nm.startswith("diagonal"):
            out.append("diag %d" % nq)
        elif nm in ("cx", "cz"):
            if out and out[-1].split()[0] == nm:
                out[-1] = "%s %d" % (nm, int(out[-1].split()[1]) + 1)
            else:
                out.append(nm + " 1")
        elif nq == 1 or nm in ("barrier",):
            pass
        elif op.definition is not None:
            walk(op.definition, out)
        else:
            out.append("?" + nm)
    return out


def _exc(e):
    return "%s: %s" % (type(e).__name__, str(e)[:160])


EXACT_NMAX_UNITARY = 4
EXACT_NMAX_ISOMETRY = 3
EXACT_NMAX_LOWRANK = 4

UNREACHED_JUSTIFIED = {
    "qclib/unitary.py:_qrd,_build_qr_circuit,_build_qr_gate_sequence,_get_row_col,_row_and_col_qubits,_apply_mcxs,_undo_mcxs,_apply_cx,"
    "_append_mcmt_gate,build_unitary:104->105": "'qr' decomposition has no estimate and is not an option combination of C10 (C02 covers it)",
    "qclib/unitary.py:40->45,46->47": "validation raises on invalid input (C16)",
    "qclib/unitary.py:53-57": "A.2 fallback on QiskitError: degenerate two-qubit blocks only, not general position (C02 probes it)",
    "qclib/unitary.py:212->214,_closest_unitary": "degenerate eigenvalues of gate1 @ gate2^dagger: structured input, outside general position (C02)",
    "qclib/isometry.py:74->75,78->79,82->83,84->85": "validation raises on invalid input (C16)",
    "qclib/isometry.py:301->315": "zero column pair in Lemma 2: only for structured isometries (exact zeros), outside general position (C03)",
}


def job_unitary(n, dec, iso, a2, seed):
    from qclib.unitary import unitary, build_unitary, cnot_count
    u = haar(2 ** n, seed)
    res = {}
    try:
        res["est"] = int(cnot_count(u, dec, "estimate", iso, a2))
    except Exception as e:  # noqa: BLE001
        res["est_exc"] = _exc(e)
    try:
        res["cx"] = cx_count(unitary(u.copy(), dec, iso, a2))
    except Exception as e:  # noqa: BLE001
        res["cx_exc"] = _exc(e)
    if n <= EXACT_NMAX_UNITARY:     # the library's own method='exact' (transpile inside cnot_count; 'return 0' when no cx at n=1)
        try:
            res["exact"] = int(cnot_count(u.copy(), dec, "exact", iso, a2))
        except Exception as e:  # noqa: BLE001
            res["exact_exc"] = _exc(e)
    if a2:      # the shape is that of the circuit before _apply_a2 flattens it
        try:
            res["tokens"] = walk(build_unitary(u.copy(), dec, iso), [])
        except Exception as e:  # noqa: BLE001
            res["tokens"] = ["EXC " + _exc(e)]
    return res


def job_isometry(n, m, scheme, seed, vec1d=False):
    import numpy as np
    from qclib.isometry import decompose, cnot_count
    v = haar(2 ** n, seed)[:, : 2 ** m]
    if vec1d:
        v = np.ascontiguousarray(v[:, 0])
    res = {}
    try:
        res["est"] = int(cnot_count(v.copy(), scheme, "estimate"))
    except Exception as e:  # noqa: BLE001
        res["est_exc"] = _exc(e)
    if n <= EXACT_NMAX_ISOMETRY:
        try:
            res["exact"] = int(cnot_count(v.copy(), scheme, "exact"))
        except Exception as e:  # noqa: BLE001
            res["exact_exc"] = _exc(e)
    try:
        circ = decompose(v.copy(), scheme)
        res["cx"] = cx_count(circ)
        if scheme == "ccd":
            res["tokens"] = walk(circ, [])[::-1]
    except Exception as e:  # noqa: BLE001
        res["cx_exc"] = _exc(e)
    return res


def job_lowrank(n, partition, lr, iso, uni, seed):
    """estimate, transpiled count, the rank the real Schmidt decomposition produced, and the leaves of both
    recursions (recorded by wrapping the functions lowrank.py dispatches to; behaviour unchanged)."""
    import numpy as np
    import qclib.state_preparation.lowrank as lrmod
    from qclib.entanglement import schmidt_decomposition, _to_qubits
    v = rand_state(2 ** n, seed)
    part = list(partition) if partition is not None else None
    res = {}
    enc, est_leaves = [], []
    orig = (lrmod.decompose_isometry, lrmod.decompose_unitary, lrmod.cnots_isometry, lrmod.cnots_unitary)

    def lg(x):
        return int(round(np.log2(x)))

    def w_dec_iso(data, scheme="ccd"):
        c = orig[0](data, scheme=scheme)
        enc.append(["iso %s %d %d" % (scheme, lg(data.shape[0]), lg(data.shape[1])),
                    bool(np.abs(np.imag(data)).max() < 1e-12), cx_count(c)])
        return c

    def w_dec_uni(data, decomposition="qsd"):
        c = orig[1](data, decomposition=decomposition)
        enc.append(["uni %s %d" % (decomposition, lg(data.shape[0])),
                    bool(np.abs(np.imag(data)).max() < 1e-12), cx_count(c)])
        return c

    def w_est_iso(data, scheme="ccd", method="estimate"):
        r = orig[2](data, scheme=scheme, method=method)
        est_leaves.append(["iso %s %d %d" % (scheme, lg(data.shape[0]), lg(data.shape[1])), int(r)])
        return r

    def w_est_uni(data, decomposition="qsd", method="estimate"):
        r = orig[3](data, decomposition=decomposition, method=method)
        est_leaves.append(["uni %s %d" % (decomposition, lg(data.shape[0])), int(r)])
        return r

    lrmod.decompose_isometry, lrmod.decompose_unitary = w_dec_iso, w_dec_uni
    lrmod.cnots_isometry, lrmod.cnots_unitary = w_est_iso, w_est_uni
    try:
        try:
            res["est"] = int(lrmod.cnot_count(v.copy(), low_rank=lr, isometry_scheme=iso, unitary_scheme=uni,
                                              partition=None if part is None else list(part)))
        except Exception as e:  # noqa: BLE001
            res["est_exc"] = _exc(e)
        try:
            opt = {"lr": lr, "iso_scheme": iso, "unitary_scheme": uni, "partition": None if part is None else list(part)}
            form = (seed % 4) if (iso, uni) == ("ccd", "qsd") else 0
            if form:        # default schemes: leave the keys out (lowrank.py __init__ fills them in)
                opt = {"lr": lr, "partition": opt["partition"]}
            if form == 2:
                g = lrmod.LowRankInitialize(v.copy(), label="psi", opt_params=opt)
                res["cx"] = cx_count(g.definition)
            elif form == 3:   # static entry point, qubits=None / explicit list
                from qiskit import QuantumCircuit
                host = QuantumCircuit(n)
                lrmod.LowRankInitialize.initialize(host, v.copy(), qubits=None if (seed // 4) % 2 else list(range(n)), opt_params=opt)
                res["cx"] = cx_count(host)
            else:
                g = lrmod.LowRankInitialize(v.copy(), opt_params=opt)
                res["cx"] = cx_count(g.definition)
            res["form"] = form
        except Exception as e:  # noqa: BLE001
            res["cx_exc"] = _exc(e)
    finally:
        lrmod.decompose_isometry, lrmod.decompose_unitary, lrmod.cnots_isometry, lrmod.cnots_unitary = orig
    if n <= EXACT_NMAX_LOWRANK and iso != "knill":
        try:        # the library's own method='exact': leaves counted by transpile, summed phase by phase
            res["exact"] = int(lrmod.cnot_count(v.copy(), low_rank=lr, isometry_scheme=iso, unitary_scheme=uni,
                                                partition=None if part is None else list(part), method="exact"))
        except Exception as e:  # noqa: BLE001
            res["exact_exc"] = _exc(e)
    p = part if part is not None else lrmod._default_partition(n)
    rank = schmidt_decomposition(v.copy(), list(p), rank=lr)[0]
    res["p"] = len(p)
    res["rank"] = int(rank)
    res["e"] = int(_to_qubits(rank))
    res["enc"] = enc
    res["est_leaves"] = est_leaves
    return res


def job_prim(kind, k, seed):
    """K4 cost table: CNOTs transpile spends on one library object with generic parameters."""
    import numpy as np
    from qiskit import QuantumCircuit
    from qiskit.circuit.library import UCRZGate, UCRYGate, UCGate, DiagonalGate, UnitaryGate, RYGate, CZGate
    r = np.random.default_rng(seed)
    if kind in ("ucrz", "ucry"):
        g = (UCRZGate if kind == "ucrz" else UCRYGate)(list(r.uniform(-3, 3, size=2 ** k)))
        c = QuantumCircuit(k + 1)
        c.append(g, list(range(k + 1)))
    elif kind == "ucrCZ":
        from qclib.gates.ucr import ucr
        c = QuantumCircuit(k + 1)
        c.append(ucr(RYGate, list(r.uniform(-3, 3, size=2 ** k)), CZGate, False).to_instruction(), list(range(k + 1)))
    elif kind in ("ucg", "ucgd"):
        gates = [haar(2, int(r.integers(1 << 30))) for _ in range(2 ** k)]
        c = QuantumCircuit(k + 1)
        c.append(UCGate(gates, up_to_diagonal=(kind == "ucgd")), list(range(k + 1)))
    elif kind == "diag":
        c = QuantumCircuit(k)
        c.append(DiagonalGate(list(np.exp(1j * r.uniform(-3, 3, size=2 ** k)))), list(range(k)))
    elif kind == "u2":
        c = QuantumCircuit(2)
        c.append(UnitaryGate(haar(4, seed)), [0, 1])
    elif kind == "a2":          # k visible two-qubit blocks separated by 2-control UCRZ (4 CX each), through _apply_a2
        from qiskit.synthesis.unitary.qsd import _apply_a2
        c = QuantumCircuit(3)
        for j in range(k):
            sub = QuantumCircuit(2, name="qsd2q")
            sub.append(UnitaryGate(haar(4, seed + j)), [0, 1])
            c.append(sub.to_instruction(), [0, 1])
            if j < k - 1:
                c.append(UCRZGate(list(r.uniform(-3, 3, size=4))), [2, 0, 1])
        return {"cx": cx_count(_apply_a2(c)) - 4 * (k - 1)}
    else:
        raise ValueError(kind)
    return {"cx": cx_count(c)}


def run_job(job):
    sys.setrecursionlimit(10000)
    kind = job[0]
    try:
        if kind == "unitary":
            return job_unitary(*job[1:])
        if kind == "isometry":
            return job_isometry(*job[1:])
        if kind == "lowrank":
            return job_lowrank(*job[1:])
        if kind == "prim":
            return job_prim(*job[1:])
    except Exception as e:  # noqa: BLE001  (harness trouble must not look like a violation)
        import traceback
        return {"harness_exc": traceback.format_exc()[-1500:]}
    return {"harness_exc": "unknown job " + repr(job)}


def run_jobs(jobs, workers=None):
    if not jobs:
        return []
    import multiprocessing as mp
    from concurrent.futures import ProcessPoolExecutor
    workers = workers or max(1, min(14, (os.cpu_count() or 2) - 1, len(jobs)))
    if workers == 1 or len(jobs) < 4:
        return [run_job(j) for j in jobs]
    os.environ.setdefault("OMP_NUM_THREADS", "1")
    os.environ["OMP_NUM_THREADS"] = "1"
    os.environ["OPENBLAS_NUM_THREADS"] = "1"
    os.environ["RAYON_NUM_THREADS"] = "1"
    # heaviest first so the pool drains evenly
    order = sorted(range(len(jobs)), key=lambda i: -job_weight(jobs[i]))
    with ProcessPoolExecutor(max_workers=workers, mp_context=mp.get_context("spawn")) as ex:
        res = list(ex.map(run_job, [jobs[i] for i in order], chunksize=1))
    out = [None] * len(jobs)
    for i, r in zip(order, res):
        out[i] = r
    return out


def job_weight(job):
    if job[0] == "unitary":
        return 4 ** job[1] * (2 if job[2] == "csd" else 1)
    if job[0] == "isometry":
        return 4 ** job[1] * (8 if job[3] == "knill" else 1)
    if job[0] == "lowrank":
        return 2 ** job[1] * (64 if job[4] == "knill" else 1)
    return 1


# --------------------------------------------------------------------------------------------------
# second tie of the translator: generated function vs Python original, exhaustive small range
# --------------------------------------------------------------------------------------------------

def gen_ties(ctx, big=False):
    import qclib.unitary as qu
    import qclib.isometry as qi
    import qclib.state_preparation.lowrank as ql
    import qclib.entanglement as qe
    sys.setrecursionlimit(10000)

    def tie(fn, args, val, **extra):
        if isinstance(val, float):
            # e.g. 2 ** (n - 1) with n < 1: Python leaves the integers, outside the translated fragment
            ctx.count("gen:outside-fragment(float result)")
            return
        op = dict({"op": "gen", "fn": fn, "args": list(args)}, **extra)
        ctx.tie(op, [val if isinstance(val, str) else str(int(val))])
        ctx.count("gen:" + fn)

    # closed forms: up to 26 qubits (range where the float formula is claimed exact); recursions: n <= 9 (4^n calls)
    rows = [2 ** n for n in range(0, 27)] + [3, 5, 6, 7, 9, 12, 15, 17, 31, 33, 63, 65, 100]
    for r in rows:
        fake = types.SimpleNamespace(shape=(r, r))
        for dec in ("qsd", "csd"):
            for a2 in (True, False):
                tie("unitary._cnot_count_estimate", [r, 0], qu._cnot_count_estimate(fake, dec, 0, a2), dec=dec, a2=a2)
    nmax = 10 if big else 9
    for n in range(0, nmax + 1):
        fake = types.SimpleNamespace(shape=(2 ** n, 2 ** n))
        for iso in sorted({1, 2, 3, max(n - 2, 1), max(n - 1, 1), max(n, 1), n + 2}):
            for dec in ("qsd", "csd"):
                for a2 in (True, False):
                    tie("unitary._cnot_count_estimate", [2 ** n, iso], qu._cnot_count_estimate(fake, dec, iso, a2),
                        dec=dec, a2=a2)
    for n in range(-1, nmax + 1):
        for a2 in (True, False):
            tie("unitary._cnot_count_iso_qsd", [n], qu._cnot_count_iso_qsd(n, a2), a2=a2)
            for iso in range(-1, n + 3):
                tie("unitary._cnot_count_iso", [n, iso], qu._cnot_count_iso(n, iso, a2), a2=a2)
    for k in range(0, 70):
        for i in range(0, 8):
            tie("isometry._a", [k, i], qi._a(k, i))
            tie("isometry._b", [k, i], qi._b(k, i))
            tie("isometry._k_s", [k, i], qi._k_s(k, i))
    for n in range(0, (9 if big else 8) + 1):
        for m in range(0, n + 1 + (1 if n <= 5 else 0)):
            tie("isometry._cnot_count_estimate_ccd", [n, m], qi._cnot_count_estimate_ccd(n, m))
    for n in range(0, 24):
        tie("lowrank._default_partition", [n], "[" + " ".join(str(x) for x in ql._default_partition(n)) + "]")
    xs = list(range(-2, 1030)) + [2 ** j + d for j in range(11, 40) for d in (-1, 0, 1)]
    for x in xs:
        tie("entanglement._to_qubits", [x], qe._to_qubits(x))


# --------------------------------------------------------------------------------------------------
# case lists
# --------------------------------------------------------------------------------------------------

def in_scope_unitary(dec, iso, a2):
    """Option combinations the property speaks of: QSD and CSD on full unitaries, QSD with A.2 in isometry mode."""
    return iso == 0 or (dec == "qsd" and a2)


def unitary_cases(ctx, nmax, nfull):
    out = []
    for n in range(1, nmax + 1):
        for dec in ("qsd", "csd"):
            for a2 in (True, False):
                isos = range(0, n + 1) if n <= nfull else sorted({0, 1, n - 2, n})
                for iso in isos:
                    if n > nfull and not in_scope_unitary(dec, iso, a2):
                        continue
                    if n > nfull and dec == "csd" and not a2:
                        continue
                    out.append(("unitary", n, dec, iso, a2, ctx.rng.getrandbits(30)))
    return out


def isometry_cases(ctx, nmax, nknill, nbig=None):
    out = []
    for n in range(1, nmax + 1):
        for m in range(0, n + 1):
            for scheme in ("ccd", "csd") + (("knill",) if 2 <= n <= nknill else ()):
                out.append(("isometry", n, m, scheme, ctx.rng.getrandbits(30), False))
        for scheme in ("ccd", "csd") + (("knill",) if 2 <= n <= nknill else ()):
            out.append(("isometry", n, 0, scheme, ctx.rng.getrandbits(30), True))      # 1-D state vector input
    for m in (0, 1):        # Knill on one qubit: decompose raises (documented); the estimate takes its no-cx branch
        out.append(("isometry", 1, m, "knill", ctx.rng.getrandbits(30), False))
    if nbig:
        for m in sorted({0, 1, nbig // 2, nbig - 1}):
            for scheme in ("ccd", "csd"):
                out.append(("isometry", nbig, m, scheme, ctx.rng.getrandbits(30), False))
    return out


def rank_choices(maxr):
    if maxr <= 4:
        return list(range(0, maxr + 1))
    return sorted({0, 1, 2, 3, 4, 5, maxr // 2, maxr // 2 + 1, maxr - 1, maxr})


def lowrank_cases(ctx, nall, nmax, knill_n=4):
    out = []
    for n in range(1, nmax + 1):
        maxp = n // 2 + n % 2
        parts = [None]
        if n >= 2:
            for size in range(1, maxp + 1):
                subsets = list(itertools.combinations(range(n), size))
                if n <= nall:
                    parts += [list(s) for s in subsets]
                else:
                    parts.append(list(range(size)))
                    parts.append(sorted(ctx.rng.sample(range(n), size)))
        for part in parts:
            p = len(part) if part is not None else maxp
            maxr = 2 ** min(p, n - p) if n >= 2 else 1
            ranks = rank_choices(maxr)
            if n <= nall and part is not None and part != list(range(p)):
                ranks = sorted({0, 1, maxr // 2 + 1} & set(ranks)) or [0]      # all subsets: fewer ranks each
            for lr in ranks:
                for iso in ("ccd", "csd"):
                    for uni in ("qsd", "csd"):
                        out.append(("lowrank", n, part, lr, iso, uni, ctx.rng.getrandbits(30)))
        if 4 <= n <= knill_n:
            out.append(("lowrank", n, [0], 0, "knill", "qsd", ctx.rng.getrandbits(30)))
    return out


def boundary_cases(ctx):
    """Sizes next to thresholds that the regular grids leave out in the quick tier (everything else - n = 1/2/3 of the closed
    forms, every iso in 0..n for n <= 5, every (n, m) <= 5 incl. m = 0/1 and 1-D vectors, ranks maxr//2, maxr//2+1, maxr-1, maxr,
    every partition size - is already AT and one off the boundary in unitary_cases / isometry_cases / lowrank_cases, and the
    generated estimate functions are tied exhaustively around every comparison):
    * `n_qubits - 1 == 2` inside _cnot_count_iso is reached with iso still > 0 iff iso >= n - 2: iso = n-3 / n-2 / n-1 / n at n = 6;
    * lowrank.cnot_count -> schmidt_decomposition(svd='auto'): n = 13 / 14 / 15 with low_rank = 1 (default partition, above
      round(n/2.5)), a 6-qubit partition at n = 14 (at the bound) and low_rank = 2 at n = 14 - rank 1 keeps estimate and circuit
      cheap (two generic states of <= 8 qubits)."""
    out = []
    for iso in (3, 5):
        out.append(("unitary", 6, "qsd", iso, True, ctx.rng.getrandbits(30)))
        ctx.count(f"boundary:unitary:n=6:iso={iso}(n-3..n)")
    for n, part, lr in ((13, None, 1), (14, None, 1), (15, None, 1), (14, sorted(ctx.rng.sample(range(14), 6)), 1), (14, None, 2)):
        for iso, uni in (("ccd", "qsd"), ("csd", "csd")):
            out.append(("lowrank", n, part, lr, iso, uni, ctx.rng.getrandbits(30)))
            ctx.count(f"boundary:lowrank:svd-switch:n={n}:p={'default' if part is None else len(part)}:lr={lr}")
    return out


PRIM_RANGE = {"ucrz": range(1, 7), "ucry": range(1, 7), "ucrCZ": range(1, 7), "ucg": range(1, 6), "ucgd": range(1, 6),
              "diag": range(1, 8), "u2": range(0, 1), "a2": range(1, 5)}


# --------------------------------------------------------------------------------------------------
# evaluation
# --------------------------------------------------------------------------------------------------

def model_counts(ctx, ops):
    """Structural counts from the Lean model (None when the model is not built: the oracle then compares
    estimate and circuit only)."""
    if not ops:
        return []
    try:
        return framework.run_driver(ops, driver=DRIVER)
    except Exception as e:  # noqa: BLE001
        ctx.notes.append("structural counts unavailable (model not built?): " + str(e)[:200])
        return [None] * len(ops)


def key_of(job):
    k = job[0]
    if k == "unitary":
        _, n, dec, iso, a2, _ = job
        return f"unitary.cnot_count:{dec}:n={n}:iso={iso}:a2={int(a2)}"
    if k == "isometry":
        _, n, m, scheme, _, vec = job
        return f"isometry.cnot_count:{scheme}:n={n}:m={m}" + (":vector-1d" if vec else "")
    _, n, part, lr, iso, uni, _ = job
    ptxt = "default" if part is None else "-".join(map(str, part))
    return f"lowrank.cnot_count:n={n}:partition={ptxt}:lr={lr}:iso={iso}:uni={uni}"


def replay_of(job):
    return {"job": list(job), "how": "tools/props/c10.py run_job(job): Haar-random input from the seed (last-but-one field), "
                                     "cnot_count(..., method='estimate') vs transpile(circuit, ['u','cx'], 0).count_ops()['cx']"}


def evaluate(ctx, jobs, results, struct):
    for job, res, st in zip(jobs, results, struct):
        key = key_of(job)
        rep = replay_of(job)
        if "harness_exc" in res:
            raise RuntimeError("harness failure in %r: %s" % (job, res["harness_exc"]))
        kind = job[0]
        ctx.count(kind + ":" + (job[2] if kind == "unitary" else job[3] if kind == "isometry" else job[4]))
        if "est_exc" in res or "cx_exc" in res:
            # Knill is documented not to work on one qubit
            if kind == "isometry" and job[3] == "knill" and job[1] < 2:
                ctx.count("branch:knill-one-qubit:" + ("synthesis-rejects" if "cx_exc" in res else "synthesis-accepts")
                          + ("/estimate-raises" if "est_exc" in res else "/estimate=%s" % res.get("est")))
                continue
            which = "estimate-raises" if "est_exc" in res else "synthesis-raises"
            ctx.fail(f"{key}:{which}", res.get("est_exc") or res.get("cx_exc"), dict(rep, observed=res))
            continue
        est, cx = res["est"], res["cx"]
        if "exact_exc" in res:
            ctx.fail(f"{key}:exact-method-raises", res["exact_exc"], dict(rep, observed=res))
        elif "exact" in res:
            ctx.count("branch:method=exact:" + kind)
            if res["exact"] == 0:
                ctx.count("branch:method=exact:no-cx(return 0):" + kind)
            if res["exact"] != cx:
                ctx.fail(f"{key}:exact-method={res['exact']}:circuit={cx}", "cnot_count(..., method='exact') differs from the "
                         "transpiled count of the circuit built for the same input", dict(rep, observed=res))
            else:
                ctx.ok(key + ":exact-method", job[1] >= 2, None)
        if kind == "lowrank" and res.get("form"):
            ctx.count("branch:lowrank-entry-form:%d" % res["form"])
        nontrivial = job[1] >= (3 if kind == "unitary" else 2)
        sample = {"call": key, "estimate": est, "circuit_cx": cx, "structural": st}
        if kind == "unitary":
            _, n, dec, iso, a2, _ = job
            if st is not None and cx != st:
                ctx.fail(f"{key}:circuit={cx}:structural={st}", "transpiled circuit differs from the structural count "
                         "(cost table / shape assumption broken)", dict(rep, observed=res), kind="assumption")
                continue
            if not in_scope_unitary(dec, iso, a2):
                ctx.count("out-of-scope-option-combination")
                if est != cx:
                    ctx.count("out-of-scope:estimate!=circuit")
                continue
            if est != cx:
                ctx.fail(f"{key}:diff={est - cx:+d}", f"estimate {est} != circuit {cx} (structural {st})", dict(rep, observed=res))
            else:
                ctx.ok(key, nontrivial, sample)
        elif kind == "isometry":
            _, n, m, scheme, _, vec = job
            full_ccd = scheme == "ccd" and m == n and n >= 1
            if st is not None and scheme != "knill" and ((cx != st) if not full_ccd else (cx > st)):
                ctx.fail(f"{key}:circuit={cx}:structural={st}", "transpiled circuit differs from the structural count",
                         dict(rep, observed=res), kind="assumption")
                continue
            if full_ccd:
                ctx.count("ccd-full-unitary-upper-bound")
                if est < cx:
                    ctx.fail(f"{key}:upper-bound-violated:diff={est - cx:+d}", f"estimate {est} < circuit {cx}", dict(rep, observed=res))
                else:
                    ctx.ok(key, nontrivial, sample)
            elif est != cx:
                ctx.fail(f"{key}:diff={est - cx:+d}", f"estimate {est} != circuit {cx} (structural {st})", dict(rep, observed=res))
            else:
                ctx.ok(key, nontrivial, sample)
        else:
            eval_lowrank(ctx, job, res, st, key, rep, nontrivial)


def eval_lowrank(ctx, job, res, st, key, rep, nontrivial):
    _, n, part, lr, iso, uni, _ = job
    est, cx = res["est"], res["cx"]
    sample = {"call": key, "rank": res["rank"], "estimate": est, "circuit_cx": cx, "structural": st}
    if est == cx:
        if st is not None and st != cx:
            ctx.fail(f"{key}:circuit={cx}:structural={st}", "structural count differs", dict(rep, observed=res), kind="assumption")
        else:
            ctx.ok(key, nontrivial, sample)
        return
    # localise: estimate per leaf tag vs the transpiled count of each leaf the circuit really used
    est_by_tag = {}
    for tag, v in res["est_leaves"]:
        est_by_tag.setdefault(tag, v)
    explained, bad = 0, []
    for tag, is_real, lcx in res["enc"]:
        e = est_by_tag.get(tag)
        if e is None:
            bad.append((tag, "no estimate leaf"))
            continue
        d = e - lcx
        two_qubit = tag.split()[0] == "uni" and tag.split()[2] == "2" or tag.split()[0] == "iso" and tag.split()[2] == "2"
        if d == 0:
            continue
        if d == 1 and is_real and two_qubit:
            explained += 1
        else:
            bad.append((tag, is_real, e, lcx))
    p, rank = res["p"], res["rank"]
    base = f"lowrank.cnot_count:n={n}:p={p}:rank={rank}:iso={iso}:uni={uni}"
    if not bad and explained == est - cx and explained > 0:
        ctx.count("lowrank:real-singular-value-block")
        ctx.fail(f"{base}:+{explained}:real-singular-value-block",
                 f"estimate {est} = circuit {cx} + {explained}: the singular-value sub-vector is real, so its two-qubit "
                 f"block(s) are real orthogonal and qiskit synthesises them with 2 CNOTs; the estimate charges 3",
                 dict(rep, observed=res))
    else:
        ctx.fail(f"{key}:diff={est - cx:+d}", f"estimate {est} != circuit {cx}; unexplained leaves {bad}", dict(rep, observed=res))


def struct_op(job):
    k = job[0]
    if k == "unitary":
        _, n, dec, iso, a2, _ = job
        return {"op": "unitary", "dec": dec, "n": n, "iso": iso, "a2": a2}
    if k == "isometry":
        _, n, m, scheme, _, _ = job
        if scheme == "knill":
            return None
        return {"op": "isometry", "scheme": scheme, "n": n, "m": m}
    return None


def oracle(ctx, jobs, with_model=True):
    results = run_jobs(jobs)
    ops, idx = [], []
    for i, (job, res) in enumerate(zip(jobs, results)):
        op = struct_op(job)
        if job[0] == "lowrank" and job[4] != "knill" and "e" in res:
            op = {"op": "lowrank", "n": job[1], "p": res["p"], "e": res["e"], "iso": job[4], "uni": job[5]}
        if op is not None:
            ops.append(op)
            idx.append(i)
    struct = [None] * len(jobs)
    if with_model:
        uniq = {}
        for op in ops:
            uniq.setdefault(json.dumps(op, sort_keys=True), op)
        blocks = model_counts(ctx, list(uniq.values()))
        table = dict(zip(uniq.keys(), blocks))
        for i, op in zip(idx, ops):
            b = table[json.dumps(op, sort_keys=True)]
            if b is None:
                continue
            if op["op"] == "lowrank":
                struct[i] = int([l for l in b if l.startswith("struct ")][0].split()[1])
            else:
                struct[i] = int(b[0])
    evaluate(ctx, jobs, results, struct)
    return results


def shape_ties(ctx, jobs, results):
    """tie of the hand shape models: instruction structure of the real circuits / dispatch of the real recursion"""
    seen = set()
    for job, res in zip(jobs, results):
        if job[0] == "unitary" and "tokens" in res:
            _, n, dec, iso, a2, _ = job
            k = (dec, n, iso)
            if k not in seen:
                seen.add(k)
                ctx.tie({"op": "shape", "dec": dec, "n": n, "iso": iso}, res["tokens"])
                ctx.count("shape:" + dec)
        elif job[0] == "isometry" and "tokens" in res and not job[5]:
            _, n, m, scheme, _, _ = job
            if m < n and ("ccd", n, m) not in seen:       # m = n: qiskit simplifies multiplexers (the stated exception)
                seen.add(("ccd", n, m))
                ctx.tie({"op": "ccdshape", "n": n, "m": m}, res["tokens"])
                ctx.count("shape:ccd")
        elif job[0] == "lowrank" and job[4] != "knill" and "e" in res and "est" in res and "cx" in res:
            _, n, part, lr, iso, uni, _ = job
            k = ("lr", n, res["p"], res["e"], iso, uni)
            if k in seen:
                continue
            seen.add(k)
            impl = ["est %d" % res["est"]]
            impl += sorted("leaf %s %d" % (t, v) for t, v in res["est_leaves"])
            impl += sorted("enc %s" % t for t, _, _ in res["enc"])
            ctx.tie({"op": "lowrank", "n": n, "p": res["p"], "e": res["e"], "iso": iso, "uni": uni}, impl)
            ctx.count("shape:lowrank")


def compare(op, impl, model):
    if op.get("op") == "lowrank":
        m = [l for l in model if l.startswith("est ")]
        leaves = [l for l in model if l.startswith("leaf ")]
        m += sorted(leaves)
        m += sorted("enc " + " ".join(l.split()[1:-1]) for l in leaves)
        model = m
    if list(impl) == list(model):
        return None
    for i, (a, b) in enumerate(zip(impl, model)):
        if a != b:
            return f"line {i}: impl={a!r} model={b!r}"
    return f"length {len(impl)} vs {len(model)}: impl tail {impl[len(model):][:3]} model tail {model[len(impl):][:3]}"


def cost_ties(ctx):
    jobs = [("prim", kind, k, 1000 * k + 7) for kind, rng in PRIM_RANGE.items() for k in rng]
    for job, res in zip(jobs, run_jobs(jobs)):
        if "harness_exc" in res:
            raise RuntimeError(res["harness_exc"])
        _, kind, k, _ = job
        ctx.assumption_checks += 1
        if kind == "a2":
            ctx.tie({"op": "a2", "vis": k, "inl": 0}, [str(res["cx"])], label=f"_apply_a2 on {k} blocks")
        else:
            ctx.tie({"op": "cost", "prim": kind, "k": k}, [str(res["cx"])], label=f"transpile cost of {kind} k={k}")


KNOWN_PROBE = ("lowrank", 6, None, 0, "ccd", "qsd")


def probe_known(ctx):
    """The known low-rank finding is data dependent (sign of a determinant): probe fixed seeds so it is reported
    on every run."""
    jobs = [KNOWN_PROBE + (s,) for s in (600, 601, 602, 603, 604, 605)]
    return jobs


def run(ctx):
    quick = ctx.quick
    gen_ties(ctx, big=not quick)
    cost_ties(ctx)
    jobs = []
    jobs += unitary_cases(ctx, 6 if quick else 7, 5 if quick else 6)
    jobs += isometry_cases(ctx, 5 if quick else 6, 3 if quick else 4, None if quick else 7)
    jobs += lowrank_cases(ctx, 4 if quick else 5, 8 if quick else 9, 4 if quick else 5)
    jobs += probe_known(ctx)
    jobs += boundary_cases(ctx)
    results = oracle(ctx, jobs)
    shape_ties(ctx, jobs, results)
    ctx.notes.append("scope: (qsd, apply_a2=False, iso>0) and (csd, iso>0) are not option combinations the property speaks of; "
                     "they are synthesised and their shape is tied, but estimate != circuit there is only counted "
                     "(branch_histogram 'out-of-scope:estimate!=circuit')")
    ctx.notes.append("general position: Haar-random unitaries / complex Gaussian states only; structured inputs change qiskit's "
                     "multiplexer simplification and two-qubit synthesis and are outside the property")


def search(ctx, hints):
    """A proof / translation / tie is red: look for a failing input of the property itself on the real code
    (estimate vs transpiled circuit), no model needed."""
    jobs = []
    for h in hints:
        op = h.get("op", {})
        if op.get("op") == "gen":
            continue
        if op.get("op") == "shape":
            jobs.append(("unitary", op["n"], op["dec"], op["iso"], True, ctx.rng.getrandbits(30)))
        if op.get("op") == "ccdshape":
            jobs.append(("isometry", op["n"], op["m"], "ccd", ctx.rng.getrandbits(30), False))
    jobs += unitary_cases(ctx, 6, 5)
    jobs += isometry_cases(ctx, 6, 3)
    jobs += lowrank_cases(ctx, 4, 8, 4)
    oracle(ctx, jobs, with_model=False)


def replay(ctx, payload):
    oracle(ctx, [tuple(payload["replay"]["job"])])
