"""C12 — UCGInitialize / UCGEInitialize: |t> -> v for every target index t, earlier basis states
preserved (qclib/state_preparation/ucg.py, ucge.py)."""
import struct
import zlib
import numpy as np

CLAIMED = True
TECHNIQUE = ("Lean 4 proofs (ring identities with conjugation for the level operators, induction over the levels on "
             "amplitude vectors indexed by naturals, index arithmetic for r_gate / ctrl_state, list induction for the UCGE "
             "repetition search); per-level correspondence with the intermediates of the real classes; Operator oracle")
LEVEL_TEXT = ("Proved for the model, all n >= 1, all t < 2^n, over any field with conjugation (specifications of the pair norm "
              "and zero test hold in C): C12_level (the operator chosen for a sibling pair - identity, diagonal or branch, by the "
              "code's own zero tests - is unitary and sends the pair to norm*e_bit), C12_level_norms (parent norms telescope to 1), "
              "C12_column_t (the level loop, with or without the gate pulled out by preserve_previous, sends v to |t> exactly - the "
              "carried diagonals are absorbed, no global phase remains - given qiskit's specification Diag(d)*UCGate = multiplexer "
              "as hypothesis; any left inverse sends |t> to v; the children are those of the executable model), C12_preserve (with "
              "support on indices >= t every |j>, j < t, is mapped to itself times a unit phase), C12_preserve_ctrl (r_gate = "
              "t // 2^(q+1); the ctrl_state string on out_gate_ctrl holds exactly on the labels that agree with t off the target "
              "wire). PARTIAL: C12_ucge_simplify_partial (every control reported by _repetition_search is one along which the "
              "operator list is periodic, so the multiplexer does not read it; the re-indexing of the filtered list by the kept "
              "controls is tied, not proved) - superseded by the FULL C12_ucge_simplify / C12_ucge_simplify_level: for every list of "
              "length 2^m at tree_level m+1 <= n, size_required = m and new_mux[gather(ctrl_qc, k)] = mux[k] for every control value k "
              "(closed form of _repetition_search, rank lemma of the filtered list, periodicity), so the simplified gate acts as the "
              "original multiplexer on every label; also for the plan of every level of the model's loop. Tied per level to the real classes (bit_target, controls, operator kind and 2x2 "
              "entries, parents, r_gate, ctrl_state string and wires, dont_carry / kept indices / kept controls, the list handed "
              "to UCGate, children after _apply_diagonal incl. the UCGE spreading of the diagonal) for all t, n<=4 quick / <=5 "
              "thorough over nine vector families, and str_target/ctrl_state tables for all t, n<=6/8. The property itself is "
              "re-evaluated with qiskit's Operator (column t; columns < t under preserve) as failing-input search, n<=5/6.")
LEVEL_NOTE = ("Trusted: Lean kernel; qiskit UCGate(up_to_diagonal=True) and _get_diagonal() (specification Diag(d)*UCGate = "
              "multiplexer validated numerically on every tie case), .control(ctrl_state), circuit.inverse(), Operator; exact "
              "zero tests / np.allclose modelled as exact predicates; model-code agreement beyond the explored sizes.")
LEAN_TARGETS = ["QclibModel.Props.C12"]
THEOREMS = ["Qclib.C12_level", "Qclib.C12_level_norms", "Qclib.C12_column_t", "Qclib.C12_preserve",
            "Qclib.C12_preserve_ctrl", "Qclib.C12_ucge_simplify_partial", "Qclib.C12_ucge_simplify",
            "Qclib.C12_ucge_simplify_level"]
TRUSTED = [
    "qiskit UCGate(up_to_diagonal=True): Diag(_get_diagonal()) * circuit = block-diagonal multiplexer, target = first qubit, "
    "control j = bit j of the entry index (validated numerically on every tie case with more than one entry)",
    "qiskit QuantumCircuit.control(k, ctrl_state=str): last character of the string = first control qubit; circuit.inverse(); "
    "Operator",
    "float: `!= 0` and np.allclose(rtol 1e-5, atol 1e-8) are modelled as exact (in)equality in the theorems and as the same "
    "tests on IEEE doubles in the driver; generated inputs keep operator entries off the band (0.5x, 2x) of the allclose "
    "threshold; qiskit's UCGate._simplify merges entries within np.allclose as well, so inside the threshold the UCGate "
    "specification (and the prepared state, both classes) holds to ~1e-5 only (probe `*:col:allclose-merge:*`)",
]
ASSUMPTIONS = ["exact complex arithmetic in the theorems; implementation compared to 1e-9 (tie) and 1e-7 (oracle)"]
RULE = ("tie: (class, preserve, n, t, vector) whose per-level intermediates were diffed against the Lean model; oracle: "
        "(class, preserve, n, t, vector family) whose Operator column t (and columns < t) was compared with the ideal; "
        "non-trivial = n >= 2")
DRIVER = "Drivers/C12.lean"

FAMILIES = ("complex", "real", "zeros", "zeroblock", "basis", "supp", "suppz", "supp_t0", "product")


# ------------------------------------------------------------------------------------------------
# inputs
# ------------------------------------------------------------------------------------------------

def fbits(x):
    return struct.unpack("<Q", struct.pack("<d", float(x)))[0]


def fstr(x):
    return "f%d" % fbits(x)


def cstr(z):
    z = complex(z)
    return fstr(z.real) + " " + fstr(z.imag)


def mstr(m):
    m = np.asarray(m, dtype=complex)
    return " ".join(cstr(m[i, j]) for i in (0, 1) for j in (0, 1))


def product_state(r, n):
    """tensor product over a random set partition of the wires; factors positive / real / complex
    (positive factors make multiplexer entries repeat exactly: the UCGE simplification fires)."""
    wires = list(range(n))
    r.shuffle(wires)
    groups, i = [], 0
    while i < n:
        k = int(r.integers(1, n - i + 1)) if n - i > 1 else 1
        if len(groups) == 0 and k == n and n > 1:
            k = n - 1
        groups.append(sorted(wires[i:i + k]))
        i += k
    v = np.ones(2 ** n, dtype=complex)
    kinds = []
    for g in groups:
        kind = ["pos", "real", "complex"][int(r.integers(3))]
        kinds.append(kind)
        d = 2 ** len(g)
        if kind == "pos":
            s = r.uniform(0.3, 1.0, size=d)
        elif kind == "real":
            s = r.uniform(0.3, 1.0, size=d) * r.choice([-1.0, 1.0], size=d)
        else:
            s = r.uniform(0.3, 1.0, size=d) * np.exp(1j * r.uniform(0, 2 * np.pi, size=d))
        s = s / np.linalg.norm(s)
        for idx in range(2 ** n):
            k = sum(((idx >> q) & 1) << i for i, q in enumerate(g))
            v[idx] *= s[k]
    return v, {"groups": groups, "kinds": kinds}


def make_vector(r, n, t, fam):
    """amplitudes are either exactly 0 or of modulus >= ~1e-2 (no values near the `!= 0` test)."""
    N = 2 ** n
    info = {}

    def cplx():
        return r.uniform(0.2, 1.0, size=N) * np.exp(1j * r.uniform(0, 2 * np.pi, size=N))
    if fam == "complex":
        v = cplx()
    elif fam == "real":
        v = r.uniform(0.2, 1.0, size=N) * r.choice([-1.0, 1.0], size=N) + 0j
    elif fam == "zeros":
        v = cplx()
        v[r.random(N) < 0.45] = 0
    elif fam == "zeroblock":
        v = cplx()
        if n >= 2:
            w = 2 ** int(r.integers(1, n))
            b = int(r.integers(N // w)) * w
            v[b:b + w] = 0
        else:
            v[int(r.integers(2))] = 0
    elif fam == "basis":
        v = np.zeros(N, dtype=complex)
        j = [0, N - 1, t, int(r.integers(N))][int(r.integers(4))]
        v[j] = [1, -1, 1j, np.exp(1j * r.uniform(0, 6))][int(r.integers(4))]
    elif fam == "supp":
        v = cplx()
        v[:t] = 0
    elif fam == "suppz":
        v = cplx()
        v[r.random(N) < 0.4] = 0
        v[:t] = 0
    elif fam == "supp_t0":
        v = cplx()
        v[:t + 1] = 0
    elif fam == "product":
        v, info = product_state(r, n)
    else:
        raise ValueError(fam)
    if not np.any(v):
        v = np.zeros(N, dtype=complex)
        v[N - 1] = 1.0
    return v / np.linalg.norm(v), info


def get_class(name):
    from qclib.state_preparation.ucg import UCGInitialize
    from qclib.state_preparation.ucge import UCGEInitialize
    return UCGInitialize if name == "ucg" else UCGEInitialize


# ------------------------------------------------------------------------------------------------
# tracing the real class (add-only wrappers on the instance; /repo is not edited)
# ------------------------------------------------------------------------------------------------

def trace(cls_name, v, t, preserve):
    """Builds the gate with the real class, wrapping its helper methods on the instance; returns
    (gate, levels) where levels is the list of per-level records in processing order."""
    from qiskit import QuantumCircuit
    cls = get_class(cls_name)
    g = cls(np.array(v), opt_params={"target_state": int(t), "preserve_previous": bool(preserve)})
    levels = []
    tags = {}
    cur = {}

    o_branch, o_diag = g._get_branch_operator, g._get_diagonal_operator

    def branch(a0, a1, target="0"):
        m = o_branch(a0, a1, target)
        tags[id(m)] = ("branch", m)
        return m

    def diagop(a1, target):
        m = o_diag(a1, target)
        tags[id(m)] = ("diagonal", m)
        return m
    g._get_branch_operator, g._get_diagonal_operator = branch, diagop

    o_dq = g._disentangle_qubit

    def dq(children, parent, r_gate, tree_level):
        cur.clear()
        cur.update({"level": tree_level, "r_gate": r_gate, "parent": [complex(x) for x in parent]})
        bit, ucg = o_dq(children, parent, r_gate, tree_level)
        cur["bit"] = bit
        levels.append(dict(cur))
        return bit, ucg
    g._disentangle_qubit = dq

    o_bm = g._build_multiplexor

    def bm(parent, children, str_target):
        tags.clear()
        gates = o_bm(parent, children, str_target)
        cur["mux"] = [np.array(x, dtype=complex) for x in gates]
        cur["kinds"] = [tags[id(x)][0] if id(x) in tags and tags[id(x)][1] is x else "identity" for x in gates]
        cur["str_target"] = str_target
        return gates
    g._build_multiplexor = bm

    o_ct = g._get_ctrl_targ

    def ct(tree_level):
        c, tg = o_ct(tree_level)
        cur["controls"], cur["target"] = list(c), tg
        return c, tg
    g._get_ctrl_targ = ct

    if hasattr(g, "_simplify"):
        o_s = g._simplify

        def simp(mux, level):
            nc, new = o_s(mux, level)
            cur["dc"] = list(nc)
            cur["kept"] = [i for i, m in enumerate(mux) if any(m is x for x in new)]
            return nc, new
        g._simplify = simp

    o_pp = g._preserve_previous

    def pp(mux, mult_controls, r_gate, target):
        cur["pres_gate"] = np.array(mux[r_gate], dtype=complex)
        o_control = QuantumCircuit.control
        o_compose = g.circuit.compose

        def control(self, num_ctrl_qubits=1, label=None, ctrl_state=None, annotated=None):
            cur["ctrl_state"] = ctrl_state
            cur["num_ctrl"] = num_ctrl_qubits
            cur["pres_gate"] = np.array(self.data[0].operation.to_matrix(), dtype=complex)  # the gate really pulled out
            return o_control(self, num_ctrl_qubits, label, ctrl_state, annotated)

        def compose(other, qubits=None, *a, **k):
            cur["pres_wires"] = list(qubits)
            return o_compose(other, qubits, *a, **k)
        QuantumCircuit.control = control
        g.circuit.compose = compose
        try:
            return o_pp(mux, mult_controls, r_gate, target)
        finally:
            QuantumCircuit.control = o_control
            del g.circuit.compose
    g._preserve_previous = pp

    o_au = g._apply_ucg

    def au(mux, mult_controls, target):
        cur["ucgmux"] = [np.array(x, dtype=complex) for x in mux]
        cur["mc"] = list(mult_controls)
        return o_au(mux, mult_controls, target)
    g._apply_ucg = au

    o_ad = g._apply_diagonal

    def ad(bit_target, parent, ucg):
        d = np.array(ucg._get_diagonal(), dtype=complex)
        ch = o_ad(bit_target, parent, ucg)
        levels[-1]["diag"] = d
        levels[-1]["children"] = [complex(x) for x in np.atleast_1d(ch)]
        levels[-1]["ucg"] = ucg
        return ch
    g._apply_diagonal = ad

    _ = g.definition
    return g, levels


def impl_lines(cls_name, preserve, levels):
    out = []
    for lv in levels:
        L = lv["level"]
        out.append(f"lvl {L} {lv['target']} {lv['bit']} {' '.join(map(str, lv['controls']))} ;")
        for k, p in enumerate(lv["parent"]):
            out.append(f"par {L} {k} ; {cstr(p)}")
        for k, (kind, m) in enumerate(zip(lv["kinds"], lv["mux"])):
            out.append(f"op {L} {k} ; {kind} {mstr(m)}")
        if cls_name == "ucge":
            out.append(f"dc {L} {' '.join(map(str, lv['dc']))} ;")
            out.append(f"kept {L} {' '.join(map(str, lv['kept']))} ;")
            out.append(f"mc {L} {' '.join(map(str, lv['mc']))} ;")
        if preserve:
            if "pres_wires" in lv:
                out.append(f"pres {L} {lv['r_gate']} {lv['target']} {' '.join(map(str, lv['pres_wires'][:-1]))} ; "
                           f"s{lv['ctrl_state']} ok {mstr(lv['pres_gate'])}")
            else:  # the real code did not call _preserve_previous at this level: an observable difference
                out.append(f"pres {L} NOT-CALLED ;")
        for k, m in enumerate(lv["ucgmux"]):
            out.append(f"ucgmux {L} {k} ; {mstr(m)}")
        for k, c in enumerate(lv["children"]):
            out.append(f"ch {L} {k} ; {cstr(c)}")
    return out


def in_band(levels):
    """True if for two multiplexer entries of some level np.allclose is not clearly decided: the largest entrywise
    ratio |a - b| / (1e-8 + 1e-5 |b|) lies in (0.5, 2) (allclose holds iff that ratio is <= 1)."""
    for lv in levels:
        m = lv["mux"]
        for i in range(len(m)):
            for j in range(len(m)):
                if i == j:
                    continue
                ratio = float((np.abs(m[i] - m[j]) / (1e-8 + 1e-5 * np.abs(m[j]))).max())
                if 0.5 < ratio < 2.0:
                    return True
    return False


def merge_band(levels):
    """True if two DIFFERENT multiplexer entries of some level lie within (twice) the np.allclose threshold of each
    other: ucge._repetition_search / qiskit's UCGate._simplify then (may) merge them and the prepared state is
    legitimately off by up to ~1e-5 (known finding K-C12-1); the oracle tolerance is 1e-4 there."""
    for lv in levels:
        m = lv["mux"]
        for i in range(len(m)):
            for j in range(len(m)):
                if i != j:
                    diff = np.abs(m[i] - m[j])
                    if float(diff.max()) > 1e-10 and float((diff / (1e-8 + 1e-5 * np.abs(m[j]))).max()) < 2.0:
                        return True
    return False


def check_ucgate_spec(ctx, lv, tol=1e-9):
    """K4 assumption: Diag(d) * UCGate-circuit = block-diagonal multiplexer (target least significant)."""
    from qiskit import QuantumCircuit
    from qiskit.quantum_info import Operator
    mux = lv["ucgmux"]
    if len(mux) < 2:
        d = lv["diag"]
        ctx.assumption_checks += 1
        if np.abs(d - 1).max() > 1e-12:
            ctx.fail("assumption:ucgate-single-diagonal", f"diag of a one-entry UCGate is {d}", kind="assumption")
        return
    k = int(np.log2(len(mux))) + 1
    qc = QuantumCircuit(k)
    qc.append(lv["ucg"], list(range(k)))
    u = Operator(qc).data
    ideal = np.zeros((2 ** k, 2 ** k), dtype=complex)
    for i, m in enumerate(mux):
        ideal[2 * i:2 * i + 2, 2 * i:2 * i + 2] = m
    err = float(np.abs(np.diag(lv["diag"]) @ u - ideal).max())
    unit = float(np.abs(np.abs(lv["diag"]) - 1).max())
    ctx.assumption_checks += 1
    if err > tol or unit > 1e-9:
        ctx.fail("assumption:ucgate-diagonal-spec", f"|Diag(d) U - mux| = {err:.2e}, ||d|-1| = {unit:.2e}", kind="assumption")


# ------------------------------------------------------------------------------------------------
# one case: tie + oracle
# ------------------------------------------------------------------------------------------------

def vec_payload(v):
    return [[float(np.real(a)), float(np.imag(a))] for a in v]


def one_case(ctx, cls_name, n, t, preserve, fam, v, info=None, do_tie=True, do_oracle=True, key=None, tol=1e-7):
    from qiskit.quantum_info import Operator
    N = 2 ** n
    h = zlib.crc32(np.asarray(v, dtype=complex).tobytes()) & 0xffffff
    key = key or f"{cls_name}:col:{fam}:n={n}:t={t}:pres={int(preserve)}:{h:x}"
    rep = {"call": f"{cls_name}", "n": n, "t": t, "preserve": bool(preserve), "family": fam, "vector": vec_payload(v),
           "info": info or {}}
    ctx.count(f"{cls_name}:{fam}:pres={int(preserve)}")
    try:
        g, levels = trace(cls_name, v, t, preserve)
    except Exception as e:  # raised by qclib/qiskit while building the definition of a valid input
        if cls_name == "ucge" and preserve:
            ctx.count("ucge+preserve raises (outside the property)")
            if not any("UCGEInitialize with preserve_previous" in s for s in ctx.notes):
                ctx.notes.append("UCGEInitialize with preserve_previous=True raises %s when _simplify shortened the multiplexer "
                                 "(mux[r_gate] / ctrl_state use the unsimplified sizes); the property states preserve for the "
                                 "plain class only, so this is recorded, not failed. Example: n=%d t=%d family=%s"
                                 % (type(e).__name__, n, t, fam))
            return
        ctx.fail(f"{cls_name}:exception:{type(e).__name__}:{fam}:n={n}:pres={int(preserve)}",
                 f"construction raised {e!r}", rep)
        return
    if tol <= 1e-7 and merge_band(levels):
        tol = 1e-4
        ctx.count("oracle tolerance 1e-4: entries inside the allclose threshold")
    if do_tie and not (cls_name == "ucge" and preserve):
        if cls_name == "ucge" and in_band(levels):
            ctx.count("tie skipped: entries inside the allclose band")
        else:
            for lv in levels:
                check_ucgate_spec(ctx, lv, tol=1e-9 if tol <= 1e-7 else tol)
                ctx.count("kind:" + "+".join(sorted(set(lv["kinds"]))))
                if cls_name == "ucge" and lv["dc"]:
                    ctx.count("ucge dont_carry levels")
            op = {"op": "run", "cls": cls_name, "n": n, "t": t, "preserve": bool(preserve),
                  "vre": [fbits(np.real(a)) for a in v], "vim": [fbits(np.imag(a)) for a in v],
                  "diags": [{"re": [fbits(np.real(a)) for a in lv["diag"]], "im": [fbits(np.imag(a)) for a in lv["diag"]]}
                            for lv in levels]}
            ctx.tie(op, impl_lines(cls_name, preserve, levels), label=key)
    if not do_oracle:
        return
    u = Operator(g.definition).data
    err = float(np.abs(u[:, t] - v).max())
    if err > tol and cls_name == "ucge" and preserve:
        ctx.count("ucge+preserve wrong column t (outside the property)")
        if not any("UCGEInitialize with preserve_previous=True prepares a wrong" in s for s in ctx.notes):
            ctx.notes.append("UCGEInitialize with preserve_previous=True prepares a wrong state when _simplify shortened the "
                             "multiplexer (mux[r_gate] then indexes the simplified list); outside the property (preserve is "
                             "stated for the plain class), recorded only. Example: n=%d t=%d family=%s err=%.2e"
                             % (n, t, fam, err))
        return
    if err > tol:
        ctx.fail(key, f"column {t} of Operator(definition) differs from the vector by {err:.3e}", dict(rep, observed_err=err))
        return
    if preserve and cls_name == "ucg" and not np.any(v[:t]):
        for j in range(t):
            col = u[:, j].copy()
            ph = col[j]
            col[j] = 0
            e2 = max(float(np.abs(col).max()), abs(abs(ph) - 1))
            if e2 > 1e-7:
                ctx.fail(f"ucg:preserve:{fam}:n={n}:t={t}:j={j}:{h:x}",
                         f"basis state {j} < t={t} is not mapped to itself up to a phase (deviation {e2:.3e})",
                         dict(rep, column=j, observed_err=e2))
                return
        ctx.count("preserve columns checked", t)
    ctx.ok(key, nontrivial=n >= 2, sample={"cls": cls_name, "n": n, "t": t, "preserve": bool(preserve), "family": fam, "err": err})
    return levels


# ------------------------------------------------------------------------------------------------
# boundary-value cases
# ------------------------------------------------------------------------------------------------

def _dense(r, N):
    return r.uniform(0.3, 1.0, size=N) * np.exp(1j * r.uniform(0, 2 * np.pi, size=N))


def child_boundary_cases(ctx, r):
    """ucg.py:179 `parent != 0`, :182 `amp_ket0 != 0`, :203/:224 `target == '0'`, :116 `mux[r_gate]`: at every
    tree level L the |0> child, the |1> child or both children of a sibling pair are exactly 0 / 1e-12 / 1e-3
    relative to the rest; the pair is the one pulled out by preserve_previous (index r_gate) or another one;
    t = 0, 2^(n-1), 2^n - 1 give both values of the target bit at every level.  Child c of tree level L is the
    block [c*B, (c+1)*B) of the vector, B = 2^(n-L)."""
    for n in (1, 2, 3, 4):
        N = 2 ** n
        ts = sorted({0, N // 2, N - 1}) if n <= 3 else [0, N - 1]
        eps_list = [("0", 0.0), ("1e-12", 1e-12), ("1e-3", 1e-3)] if n <= 3 else [("0", 0.0)]
        for t in ts:
            for L in range(1, n + 1):
                npairs, B = 2 ** (L - 1), 2 ** (n - L)
                rg = t >> (n - L + 1)
                other = 0 if rg != 0 else npairs - 1
                pairs = [("rgate", rg)] + ([("other", other)] if other != rg else [])
                for pname, k in pairs:
                    for which in ("ket0", "ket1", "both"):
                        for tag, eps in eps_list:
                            if which == "both" and npairs == 1:
                                continue
                            v = _dense(r, N)
                            lo = (2 * k + (1 if which == "ket1" else 0)) * B
                            hi = (2 * k + (1 if which == "ket0" else 2)) * B
                            v[lo:hi] *= eps
                            yield n, t, L, v, f"bnd-child:L={L}:{pname}:{which}:{tag}", f"child:{which}:{tag}:{pname}"


# normalised pairs (cos th, sin th e^{i ph}); distinct letters are far apart (entries differ by > 0.05)
LETTERS = {"A": (0.7853981633974483, 0.0), "B": (0.9, -0.7), "C": (0.35, 1.9), "D": (1.2, 2.6), "E": (0.55, -2.2),
           "F": (1.05, 0.8), "G": (0.2, -1.3), "H": (1.4, 1.1)}
# second letter `a` = A shifted by delta in theta: entrywise |a - A| = 0.707 delta against the allclose threshold
# 1e-8 + 1e-5 * 0.707 = 7.08e-6
NEAR = {"a9": 1e-9, "a6": 3e-6, "a5": 3e-5}
PATTERNS = {
    2: ["AA", "AB", "A a9", "A a6", "A a5"],
    3: ["AAAA", "AABB", "ABAB", "AABC", "ABAC", "ABCD", "ABCA", "A a6 B B", "A a5 B B", "A B a6 B", "A B a5 B"],
    4: ["AAAAAAAA", "ABABABAB", "AABBAABB", "AAAABBBB", "ABCDABCD", "AABBCCDD", "AABBAABC", "ABCDABCE", "ABCABCDE",
        "ABCAEFGH", "ABCDEFGH"],
}


def pattern_vector(r, pat):
    toks = pat.split() if " " in pat else list(pat)
    v = []
    for tok in toks:
        th, ph = LETTERS["A"] if tok in NEAR else LETTERS[tok]
        th += NEAR.get(tok, 0.0)
        w = r.uniform(0.5, 1.0)
        v += [w * np.cos(th), w * np.sin(th) * np.exp(1j * ph)]
    return np.array(v, dtype=complex)


def ucge_pattern_cases(ctx, r):
    """ucge.py:39 `range(1, len(mux)//2 + 1)`, :42 `log2(d).is_integer() and allclose(mux[i], mux[0])` (each conjunct
    alone: ABCABCDE has mux[3] == mux[0] with d = 3; ABCD.. has d a power of two and different entries), :28-33
    verification failing on the first / a later element / the last repetition (restore of mux_cpy at :51),
    :53 `repetitions == 0`, :120 `len(mux) > 1`, ucg.py:104 `len(mux) != 1` after simplification (AAAA..), and
    np.allclose itself (entries 1e-9 / 0.4 / 4 thresholds apart) - on the first level's multiplexer of 2, 4, 8 entries."""
    for n, pats in PATTERNS.items():
        for pat in pats:
            for t in sorted({0, 1, 2 ** n - 1}):
                yield n, t, pattern_vector(r, pat), "bnd-mux:" + pat.replace(" ", "_"), pat


def allclose_merge_probe(ctx):
    """FINDING (precision): two sibling pairs whose 2x2 operators are within np.allclose (rtol 1e-5, atol 1e-8) of each
    other are merged - by ucge._repetition_search for UCGEInitialize and by qiskit's UCGate._simplify for the plain
    UCGInitialize as well - so the prepared state is off by up to ~1e-5, far above float noise.  Fixed input:
    v = (cos a, sin a, cos(a+d), sin(a+d))/sqrt 2, a = pi/4, d = 3e-6."""
    from qiskit.quantum_info import Statevector
    a, d = np.pi / 4, 3e-6
    v = np.array([np.cos(a), np.sin(a), np.cos(a + d), np.sin(a + d)], dtype=complex) / np.sqrt(2)
    for cls_name in ("ucg", "ucge"):
        key = f"{cls_name}:col:allclose-merge:n=2:t=0:delta=3e-6"
        rep = {"call": cls_name, "n": 2, "t": 0, "preserve": False, "family": "allclose-merge", "vector": vec_payload(v)}
        try:
            sv = Statevector(get_class(cls_name)(v).definition).data
        except Exception as e:
            ctx.fail(key + ":raises", f"{type(e).__name__}: {e}", rep)
            continue
        err = float(np.abs(sv - v).max())
        ctx.count("boundary:allclose:finding-probe")
        if err > 1e-7:
            ctx.fail(key, f"prepared state differs from the vector by {err:.3e}: sibling pairs 3e-6 apart are merged by "
                          f"np.allclose ({'ucge._repetition_search' if cls_name == 'ucge' else 'qiskit UCGate._simplify'})",
                     dict(rep, observed_err=err))
        else:
            ctx.ok(key, sample={"cls": cls_name, "err": err})


def boundary_run(ctx, r):
    allclose_merge_probe(ctx)
    ctx.notes.append("boundary cases: children of a sibling pair are exactly 0, 1e-12 or 1e-3 relative to the rest (the code's "
                     "tests are exact `!= 0`; (0, 1e-12) is not sampled); UCGE multiplexer entries are equal, 1e-9 apart, or "
                     "0.4x / 4x the np.allclose threshold apart - the band (0.5x, 2x) is excluded from the tie; where "
                     "allclose merges entries 3e-6 apart the prepared state is legitimately ~1e-6 off, the oracle tolerance "
                     "is 1e-4 there")
    for n, t, L, v, fam, counter in child_boundary_cases(ctx, r):
        v = v / np.linalg.norm(v)
        for cls_name, preserve in (("ucg", False), ("ucge", False), ("ucg", True)):
            w = v
            if preserve:
                # preserve_previous is stated for vectors supported on indices >= t
                w = v.copy()
                w[:t] = 0
                if not np.any(w):
                    continue
                w = w / np.linalg.norm(w)
            lv = one_case(ctx, cls_name, n, t, preserve, fam, w)
            if lv is not None:
                ctx.count(f"boundary:{counter}")
                bit = lv[n - L]["bit"]
                ctx.count(f"boundary:child:level={'first' if L == n else 'last' if L == 1 else 'mid'}:bit={bit}")
                if preserve:
                    q = lv[n - L]["target"]
                    ctx.count("boundary:preserve:ctrl_state-" + ("complete(target=n-1)" if q == n - 1 else
                                                                "padded(target=n-2)" if q == n - 2 else "padded"))
    for n, t, v, fam, pat in ucge_pattern_cases(ctx, r):
        v = v / np.linalg.norm(v)
        # entries 0.4x the allclose threshold apart are merged by ucge._repetition_search AND by qiskit's own
        # UCGate._simplify (plain class too): the state is then ~1e-6 off by construction
        # (one_case widens its tolerance to 1e-4 by itself when it sees such entries: merge_band)
        lv = one_case(ctx, "ucge", n, t, False, fam, v)
        one_case(ctx, "ucg", n, t, False, fam, v)
        if lv is not None:
            dc = lv[0].get("dc", [])
            ctx.count(f"boundary:ucge-pattern:entries={2 ** (n - 1)}:dont_carry={len(dc)}:kept={len(lv[0].get('kept', []))}")
            for tok, nm in (("a9", "1e-9(atol)"), ("a6", "0.4x-threshold"), ("a5", "4x-threshold")):
                if tok in pat:
                    ctx.count(f"boundary:allclose:{nm}:{'merged' if dc else 'kept-apart'}")
            if pat in ("ABCABCDE", "ABCAEFGH", "ABCA"):
                ctx.count("boundary:ucge:equal-entry-at-non-power-of-two-distance")
            if pat in ("AABC", "AABBAABC", "ABCDABCE", "ABAC"):
                ctx.count("boundary:ucge:verification-fails-late(restore)")


UNREACHED_JUSTIFIED = {}   # after entry_forms() every statement and branch of ucg.py / ucge.py is reached in the quick tier


def entry_case(ctx, cls_name, n, t, preserve, fam, v, form, wires=None):
    """The same property (column t of the operator = v) through the other entry paths of ucg.py / ucge.py:
    opt_params=None (t = 0), a label, list params, the static `initialize` with qubits=None and with an explicit
    permuted wire list on a wider host circuit."""
    from qiskit import QuantumCircuit
    from qiskit.quantum_info import Operator
    cls = get_class(cls_name)
    opt = {"target_state": int(t), "preserve_previous": bool(preserve)}
    key = f"{cls_name}:entry:{form}:{fam}:n={n}:t={t}:pres={int(preserve)}"
    rep = {"call": cls_name, "n": n, "t": t, "preserve": bool(preserve), "family": fam, "vector": vec_payload(v),
           "form": form, "wires": wires}
    try:
        if form == "opt-none":
            circ, wires = cls(np.array(v)).definition, list(range(n))
        elif form == "label":
            circ, wires = cls(np.array(v), label="psi", opt_params=opt).definition, list(range(n))
        elif form == "list":
            circ, wires = cls([complex(a) for a in v], opt_params=opt).definition, list(range(n))
        elif form == "static":
            circ, wires = QuantumCircuit(n), list(range(n))
            cls.initialize(circ, np.array(v), opt_params=opt)
        elif form == "static-qubits":
            circ = QuantumCircuit(n + 1)
            cls.initialize(circ, np.array(v), qubits=list(wires), opt_params=opt)
        else:
            raise ValueError(form)
    except Exception as e:
        ctx.fail(key + ":raises", f"{type(e).__name__}: {e}", rep)
        return
    ctx.count(f"branch:entry-form:{cls_name}:{form}")
    u = Operator(circ).data

    def embed(x):
        return sum(((x >> k) & 1) << wires[k] for k in range(n))
    want = np.zeros(u.shape[0], dtype=complex)
    for x in range(2 ** n):
        want[embed(x)] = v[x]
    err = float(np.abs(u[:, embed(t)] - want).max())
    if err > 1e-7:
        ctx.fail(key, f"column of |t={t}> (on wires {wires}) differs from the vector by {err:.3e}", dict(rep, observed_err=err))
    else:
        ctx.ok(key, nontrivial=n >= 2, sample={"cls": cls_name, "n": n, "t": t, "form": form, "err": err})


def entry_forms(ctx):
    r = ctx.nprng()
    pr = ctx.rng
    for n in (1, 2, 3):
        for cls_name in ("ucg", "ucge"):
            fam = pr.choice(["complex", "zeros", "product", "real"])
            v, _ = make_vector(r, n, 0, fam)
            entry_case(ctx, cls_name, n, 0, False, fam, v, "opt-none")
            for form in ("label", "list", "static", "static-qubits"):
                t = pr.randrange(2 ** n)
                preserve = cls_name == "ucg" and pr.random() < 0.5
                fam = pr.choice(["complex", "zeros", "product", "supp"])
                v, _ = make_vector(r, n, t, fam)
                wires = pr.sample(range(n + 1), n) if form == "static-qubits" else None
                entry_case(ctx, cls_name, n, t, preserve, fam, v, form, wires)


def regression_probes(ctx):
    """the carried-diagonal defect of UCGEInitialize._apply_diagonal (fixed in /repo): product states whose
    simplification keeps an asymmetric set of controls."""
    from qiskit.quantum_info import Statevector
    probes = {
        "n3-default": np.array([3, 3, -3, -3, 4, 4, -4, -4]) / 10,
        "n3-entangled": np.array([3, -3, 3, 6, 4, -4, 4, 8.0]) / np.sqrt(175),
        "n4-middle": np.kron(np.kron([0.6, 0.8], np.array([1, 2, 2, -1]) / np.sqrt(10)), [0.6, 0.8]),
    }
    for name, v in probes.items():
        key = f"ucge:col:carried-diagonal:regression:{name}"
        try:
            sv = Statevector(get_class("ucge")(v).definition).data
        except Exception as e:
            ctx.fail(key, f"raised {e!r}", {"call": "UCGEInitialize(v).definition", "vector": vec_payload(v)})
            continue
        err = float(np.abs(sv - v).max())
        if err > 1e-7:
            ctx.fail(key, f"Statevector(UCGEInitialize(v).definition) differs from v by {err:.3e} (default options)",
                     {"call": "ucge", "n": int(np.log2(len(v))), "t": 0, "preserve": False, "family": "regression",
                      "vector": vec_payload(v), "observed_err": err})
        else:
            ctx.ok(key, sample={"probe": name, "err": err})


def string_tables(ctx, nmax):
    """str_target / ctrl_state / wires of the model for every (n, t) against the Python expressions
    of ucg.py evaluated literally."""
    for n in range(1, nmax + 1):
        for t in range(2 ** n):
            st = bin(t)[2:].zfill(n)[::-1]
            lines = [f"str ; s{st}"]
            r_gate = t // 2
            for target in range(n):
                mult_controls = list(range(target + 1, n))
                wires = list(range(0, target)) + list(range(target + 1, n))
                cs = st[0:target][::-1]
                if len(cs) < n - 1:
                    cs = bin(r_gate)[2:].zfill(len(mult_controls)) + cs
                lines.append(f"cs {target} {r_gate} {' '.join(map(str, wires))} ; s{cs}")
                r_gate //= 2
            ctx.tie({"op": "strs", "n": n, "t": t}, lines)


def run(ctx, nmax_tie=None, nmax_or=None, per_t=None):
    r = ctx.nprng()
    regression_probes(ctx)
    entry_forms(ctx)
    nmax_tie = nmax_tie or (4 if ctx.quick else 5)
    nmax_or = nmax_or or (5 if ctx.quick else 6)
    string_tables(ctx, 6 if ctx.quick else 8)
    ctx.notes.append("generated amplitudes are exactly 0 or of modulus >= 1e-2/sqrt(N); UCGE tie cases whose operator "
                     "entries differ by 1e-10..1e-4 (np.allclose band) are skipped and counted")
    boundary_run(ctx, r)
    for n in range(1, nmax_or + 1):
        ts = list(range(2 ** n))
        if n >= 5 and ctx.quick:
            ts = sorted({0, 1, 2 ** n - 1, 2 ** n - 2, 2 ** (n - 1)} | set(ctx.rng.sample(ts, 5)))
        elif n >= 6:
            ts = sorted({0, 1, 2 ** n - 1, 2 ** (n - 1)} | set(ctx.rng.sample(ts, 8)))
        for t in ts:
            for fam in FAMILIES:
                v, info = make_vector(r, n, t, fam)
                for cls_name, preserve in (("ucg", False), ("ucg", True), ("ucge", False), ("ucge", True)):
                    if cls_name == "ucge" and preserve and fam not in ("complex", "supp", "product"):
                        continue
                    one_case(ctx, cls_name, n, t, preserve, fam, v, info, do_tie=n <= nmax_tie)
                    if fam == "complex" and n <= 4:
                        for nm, val in (("0", 0), ("1", 1), ("2^(n-1)-1", 2 ** (n - 1) - 1), ("2^(n-1)", 2 ** (n - 1)),
                                        ("2^n-1", 2 ** n - 1)):
                            if t == val:
                                ctx.count(f"boundary:target_state={nm}:n={n}")
                    if cls_name == "ucg" and preserve and fam in ("supp", "supp_t0") and n <= 4:
                        ctx.count("boundary:preserve:support-starts-at-" + ("t" if fam == "supp" else "t+1"))


def search(ctx, hints):
    for h in hints[:20]:
        op = h.get("op", {})
        if op.get("op") != "run":
            continue
        v = np.array([complex(struct.unpack("<d", struct.pack("<Q", a))[0], struct.unpack("<d", struct.pack("<Q", b))[0])
                      for a, b in zip(op["vre"], op["vim"])])
        one_case(ctx, op["cls"], op["n"], op["t"], op["preserve"], "hint", v, do_tie=False)
    run(ctx, nmax_tie=0, nmax_or=5)


def replay(ctx, payload):
    rp = payload["replay"]
    v = np.array([complex(a, b) for a, b in rp["vector"]])
    if rp.get("form"):
        entry_case(ctx, rp["call"], rp["n"], rp["t"], rp["preserve"], rp.get("family", "replay"), v, rp["form"], rp.get("wires"))
        return
    if rp.get("family") == "allclose-merge":
        allclose_merge_probe(ctx)
        return
    one_case(ctx, rp["call"], rp["n"], rp["t"], rp["preserve"], rp.get("family", "replay"), v, do_tie=False,
             key=payload.get("key"))
