"""C12 — UCGInitialize / UCGEInitialize: |t> -> v for every target index t, earlier basis states
preserved (qclib/state_preparation/ucg.py, ucge.py)."""
import struct
import zlib
import numpy as np

CLAIMED = True
TECHNIQUE = ("Lean 4 proofs (ring identities with conjugation for the level operators, induction over the levels on "
             "amplitude vectors indexed by naturals, index arithmetic for r_gate / ctrl_state, list induction for the UCGE "
             "repetition search); per-level correspondence with the intermediates of the real classes; Operator oracle")
LEVEL_TEXT = ("Proved for the model, all n >= 1, all t < 2^n, over any field with conjugation (specifications of the pair norm "
              "and zero test hold in C): C12_level (the operator chosen for a sibling pair - identity, diagonal or branch, by the "
              "code's own zero tests - is unitary and sends the pair to norm*e_bit), C12_level_norms (parent norms telescope to 1), "
              "C12_column_t (the level loop, with or without the gate pulled out by preserve_previous, sends v to |t> exactly - the "
              "carried diagonals are absorbed, no global phase remains - given qiskit's specification Diag(d)*UCGate = multiplexer "
              "as hypothesis; any left inverse sends |t> to v; the children are those of the executable model), C12_preserve (with "
              "support on indices >= t every |j>, j < t, is mapped to itself times a unit phase), C12_preserve_ctrl (r_gate = "
              "t // 2^(q+1); the ctrl_state string on out_gate_ctrl holds exactly on the labels that agree with t off the target "
              "wire). PARTIAL: C12_ucge_simplify_partial (every control reported by _repetition_search is one along which the "
              "operator list is periodic, so the multiplexer does not read it; the re-indexing of the filtered list by the kept "
              "controls is tied, not proved) - superseded by the FULL C12_ucge_simplify / C12_ucge_simplify_level: for every list of "
              "length 2^m at tree_level m+1 <= n, size_required = m and new_mux[gather(ctrl_qc, k)] = mux[k] for every control value k "
              "(closed form of _repetition_search, rank lemma of the filtered list, periodicity), so the simplified gate acts as the "
              "original multiplexer on every label; also for the plan of every level of the model's loop. Tied per level to the real classes (bit_target, controls, operator kind and 2x2 "
              "entries, parents, r_gate, ctrl_state string and wires, dont_carry / kept indices / kept controls, the list handed "
              "to UCGate, children after _apply_diagonal incl. the UCGE spreading of the diagonal) for all t, n<=4 quick / <=5 "
              "thorough over nine vector families, and str_target/ctrl_state tables for all t, n<=6/8. The property itself is "
              "re-evaluated with qiskit's Operator (column t; columns < t under preserve) as failing-input search, n<=5/6.")
LEVEL_NOTE = ("Trusted: Lean kernel; qiskit UCGate(up_to_diagonal=True) and _get_diagonal() (specification Diag(d)*UCGate = "
              "multiplexer validated numerically on every tie case), .control(ctrl_state), circuit.inverse(), Operator; exact "
              "zero tests / np.allclose modelled as exact predicates; model-code agreement beyond the explored sizes.")
LEAN_TARGETS = ["QclibModel.Props.C12"]
THEOREMS = ["Qclib.C12_level", "Qclib.C12_level_norms", "Qclib.C12_column_t", "Qclib.C12_preserve",
            "Qclib.C12_preserve_ctrl", "Qclib.C12_ucge_simplify_partial", "Qclib.C12_ucge_simplify",
            "Qclib.C12_ucge_simplify_level"]
TRUSTED = [
    "qiskit UCGate(up_to_diagonal=True): Diag(_get_diagonal()) * circuit = block-diagonal multiplexer, target = first qubit, "
    "control j = bit j of the entry index (validated numerically on every tie case with more than one entry)",
    "qiskit QuantumCircuit.control(k, ctrl_state=str): last character of the string = first control qubit; circuit.inverse(); "
    "Operator",
    "float: `!= 0` and np.allclose(rtol 1e-5, atol 1e-8) are modelled as exact (in)equality in the theorems and as the same "
    "tests on IEEE doubles in the driver; generated inputs keep operator entries off the band (0.5x, 2x) of the allclose "
    "threshold; qiskit's UCGate._simplify merges entries within np.allclose as well, so inside the threshold the UCGate "
    "specification (and the prepared state, both classes) holds to ~1e-5 only (probe `*:col:allclose-merge:*`)",
]
ASSUMPTIONS = ["exact complex arithmetic in the theorems; implementation compared to 1e-9 (tie) and 1e-7 (oracle)"]
RULE = ("tie: (class, preserve, n, t, vector) whose per-level intermediates were diffed against the Lean model; oracle: "
        "(class, preserve, n, t, vector family) whose Operator column t (and columns < t) was compared with the ideal; "
        "non-trivial = n >= 2; diversity cases additionally carry the FORM of the input (element type of the vector, form of the "
        "options, way the gate object / static helper is used) in their key")
DRIVER = "Drivers/C12.lean"

FAMILIES = ("complex", "real", "zeros", "zeroblock", "basis", "supp", "suppz", "supp_t0", "product")


# ------------------------------------------------------------------------------------------------
# inputs
# ------------------------------------------------------------------------------------------------

def fbits(x):
    return struct.unpack("<Q", struct.pack("<d", float(x)))[0]


def fstr(x):
    return "f%d" % fbits(x)


def cstr(z):
    z = complex(z)
    return fstr(z.real) + " " + fstr(z.imag)


def mstr(m):
    m = np.asarray(m, dtype=complex)
    return " ".join(cstr(m[i, j]) for i in (0, 1) for j in (0, 1))


def product_state(r, n):
    """tensor product over a random set partition of the wires; factors positive / real / complex
    (positive factors make multiplexer entries repeat exactly: the UCGE simplification fires)."""
    wires = list(range(n))
    r.shuffle(wires)
    groups, i = [], 0
    while i < n:
        k = int(r.integers(1, n - i + 1)) if n - i > 1 else 1
        if len(groups) == 0 and k == n and n > 1:
            k = n - 1
        groups.append(sorted(wires[i:i + k]))
        i += k
    v = np.ones(2 ** n, dtype=complex)
    kinds = []
    for g in groups:
        kind = ["pos", "real", "complex"][int(r.integers(3))]
        kinds.append(kind)
        d = 2 ** len(g)
        if kind == "pos":
            s = r.uniform(0.3, 1.0, size=d)
        elif kind == "real":
            s = r.uniform(0.3, 1.0, size=d) * r.choice([-1.0, 1.0], size=d)
        else:
            s = r.uniform(0.3, 1.0, size=d) * np.exp(1j * r.uniform(0, 2 * np.pi, size=d))
        s = s / np.linalg.norm(s)
        for idx in range(2 ** n):
            k = sum(((idx >> q) & 1) << i for i, q in enumerate(g))
            v[idx] *= s[k]
    return v, {"groups": groups, "kinds": kinds}


def make_vector(r, n, t, fam):
    """amplitudes are either exactly 0 or of modulus >= ~1e-2 (no values near the `!= 0` test)."""
    N = 2 ** n
    info = {}

    def cplx():
        return r.uniform(0.2, 1.0, size=N) * np.exp(1j * r.uniform(0, 2 * np.pi, size=N))
    if fam == "complex":
        v = cplx()
    elif fam == "real":
        v = r.uniform(0.2, 1.0, size=N) * r.choice([-1.0, 1.0], size=N) + 0j
    elif fam == "zeros":
        v = cplx()
        v[r.random(N) < 0.45] = 0
    elif fam == "zeroblock":
        v = cplx()
        if n >= 2:
            w = 2 ** int(r.integers(1, n))
            b = int(r.integers(N // w)) * w
            v[b:b + w] = 0
        else:
            v[int(r.integers(2))] = 0
    elif fam == "basis":
        v = np.zeros(N, dtype=complex)
        j = [0, N - 1, t, int(r.integers(N))][int(r.integers(4))]
        v[j] = [1, -1, 1j, np.exp(1j * r.uniform(0, 6))][int(r.integers(4))]
    elif fam == "supp":
        v = cplx()
        v[:t] = 0
    elif fam == "suppz":
        v = cplx()
        v[r.random(N) < 0.4] = 0
        v[:t] = 0
    elif fam == "supp_t0":
        v = cplx()
        v[:t + 1] = 0
    elif fam == "product":
        v, info = product_state(r, n)
    else:
        raise ValueError(fam)
    if not np.any(v):
        v = np.zeros(N, dtype=complex)
        v[N - 1] = 1.0
    return v / np.linalg.norm(v), info


def get_class(name):
    from qclib.state_preparation.ucg import UCGInitialize
    from qclib.state_preparation.ucge import UCGEInitialize
    return UCGInitialize if name == "ucg" else UCGEInitialize


# ------------------------------------------------------------------------------------------------
# tracing the real class (add-only wrappers on the instance; /repo is not edited)
# ------------------------------------------------------------------------------------------------

def trace(cls_name, v, t, preserve, build=None):
    """Builds the gate with the real class, wrapping its helper methods on the instance; returns
    (gate, levels) where levels is the list of per-level records in processing order.
    `build(cls)` (optional) constructs the gate from another form of the same input / options."""
    from qiskit import QuantumCircuit
    cls = get_class(cls_name)
    if build is not None:
        g = build(cls)
    else:
        g = cls(np.array(v), opt_params={"target_state": int(t), "preserve_previous": bool(preserve)})
    levels = []
    tags = {}
    cur = {}

    o_branch, o_diag = g._get_branch_operator, g._get_diagonal_operator

    def branch(a0, a1, target="0"):
        m = o_branch(a0, a1, target)
        tags[id(m)] = ("branch", m)
        return m

    def diagop(a1, target):
        m = o_diag(a1, target)
        tags[id(m)] = ("diagonal", m)
        return m
    g._get_branch_operator, g._get_diagonal_operator = branch, diagop

    o_dq = g._disentangle_qubit

    def dq(children, parent, r_gate, tree_level):
        cur.clear()
        cur.update({"level": tree_level, "r_gate": r_gate, "parent": [complex(x) for x in parent]})
        bit, ucg = o_dq(children, parent, r_gate, tree_level)
        cur["bit"] = bit
        levels.append(dict(cur))
        return bit, ucg
    g._disentangle_qubit = dq

    o_bm = g._build_multiplexor

    def bm(parent, children, str_target):
        tags.clear()
        gates = o_bm(parent, children, str_target)
        cur["mux"] = [np.array(x, dtype=complex) for x in gates]
        cur["kinds"] = [tags[id(x)][0] if id(x) in tags and tags[id(x)][1] is x else "identity" for x in gates]
        cur["str_target"] = str_target
        return gates
    g._build_multiplexor = bm

    o_ct = g._get_ctrl_targ

    def ct(tree_level):
        c, tg = o_ct(tree_level)
        cur["controls"], cur["target"] = list(c), tg
        return c, tg
    g._get_ctrl_targ = ct

    if hasattr(g, "_simplify"):
        o_s = g._simplify

        def simp(mux, level):
            nc, new = o_s(mux, level)
            cur["dc"] = list(nc)
            cur["kept"] = [i for i, m in enumerate(mux) if any(m is x for x in new)]
            return nc, new
        g._simplify = simp

    o_pp = g._preserve_previous

    def pp(mux, mult_controls, r_gate, target):
        cur["pres_gate"] = np.array(mux[r_gate], dtype=complex)
        o_control = QuantumCircuit.control
        o_compose = g.circuit.compose

        def control(self, num_ctrl_qubits=1, label=None, ctrl_state=None, annotated=None):
            cur["ctrl_state"] = ctrl_state
            cur["num_ctrl"] = num_ctrl_qubits
            cur["pres_gate"] = np.array(self.data[0].operation.to_matrix(), dtype=complex)  # the gate really pulled out
            return o_control(self, num_ctrl_qubits, label, ctrl_state, annotated)

        def compose(other, qubits=None, *a, **k):
            cur["pres_wires"] = list(qubits)
            return o_compose(other, qubits, *a, **k)
        QuantumCircuit.control = control
        g.circuit.compose = compose
        try:
            return o_pp(mux, mult_controls, r_gate, target)
        finally:
            QuantumCircuit.control = o_control
            del g.circuit.compose
    g._preserve_previous = pp

    o_au = g._apply_ucg

    def au(mux, mult_controls, target):
        cur["ucgmux"] = [np.array(x, dtype=complex) for x in mux]
        cur["mc"] = list(mult_controls)
        return o_au(mux, mult_controls, target)
    g._apply_ucg = au

    o_ad = g._apply_diagonal

    def ad(bit_target, parent, ucg):
        d = np.array(ucg._get_diagonal(), dtype=complex)
        ch = o_ad(bit_target, parent, ucg)
        levels[-1]["diag"] = d
        levels[-1]["children"] = [complex(x) for x in np.atleast_1d(ch)]
        levels[-1]["ucg"] = ucg
        return ch
    g._apply_diagonal = ad

    _ = g.definition
    return g, levels


def impl_lines(cls_name, preserve, levels):
    out = []
    for lv in levels:
        L = lv["level"]
        out.append(f"lvl {L} {lv['target']} {lv['bit']} {' '.join(map(str, lv['controls']))} ;")
        for k, p in enumerate(lv["parent"]):
            out.append(f"par {L} {k} ; {cstr(p)}")
        for k, (kind, m) in enumerate(zip(lv["kinds"], lv["mux"])):
            out.append(f"op {L} {k} ; {kind} {mstr(m)}")
        if cls_name == "ucge" and "dc" not in lv:      # _simplify not called although the options ask for no preservation
            out.append(f"dc {L} NOT-CALLED ;")
        elif cls_name == "ucge":
            out.append(f"dc {L} {' '.join(map(str, lv['dc']))} ;")
            out.append(f"kept {L} {' '.join(map(str, lv['kept']))} ;")
            out.append(f"mc {L} {' '.join(map(str, lv['mc']))} ;")
        if preserve:
            if "pres_wires" in lv:
                out.append(f"pres {L} {lv['r_gate']} {lv['target']} {' '.join(map(str, lv['pres_wires'][:-1]))} ; "
                           f"s{lv['ctrl_state']} ok {mstr(lv['pres_gate'])}")
            else:  # the real code did not call _preserve_previous at this level: an observable difference
                out.append(f"pres {L} NOT-CALLED ;")
        for k, m in enumerate(lv["ucgmux"]):
            out.append(f"ucgmux {L} {k} ; {mstr(m)}")
        for k, c in enumerate(lv["children"]):
            out.append(f"ch {L} {k} ; {cstr(c)}")
    return out


def in_band(levels):
    """True if for two multiplexer entries of some level np.allclose is not clearly decided: the largest entrywise
    ratio |a - b| / (1e-8 + 1e-5 |b|) lies in (0.5, 2) (allclose holds iff that ratio is <= 1)."""
    for lv in levels:
        m = lv["mux"]
        for i in range(len(m)):
            for j in range(len(m)):
                if i == j:
                    continue
                ratio = float((np.abs(m[i] - m[j]) / (1e-8 + 1e-5 * np.abs(m[j]))).max())
                if 0.5 < ratio < 2.0:
                    return True
    return False


def merge_band(levels):
    """True if two DIFFERENT multiplexer entries of some level lie within (twice) the np.allclose threshold of each
    other: ucge._repetition_search / qiskit's UCGate._simplify then (may) merge them and the prepared state is
    legitimately off by up to ~1e-5 (known finding K-C12-1); the oracle tolerance is 1e-4 there."""
    for lv in levels:
        m = lv["mux"]
        for i in range(len(m)):
            for j in range(len(m)):
                if i != j:
                    diff = np.abs(m[i] - m[j])
                    if float(diff.max()) > 1e-10 and float((diff / (1e-8 + 1e-5 * np.abs(m[j]))).max()) < 2.0:
                        return True
    return False


def check_ucgate_spec(ctx, lv, tol=1e-9):
    """K4 assumption: Diag(d) * UCGate-circuit = block-diagonal multiplexer (target least significant)."""
    from qiskit import QuantumCircuit
    from qiskit.quantum_info import Operator
    mux = lv["ucgmux"]
    if len(mux) < 2:
        d = lv["diag"]
        ctx.assumption_checks += 1
        if np.abs(d - 1).max() > 1e-12:
            ctx.fail("assumption:ucgate-single-diagonal", f"diag of a one-entry UCGate is {d}", kind="assumption")
        return
    k = int(np.log2(len(mux))) + 1
    qc = QuantumCircuit(k)
    qc.append(lv["ucg"], list(range(k)))
    u = Operator(qc).data
    ideal = np.zeros((2 ** k, 2 ** k), dtype=complex)
    for i, m in enumerate(mux):
        ideal[2 * i:2 * i + 2, 2 * i:2 * i + 2] = m
    err = float(np.abs(np.diag(lv["diag"]) @ u - ideal).max())
    unit = float(np.abs(np.abs(lv["diag"]) - 1).max())
    ctx.assumption_checks += 1
    if err > tol or unit > 1e-9:
        ctx.fail("assumption:ucgate-diagonal-spec", f"|Diag(d) U - mux| = {err:.2e}, ||d|-1| = {unit:.2e}", kind="assumption")


# ------------------------------------------------------------------------------------------------
# one case: tie + oracle
# ------------------------------------------------------------------------------------------------

def vec_payload(v):
    return [[float(np.real(a)), float(np.imag(a))] for a in v]


def one_case(ctx, cls_name, n, t, preserve, fam, v, info=None, do_tie=True, do_oracle=True, key=None, tol=1e-7,
             build=None, div=None):
    """`build` / `div`: the gate is constructed from another FORM of the same vector / options (diversity section);
    `div` is the JSON recipe of that form (kept in the replay payload), v / t / preserve stay the harness's own
    reading of the user input (np.asarray(raw, dtype=complex), the options the dict stands for)."""
    from qiskit.quantum_info import Operator
    N = 2 ** n
    h = zlib.crc32(np.asarray(v, dtype=complex).tobytes()) & 0xffffff
    key = key or f"{cls_name}:col:{fam}:n={n}:t={t}:pres={int(preserve)}:{h:x}"
    rep = {"call": f"{cls_name}", "n": n, "t": t, "preserve": bool(preserve), "family": fam, "vector": vec_payload(v),
           "info": info or {}}
    if div is not None:
        rep["div"] = div
    ctx.count(f"{cls_name}:{fam}:pres={int(preserve)}")
    try:
        g, levels = trace(cls_name, v, t, preserve, build=build)
    except Exception as e:  # raised by qclib/qiskit while building the definition of a valid input
        ctx.fail(f"{cls_name}:exception:{type(e).__name__}:{fam}:n={n}:pres={int(preserve)}",
                 f"construction raised {e!r}", rep)
        return
    if tol <= 1e-7 and merge_band(levels):
        tol = 1e-4
        ctx.count("oracle tolerance 1e-4: entries inside the allclose threshold")
    if do_tie and not (cls_name == "ucge" and preserve):
        if cls_name == "ucge" and in_band(levels):
            ctx.count("tie skipped: entries inside the allclose band")
        else:
            for lv in levels:
                check_ucgate_spec(ctx, lv, tol=1e-9 if tol <= 1e-7 else tol)
                ctx.count("kind:" + "+".join(sorted(set(lv["kinds"]))))
                if cls_name == "ucge" and lv.get("dc"):
                    ctx.count("ucge dont_carry levels")
            op = {"op": "run", "cls": cls_name, "n": n, "t": t, "preserve": bool(preserve),
                  "vre": [fbits(np.real(a)) for a in v], "vim": [fbits(np.imag(a)) for a in v],
                  "diags": [{"re": [fbits(np.real(a)) for a in lv["diag"]], "im": [fbits(np.imag(a)) for a in lv["diag"]]}
                            for lv in levels]}
            ctx.tie(op, impl_lines(cls_name, preserve, levels), label=key)
    if not do_oracle:
        return
    u = Operator(g.definition).data
    err = float(np.abs(u[:, t] - v).max())
    if err > tol:
        ctx.fail(key, f"column {t} of Operator(definition) differs from the vector by {err:.3e}", dict(rep, observed_err=err))
        return
    if preserve and not np.any(v[:t]):       # both classes (UCGE: F-C12-2, the preserved block comes out of the full multiplexer)
        for j in range(t):
            col = u[:, j].copy()
            ph = col[j]
            col[j] = 0
            e2 = max(float(np.abs(col).max()), abs(abs(ph) - 1))
            if e2 > 1e-7:
                ctx.fail(f"{cls_name}:preserve:{fam}:n={n}:t={t}:j={j}:{h:x}",
                         f"basis state {j} < t={t} is not mapped to itself up to a phase (deviation {e2:.3e})",
                         dict(rep, column=j, observed_err=e2))
                return
        ctx.count("preserve columns checked", t)
    ctx.ok(key, nontrivial=n >= 2, sample={"cls": cls_name, "n": n, "t": t, "preserve": bool(preserve), "family": fam, "err": err})
    return levels


# ------------------------------------------------------------------------------------------------
# boundary-value cases
# ------------------------------------------------------------------------------------------------

def _dense(r, N):
    return r.uniform(0.3, 1.0, size=N) * np.exp(1j * r.uniform(0, 2 * np.pi, size=N))


def child_boundary_cases(ctx, r):
    """ucg.py:179 `parent != 0`, :182 `amp_ket0 != 0`, :203/:224 `target == '0'`, :116 `mux[r_gate]`: at every
    tree level L the |0> child, the |1> child or both children of a sibling pair are exactly 0 / 1e-12 / 1e-3
    relative to the rest; the pair is the one pulled out by preserve_previous (index r_gate) or another one;
    t = 0, 2^(n-1), 2^n - 1 give both values of the target bit at every level.  Child c of tree level L is the
    block [c*B, (c+1)*B) of the vector, B = 2^(n-L)."""
    for n in (1, 2, 3, 4):
        N = 2 ** n
        ts = sorted({0, N // 2, N - 1}) if n <= 3 else [0, N - 1]
        eps_list = [("0", 0.0), ("1e-12", 1e-12), ("1e-3", 1e-3)] if n <= 3 else [("0", 0.0)]
        for t in ts:
            for L in range(1, n + 1):
                npairs, B = 2 ** (L - 1), 2 ** (n - L)
                rg = t >> (n - L + 1)
                other = 0 if rg != 0 else npairs - 1
                pairs = [("rgate", rg)] + ([("other", other)] if other != rg else [])
                for pname, k in pairs:
                    for which in ("ket0", "ket1", "both"):
                        for tag, eps in eps_list:
                            if which == "both" and npairs == 1:
                                continue
                            v = _dense(r, N)
                            lo = (2 * k + (1 if which == "ket1" else 0)) * B
                            hi = (2 * k + (1 if which == "ket0" else 2)) * B
                            v[lo:hi] *= eps
                            yield n, t, L, v, f"bnd-child:L={L}:{pname}:{which}:{tag}", f"child:{which}:{tag}:{pname}"


# normalised pairs (cos th, sin th e^{i ph}); distinct letters are far apart (entries differ by > 0.05)
LETTERS = {"A": (0.7853981633974483, 0.0), "B": (0.9, -0.7), "C": (0.35, 1.9), "D": (1.2, 2.6), "E": (0.55, -2.2),
           "F": (1.05, 0.8), "G": (0.2, -1.3), "H": (1.4, 1.1)}
# second letter `a` = A shifted by delta in theta: entrywise |a - A| = 0.707 delta against the allclose threshold
# 1e-8 + 1e-5 * 0.707 = 7.08e-6
NEAR = {"a9": 1e-9, "a6": 3e-6, "a5": 3e-5}
PATTERNS = {
    2: ["AA", "AB", "A a9", "A a6", "A a5"],
    3: ["AAAA", "AABB", "ABAB", "AABC", "ABAC", "ABCD", "ABCA", "A a6 B B", "A a5 B B", "A B a6 B", "A B a5 B"],
    4: ["AAAAAAAA", "ABABABAB", "AABBAABB", "AAAABBBB", "ABCDABCD", "AABBCCDD", "AABBAABC", "ABCDABCE", "ABCABCDE",
        "ABCAEFGH", "ABCDEFGH"],
}


def pattern_vector(r, pat):
    toks = pat.split() if " " in pat else list(pat)
    v = []
    for tok in toks:
        th, ph = LETTERS["A"] if tok in NEAR else LETTERS[tok]
        th += NEAR.get(tok, 0.0)
        w = r.uniform(0.5, 1.0)
        v += [w * np.cos(th), w * np.sin(th) * np.exp(1j * ph)]
    return np.array(v, dtype=complex)


def ucge_pattern_cases(ctx, r):
    """ucge.py:39 `range(1, len(mux)//2 + 1)`, :42 `log2(d).is_integer() and allclose(mux[i], mux[0])` (each conjunct
    alone: ABCABCDE has mux[3] == mux[0] with d = 3; ABCD.. has d a power of two and different entries), :28-33
    verification failing on the first / a later element / the last repetition (restore of mux_cpy at :51),
    :53 `repetitions == 0`, :120 `len(mux) > 1`, ucg.py:104 `len(mux) != 1` after simplification (AAAA..), and
    np.allclose itself (entries 1e-9 / 0.4 / 4 thresholds apart) - on the first level's multiplexer of 2, 4, 8 entries."""
    for n, pats in PATTERNS.items():
        for pat in pats:
            for t in sorted({0, 1, 2 ** n - 1}):
                yield n, t, pattern_vector(r, pat), "bnd-mux:" + pat.replace(" ", "_"), pat


def allclose_merge_probe(ctx):
    """FINDING (precision): two sibling pairs whose 2x2 operators are within np.allclose (rtol 1e-5, atol 1e-8) of each
    other are merged - by ucge._repetition_search for UCGEInitialize and by qiskit's UCGate._simplify for the plain
    UCGInitialize as well - so the prepared state is off by up to ~1e-5, far above float noise.  Fixed input:
    v = (cos a, sin a, cos(a+d), sin(a+d))/sqrt 2, a = pi/4, d = 3e-6."""
    from qiskit.quantum_info import Statevector
    a, d = np.pi / 4, 3e-6
    v = np.array([np.cos(a), np.sin(a), np.cos(a + d), np.sin(a + d)], dtype=complex) / np.sqrt(2)
    for cls_name in ("ucg", "ucge"):
        key = f"{cls_name}:col:allclose-merge:n=2:t=0:delta=3e-6"
        rep = {"call": cls_name, "n": 2, "t": 0, "preserve": False, "family": "allclose-merge", "vector": vec_payload(v)}
        try:
            sv = Statevector(get_class(cls_name)(v).definition).data
        except Exception as e:
            ctx.fail(key + ":raises", f"{type(e).__name__}: {e}", rep)
            continue
        err = float(np.abs(sv - v).max())
        ctx.count("boundary:allclose:finding-probe")
        if err > 1e-7:
            ctx.fail(key, f"prepared state differs from the vector by {err:.3e}: sibling pairs 3e-6 apart are merged by "
                          f"np.allclose ({'ucge._repetition_search' if cls_name == 'ucge' else 'qiskit UCGate._simplify'})",
                     dict(rep, observed_err=err))
        else:
            ctx.ok(key, sample={"cls": cls_name, "err": err})


def boundary_run(ctx, r):
    allclose_merge_probe(ctx)
    ctx.notes.append("boundary cases: children of a sibling pair are exactly 0, 1e-12 or 1e-3 relative to the rest (the code's "
                     "tests are exact `!= 0`; (0, 1e-12) is not sampled); UCGE multiplexer entries are equal, 1e-9 apart, or "
                     "0.4x / 4x the np.allclose threshold apart - the band (0.5x, 2x) is excluded from the tie; where "
                     "allclose merges entries 3e-6 apart the prepared state is legitimately ~1e-6 off, the oracle tolerance "
                     "is 1e-4 there")
    for n, t, L, v, fam, counter in child_boundary_cases(ctx, r):
        v = v / np.linalg.norm(v)
        for cls_name, preserve in (("ucg", False), ("ucge", False), ("ucg", True), ("ucge", True)):
            w = v
            if preserve:
                # preserve_previous is stated for vectors supported on indices >= t
                w = v.copy()
                w[:t] = 0
                if not np.any(w):
                    continue
                w = w / np.linalg.norm(w)
            lv = one_case(ctx, cls_name, n, t, preserve, fam, w)
            if lv is not None:
                ctx.count(f"boundary:{counter}")
                bit = lv[n - L]["bit"]
                ctx.count(f"boundary:child:level={'first' if L == n else 'last' if L == 1 else 'mid'}:bit={bit}")
                if preserve:
                    q = lv[n - L]["target"]
                    ctx.count("boundary:preserve:ctrl_state-" + ("complete(target=n-1)" if q == n - 1 else
                                                                "padded(target=n-2)" if q == n - 2 else "padded"))
    for n, t, v, fam, pat in ucge_pattern_cases(ctx, r):
        v = v / np.linalg.norm(v)
        # entries 0.4x the allclose threshold apart are merged by ucge._repetition_search AND by qiskit's own
        # UCGate._simplify (plain class too): the state is then ~1e-6 off by construction
        # (one_case widens its tolerance to 1e-4 by itself when it sees such entries: merge_band)
        lv = one_case(ctx, "ucge", n, t, False, fam, v)
        one_case(ctx, "ucg", n, t, False, fam, v)
        if lv is not None:
            dc = lv[0].get("dc", [])
            ctx.count(f"boundary:ucge-pattern:entries={2 ** (n - 1)}:dont_carry={len(dc)}:kept={len(lv[0].get('kept', []))}")
            for tok, nm in (("a9", "1e-9(atol)"), ("a6", "0.4x-threshold"), ("a5", "4x-threshold")):
                if tok in pat:
                    ctx.count(f"boundary:allclose:{nm}:{'merged' if dc else 'kept-apart'}")
            if pat in ("ABCABCDE", "ABCAEFGH", "ABCA"):
                ctx.count("boundary:ucge:equal-entry-at-non-power-of-two-distance")
            if pat in ("AABC", "AABBAABC", "ABCDABCE", "ABAC"):
                ctx.count("boundary:ucge:verification-fails-late(restore)")


UNREACHED_JUSTIFIED = {}   # after entry_forms() every statement and branch of ucg.py / ucge.py is reached in the quick tier


def entry_case(ctx, cls_name, n, t, preserve, fam, v, form, wires=None):
    """The same property (column t of the operator = v) through the other entry paths of ucg.py / ucge.py:
    opt_params=None (t = 0), a label, list params, the static `initialize` with qubits=None and with an explicit
    permuted wire list on a wider host circuit."""
    from qiskit import QuantumCircuit
    from qiskit.quantum_info import Operator
    cls = get_class(cls_name)
    opt = {"target_state": int(t), "preserve_previous": bool(preserve)}
    key = f"{cls_name}:entry:{form}:{fam}:n={n}:t={t}:pres={int(preserve)}"
    rep = {"call": cls_name, "n": n, "t": t, "preserve": bool(preserve), "family": fam, "vector": vec_payload(v),
           "form": form, "wires": wires}
    try:
        if form == "opt-none":
            circ, wires = cls(np.array(v)).definition, list(range(n))
        elif form == "label":
            circ, wires = cls(np.array(v), label="psi", opt_params=opt).definition, list(range(n))
        elif form == "list":
            circ, wires = cls([complex(a) for a in v], opt_params=opt).definition, list(range(n))
        elif form == "static":
            circ, wires = QuantumCircuit(n), list(range(n))
            cls.initialize(circ, np.array(v), opt_params=opt)
        elif form == "static-qubits":
            circ = QuantumCircuit(n + 1)
            cls.initialize(circ, np.array(v), qubits=list(wires), opt_params=opt)
        else:
            raise ValueError(form)
    except Exception as e:
        ctx.fail(key + ":raises", f"{type(e).__name__}: {e}", rep)
        return
    ctx.count(f"branch:entry-form:{cls_name}:{form}")
    u = Operator(circ).data

    def embed(x):
        return sum(((x >> k) & 1) << wires[k] for k in range(n))
    want = np.zeros(u.shape[0], dtype=complex)
    for x in range(2 ** n):
        want[embed(x)] = v[x]
    err = float(np.abs(u[:, embed(t)] - want).max())
    if err > 1e-7:
        ctx.fail(key, f"column of |t={t}> (on wires {wires}) differs from the vector by {err:.3e}", dict(rep, observed_err=err))
    else:
        ctx.ok(key, nontrivial=n >= 2, sample={"cls": cls_name, "n": n, "t": t, "form": form, "err": err})


def entry_forms(ctx):
    r = ctx.nprng()
    pr = ctx.rng
    for n in (1, 2, 3):
        for cls_name in ("ucg", "ucge"):
            fam = pr.choice(["complex", "zeros", "product", "real"])
            v, _ = make_vector(r, n, 0, fam)
            entry_case(ctx, cls_name, n, 0, False, fam, v, "opt-none")
            for form in ("label", "list", "static", "static-qubits"):
                t = pr.randrange(2 ** n)
                preserve = cls_name == "ucg" and pr.random() < 0.5
                fam = pr.choice(["complex", "zeros", "product", "supp"])
                v, _ = make_vector(r, n, t, fam)
                wires = pr.sample(range(n + 1), n) if form == "static-qubits" else None
                entry_case(ctx, cls_name, n, t, preserve, fam, v, form, wires)


def regression_probes(ctx):
    """the carried-diagonal defect of UCGEInitialize._apply_diagonal (fixed in /repo): product states whose
    simplification keeps an asymmetric set of controls."""
    from qiskit.quantum_info import Statevector
    probes = {
        "n3-default": np.array([3, 3, -3, -3, 4, 4, -4, -4]) / 10,
        "n3-entangled": np.array([3, -3, 3, 6, 4, -4, 4, 8.0]) / np.sqrt(175),
        "n4-middle": np.kron(np.kron([0.6, 0.8], np.array([1, 2, 2, -1]) / np.sqrt(10)), [0.6, 0.8]),
    }
    for name, v in probes.items():
        key = f"ucge:col:carried-diagonal:regression:{name}"
        try:
            sv = Statevector(get_class("ucge")(v).definition).data
        except Exception as e:
            ctx.fail(key, f"raised {e!r}", {"call": "UCGEInitialize(v).definition", "vector": vec_payload(v)})
            continue
        err = float(np.abs(sv - v).max())
        if err > 1e-7:
            ctx.fail(key, f"Statevector(UCGEInitialize(v).definition) differs from v by {err:.3e} (default options)",
                     {"call": "ucge", "n": int(np.log2(len(v))), "t": 0, "preserve": False, "family": "regression",
                      "vector": vec_payload(v), "observed_err": err})
        else:
            ctx.ok(key, sample={"probe": name, "err": err})


def string_tables(ctx, nmax):
    """str_target / ctrl_state / wires of the model for every (n, t) against the Python expressions
    of ucg.py evaluated literally."""
    for n in range(1, nmax + 1):
        for t in range(2 ** n):
            st = bin(t)[2:].zfill(n)[::-1]
            lines = [f"str ; s{st}"]
            r_gate = t // 2
            for target in range(n):
                mult_controls = list(range(target + 1, n))
                wires = list(range(0, target)) + list(range(target + 1, n))
                cs = st[0:target][::-1]
                if len(cs) < n - 1:
                    cs = bin(r_gate)[2:].zfill(len(mult_controls)) + cs
                lines.append(f"cs {target} {r_gate} {' '.join(map(str, wires))} ; s{cs}")
                r_gate //= 2
            ctx.tie({"op": "strs", "n": n, "t": t}, lines)


# ------------------------------------------------------------------------------------------------
# input-diversity section (forms of otherwise ordinary inputs): element types, scale structure,
# sign / phase structure, call forms, sizes.  Every case is a JSON recipe `div` + (cls, n, t, preserve, v);
# `_diversity_case` executes a recipe (run and replay use the same code).  The ideal is always the
# harness's own reading of the ORIGINAL input: np.asarray(raw, dtype=complex) and the (t, preserve)
# the options stand for.
# ------------------------------------------------------------------------------------------------

DFORMS = ("c128", "c64", "f64", "f32", "list", "tuple", "list-float", "list-npc64", "list-npc128", "list-npf32",
          "list-npf64", "list-mixed", "int-list", "i64", "i32", "c128-negzero", "f64-negzero")
OFORMS_T0 = ("omitted", "none", "empty", "nones", "pres-false-only", "positional-none")
OFORMS_T = ("t-only", "t+pres-none", "full", "full-positional", "t-int64", "t-int32", "t-uint8", "pres-npbool",
            "pres-int", "extra-key")


def _div_raw(v, dform):
    """the raw user input of form `dform` whose complex reading is exactly v (None if v has no such form)."""
    v = np.asarray(v, dtype=complex)
    real = not np.any(v.imag)
    integral = real and bool(np.all(v.real == np.round(v.real)))

    def neg0(x):
        return -0.0 if x == 0 else float(x)
    raw = None
    if dform == "c128":
        raw = np.array(v, dtype=np.complex128)
    elif dform == "c64":
        raw = v.astype(np.complex64)
    elif dform == "f64" and real:
        raw = np.array(v.real, dtype=np.float64)
    elif dform == "f32" and real:
        raw = v.real.astype(np.float32)
    elif dform == "list":
        raw = [complex(a) for a in v]
    elif dform == "tuple":
        raw = tuple(complex(a) for a in v)
    elif dform == "list-float" and real:
        raw = [float(a.real) for a in v]
    elif dform == "list-npc64":
        raw = [np.complex64(a) for a in v]
    elif dform == "list-npc128":
        raw = [np.complex128(a) for a in v]
    elif dform == "list-npf32" and real:
        raw = [np.float32(a.real) for a in v]
    elif dform == "list-npf64" and real:
        raw = [np.float64(a.real) for a in v]
    elif dform == "list-mixed":
        raw = [int(a.real) if (a.imag == 0 and a.real == round(a.real)) else float(a.real) if a.imag == 0 else complex(a)
               for a in v]
    elif dform == "int-list" and integral:
        raw = [int(a.real) for a in v]
    elif dform == "i64" and integral:
        raw = np.array(v.real, dtype=np.int64)
    elif dform == "i32" and integral:
        raw = np.array(v.real, dtype=np.int32)
    elif dform == "c128-negzero":
        raw = np.array([complex(neg0(a.real), neg0(a.imag)) for a in v], dtype=np.complex128)
    elif dform == "f64-negzero" and real:
        raw = np.array([neg0(a.real) for a in v], dtype=np.float64)
    if raw is None:
        return None
    back = np.asarray(raw, dtype=complex)
    if back.shape != v.shape or not np.array_equal(back, v):
        return None      # not exactly representable in that element type (float32 / complex64 of a non-dyadic value)
    return raw


def _div_opt(oform, t, preserve):
    """(positional args after the vector, keyword args, t the options stand for, preserve they stand for)"""
    t, preserve = int(t), bool(preserve)
    if oform == "omitted":
        return (), {}, 0, False
    if oform == "none":
        return (), {"opt_params": None}, 0, False
    if oform == "positional-none":
        return (None, None), {}, 0, False
    if oform == "empty":
        return (), {"opt_params": {}}, 0, False
    if oform == "nones":
        return (), {"opt_params": {"target_state": None, "preserve_previous": None}}, 0, False
    if oform == "pres-false-only":
        return (), {"opt_params": {"preserve_previous": False}}, 0, False
    if oform == "pres-only":
        return (), {"opt_params": {"preserve_previous": True}}, 0, True
    if oform == "t-only":
        return (), {"opt_params": {"target_state": t}}, t, False
    if oform == "t+pres-none":
        return (), {"opt_params": {"target_state": t, "preserve_previous": None}}, t, False
    if oform == "full":
        return (), {"opt_params": {"target_state": t, "preserve_previous": preserve}}, t, preserve
    if oform == "full-positional":
        return ("lbl", {"preserve_previous": preserve, "target_state": t}), {}, t, preserve
    if oform == "t-int64":
        return (), {"opt_params": {"target_state": np.int64(t), "preserve_previous": preserve}}, t, preserve
    if oform == "t-int32":
        return (), {"opt_params": {"target_state": np.int32(t), "preserve_previous": preserve}}, t, preserve
    if oform == "t-uint8":
        return (), {"opt_params": {"target_state": np.uint8(t), "preserve_previous": preserve}}, t, preserve
    if oform == "pres-npbool":
        return (), {"opt_params": {"target_state": t, "preserve_previous": np.bool_(preserve)}}, t, preserve
    if oform == "pres-int":
        return (), {"opt_params": {"target_state": t, "preserve_previous": int(preserve)}}, t, preserve
    if oform == "extra-key":
        return (), {"opt_params": {"target_state": t, "preserve_previous": preserve, "lr": 0, "iso_scheme": "ccd"}}, t, preserve
    raise ValueError(oform)


def _div_embed(x, wires):
    return sum(((x >> k) & 1) << wires[k] for k in range(len(wires)))


def _div_check_circuit(ctx, key, rep, circ, wires, v, t, preserve, spare_masks=(0,)):
    """observable of the property on a host circuit: the column of |t> placed on `wires` (little endian: bit k of t on
    wires[k]) is v placed on the same wires, for every listed setting of the spare wires; with preserve and support
    on indices >= t every |j>, j < t, is mapped to itself up to a phase."""
    from qiskit.quantum_info import Operator
    n = len(wires)
    u = Operator(circ).data
    dim = u.shape[0]
    spare = [q for q in range(circ.num_qubits) if q not in wires]
    for sm in spare_masks:
        off = sum(1 << q for i, q in enumerate(spare) if (sm >> i) & 1) if sm >= 0 else sum(1 << q for q in spare)
        want = np.zeros(dim, dtype=complex)
        for x in range(2 ** n):
            want[_div_embed(x, wires) + off] = v[x]
        err = float(np.abs(u[:, _div_embed(t, wires) + off] - want).max())
        if err > 1e-7:
            ctx.fail(key, f"column of |t={t}> on wires {wires} (spare wires offset {off}) differs from the vector by {err:.3e}",
                     dict(rep, observed_err=err))
            return False
        if preserve and not np.any(v[:t]):
            for j in range(t):
                col = u[:, _div_embed(j, wires) + off].copy()
                ph = col[_div_embed(j, wires) + off]
                col[_div_embed(j, wires) + off] = 0
                e2 = max(float(np.abs(col).max()), abs(abs(ph) - 1))
                if e2 > 1e-7:
                    ctx.fail(key + f":preserve:j={j}", f"basis state {j} < t={t} (wires {wires}, offset {off}) is not mapped to "
                             f"itself up to a phase (deviation {e2:.3e})", dict(rep, column=j, observed_err=e2))
                    return False
            ctx.count("diversity:preserve-columns-checked", t)
    return True


def _div_wires(pr, n, host):
    """n distinct wires of a host of `host` qubits, never in ascending order for n >= 2; for n = 1 never wire 0."""
    while True:
        w = pr.sample(range(host), n)
        if (n >= 2 and w != sorted(w)) or (n == 1 and w[0] != 0):
            return w


def _diversity_case(ctx, cls_name, n, t, preserve, v, div, fam, do_tie=True):
    """executes one recipe.  div = {"gform": how the gate is used, "dform": element form of the vector,
    "oform": form of the options, + per-gform fields}.  (t, preserve) are REQUESTED values; the option form decides
    what the library is told and therefore what it has to deliver (e.g. oform 'none' stands for t = 0)."""
    from qiskit import QuantumCircuit, QuantumRegister
    import copy as _copy
    cls = get_class(cls_name)
    v = np.asarray(v, dtype=complex)
    gform, dform, oform = div.get("gform", "ctor"), div.get("dform", "c128"), div.get("oform", "full")
    raw = _div_raw(v, dform)
    if raw is None:
        ctx.count(f"diversity:skipped:{dform}:not-representable")
        return None
    v = np.asarray(raw, dtype=complex)           # the harness's own reading of the user input
    pargs, kwargs, t, preserve = _div_opt(oform, t, preserve)
    h = zlib.crc32(v.tobytes()) & 0xffffff
    key = f"{cls_name}:div:{fam}:{gform}:{dform}:{oform}:n={n}:t={t}:pres={int(preserve)}:{h:x}"
    ctx.count(f"diversity:gform:{gform}")
    ctx.count(f"diversity:dform:{dform}")
    ctx.count(f"diversity:oform:{oform}")
    ctx.count("diversity:family:" + fam.split(":")[0])
    ctx.count(f"diversity:n={n}:{cls_name}:pres={int(preserve)}")
    if gform == "ctor":
        return one_case(ctx, cls_name, n, t, preserve, "div:" + fam + ":" + dform + ":" + oform, v, do_tie=do_tie, key=key,
                        build=lambda c: c(raw, *pargs, **kwargs), div=div)

    rep = {"call": cls_name, "n": n, "t": t, "preserve": bool(preserve), "family": fam, "vector": vec_payload(v), "div": div}
    opt = kwargs.get("opt_params", pargs[1] if len(pargs) > 1 else None)
    try:
        if gform == "static":
            qform, wires, host = div["qform"], list(div.get("wires") or range(n)), int(div.get("host", n))
            kw = {} if oform == "omitted" else {"opt_params": opt}
            if qform == "none":
                circ, wires = QuantumCircuit(n), list(range(n))
                cls.initialize(circ, raw, **kw)
            elif qform == "none-explicit":
                circ, wires = QuantumCircuit(n), list(range(n))
                cls.initialize(circ, raw, qubits=None, **kw)
            elif qform == "none-2regs":
                a = max(1, n // 2) if n > 1 else 1
                circ = QuantumCircuit(QuantumRegister(a, "a"), QuantumRegister(n - a, "b")) if n > 1 else \
                    QuantumCircuit(QuantumRegister(1, "a"))
                wires = list(range(n))
                cls.initialize(circ, raw, **kw)
            elif qform == "ints":
                circ = QuantumCircuit(host)
                cls.initialize(circ, raw, qubits=list(wires), **kw)
            elif qform == "ints-positional":
                circ = QuantumCircuit(host)
                cls.initialize(circ, raw, list(wires), opt)
            elif qform == "tuple-ints":
                circ = QuantumCircuit(host)
                cls.initialize(circ, raw, qubits=tuple(wires), **kw)
            elif qform == "qubits":
                circ = QuantumCircuit(host)
                cls.initialize(circ, raw, qubits=[circ.qubits[w] for w in wires], **kw)
            elif qform == "regs":
                a = host // 2
                ra, rb = QuantumRegister(a, "a"), QuantumRegister(host - a, "b")
                circ = QuantumCircuit(rb, ra)     # register order differs from the alphabetical one
                cls.initialize(circ, raw, qubits=[circ.qubits[w] for w in wires], **kw)
            else:
                raise ValueError(qform)
            ok = _div_check_circuit(ctx, key + f":q={qform}:w={''.join(map(str, wires))}", rep, circ, wires, v, t, preserve,
                                    spare_masks=(0, -1))
            ctx.count(f"diversity:static:{cls_name}:{qform}")
            if ok:
                ctx.ok(key + f":q={qform}:w={''.join(map(str, wires))}", nontrivial=n >= 2,
                       sample={"cls": cls_name, "n": n, "t": t, "div": div})
            return ok

        if gform == "reuse-dict":
            # ONE options dict object for two constructions, contents changed in between and again afterwards
            # (before any definition is built); both gates must follow the contents at THEIR construction time
            t_a = int(div["t_other"])
            d = {"target_state": t_a, "preserve_previous": False}
            d0 = dict(d)
            g_a = cls(raw, opt_params=d)
            if d != d0:
                ctx.fail(key + ":options-dict-modified", f"constructing {cls_name} changed the caller's options dict from {d0} to {d}",
                         dict(rep, before=str(d0), after=str(d)))
                return False
            # the SAME, untouched dict object for another construction (nothing re-assigned in between)
            g_a2 = cls(raw, opt_params=d)
            if not _div_check_circuit(ctx, key + f":same-dict-again:t={t_a}", rep, g_a2.definition, list(range(n)), v, t_a, False):
                return False
            # ... and with both options away from their defaults
            d2 = {"target_state": t, "preserve_previous": bool(preserve)}
            g_p = cls(raw, opt_params=d2)
            g_p2 = cls(raw, opt_params=d2)
            if d2 != {"target_state": t, "preserve_previous": bool(preserve)}:
                ctx.fail(key + ":options-dict-modified", f"constructing {cls_name} changed the caller's options dict to {d2}", rep)
                return False
            if not _div_check_circuit(ctx, key + ":same-dict-again:second", rep, g_p2.definition, list(range(n)), v, t, preserve):
                return False
            d["target_state"] = t
            d["preserve_previous"] = preserve
            g_b = cls(raw, opt_params=d)
            d["target_state"] = int(div.get("t_after", 0))
            d["preserve_previous"] = not preserve
            first = (g_a, g_b) if div.get("order", "ab") == "ab" else (g_b, g_a)
            defs = {id(g): g.definition for g in first}
            ok = _div_check_circuit(ctx, key + ":second", rep, defs[id(g_b)], list(range(n)), v, t, preserve)
            ok = _div_check_circuit(ctx, key + f":first:t={t_a}", rep, defs[id(g_a)], list(range(n)), v, t_a, False) and ok
            # a later construction without options must not inherit anything
            g_c = cls(raw)
            ok = _div_check_circuit(ctx, key + ":then-none", rep, g_c.definition, list(range(n)), v, 0, False) and ok
            if ok:
                ctx.ok(key, nontrivial=n >= 2, sample={"cls": cls_name, "n": n, "t": t, "div": div})
            return ok

        g = cls(raw, *pargs, **kwargs)
        wires = list(range(n))
        checks = []        # (suffix, circuit, wires, vector, t, preserve)
        if gform == "append-twice":
            # the SAME gate object on two disjoint wire sets of one host: |t>|t> -> v (x) v
            w1, w2 = list(div["wires"][:n]), list(div["wires"][n:])
            circ = QuantumCircuit(2 * n)
            circ.append(g, w1)
            circ.append(g, w2)
            vv = np.zeros(4 ** n, dtype=complex)
            for x in range(2 ** n):
                for y in range(2 ** n):
                    vv[x + (y << n)] = v[x] * v[y]
            checks.append(("", circ, w1 + w2, vv, t + (t << n), False))
        elif gform == "append-decompose":
            circ = QuantumCircuit(n + 1)
            w = list(div["wires"])
            circ.append(g, w)
            checks.append(("", circ.decompose(), w, v, t, preserve))
        elif gform == "copy-before-definition":
            g2 = g.copy()
            d2 = g2.definition
            d1 = g.definition
            checks += [(":copy", d2, wires, v, t, preserve), (":orig", d1, wires, v, t, preserve)]
        elif gform == "copy-after-definition":
            d1 = g.definition
            g2 = g.copy()
            g3 = _copy.deepcopy(g)
            g4 = g.to_mutable()
            checks += [(":orig", d1, wires, v, t, preserve), (":copy", g2.definition, wires, v, t, preserve),
                       (":deepcopy", g3.definition, wires, v, t, preserve), (":mutable", g4.definition, wires, v, t, preserve)]
        elif gform == "rebuild":
            # the definition is built twice from the same object (Instruction._define is what qiskit calls whenever
            # the cached definition is absent, e.g. on a copy taken before the first access)
            d1 = g.definition
            g._define()
            d2 = g.definition
            g2 = g.copy()
            g2._define()
            checks += [(":first", d1, wires, v, t, preserve), (":second", d2, wires, v, t, preserve),
                       (":copy-rebuilt", g2.definition, wires, v, t, preserve), (":orig-after", g.definition, wires, v, t, preserve)]
        elif gform == "inverse":
            gi = g.inverse()
            from qiskit.quantum_info import Operator
            ui = Operator(gi.definition).data
            e = np.zeros(2 ** n, dtype=complex)
            e[t] = 1
            err = float(np.abs(ui @ v - e).max())
            if err > 1e-7:
                ctx.fail(key, f"inverse() gate maps the vector to something {err:.3e} away from |t={t}>", dict(rep, observed_err=err))
                return False
            checks.append((":orig-after-inverse", g.definition, wires, v, t, preserve))
        else:
            raise ValueError(gform)
    except Exception as e:
        ctx.fail(key + f":raises:{type(e).__name__}", f"{type(e).__name__}: {e}", rep)
        return False
    ok = True
    for suffix, circ, w, vec, tt, pp in checks:
        ok = _div_check_circuit(ctx, key + suffix, rep, circ, w, vec, tt, pp) and ok
    if ok:
        ctx.ok(key, nontrivial=n >= 2, sample={"cls": cls_name, "n": n, "t": t, "div": div})
    return ok


def _norm(v):
    v = np.asarray(v, dtype=complex)
    return v / np.linalg.norm(v)


def _div_t_list(n):
    N = 2 ** n
    return sorted({0, 1, N // 2 - 1, N // 2, N - 1} & set(range(N)))


def _div_dyadic(pr, n, kind):
    """exactly normalised vectors with dyadic moduli (exact in float32 / complex64) and phases +-1 (kind 'real')
    or +-1, +-i ('complex'); 'basis': a single +-1 / +-i entry (integer forms)."""
    N = 2 ** n
    pools = {1: [[1, 0]], 2: [[.5, .5, .5, .5], [.5, .5, .5, .5], [1, 0, 0, 0]],
             3: [[.5, .5, .5, .25, .25, .25, .25, 0], [.75] + [.25] * 7, [.5, .5, .5, .5, 0, 0, 0, 0], [.5, .5, 0, .5, 0, 0, .5, 0]],
             4: [[.25] * 16, [.5, .5, .5] + [.25] * 4 + [0] * 9, [.75] + [.25] * 7 + [0] * 8]}
    if kind == "basis":
        m = [0.0] * N
        m[pr.randrange(N)] = 1.0
    else:
        m = list(pr.choice(pools[n]))
        pr.shuffle(m)
    ph = [1, -1] if kind in ("real", "basis") else [1, -1, 1j, -1j]
    v = np.array([a * pr.choice(ph) for a in m], dtype=complex)
    if kind != "basis" and len([a for a in v if a != 0]) > 1 and not any(a.real < 0 or a.imag != 0 for a in v):
        k = [i for i, a in enumerate(v) if a != 0][-1]
        v[k] = -v[k]                  # at least one negative entry
    return v


def _diversity_element_types(ctx, pr, r):
    """family 1: every element form x class configuration x n = 1, 2, 3 (+ n = 4 for the array dtypes), constructor
    form with the full dict (tie + oracle); vectors with dyadic moduli so that float32 / complex64 hold them exactly;
    zeros and negative entries present; zeros moved in front of t for the preserve configuration."""
    for n in (1, 2, 3, 4):
        N = 2 ** n
        forms = DFORMS if n <= 3 else ("c64", "f32", "list-mixed", "tuple", "f64-negzero")
        for dform in forms:
            integral = dform in ("int-list", "i64", "i32")
            realform = dform in ("f64", "f32", "list-float", "list-npf32", "list-npf64", "f64-negzero")
            kind = "basis" if integral or n == 1 else "real" if realform else "complex"
            for cls_name, preserve in (("ucg", False), ("ucge", False), ("ucg", True), ("ucge", True)):
                v = _div_dyadic(pr, n, kind)
                if n == 1 and dform in ("c128", "c64", "list", "tuple", "list-npc64", "list-npc128", "list-mixed", "c128-negzero"):
                    v = v * pr.choice([1j, -1j, -1])
                if preserve:
                    nz = [i for i, a in enumerate(v) if a != 0]
                    # zeros first: the support then starts at index t = number of zeros (or below)
                    order = [i for i in range(N) if v[i] == 0] + nz
                    v = v[order]
                    first = N - len(nz)
                    t = pr.choice([first, max(first - 1, 0)]) if first > 0 else 0
                else:
                    t = pr.choice(_div_t_list(n))
                _diversity_case(ctx, cls_name, n, t, preserve, v, {"gform": "ctor", "dform": dform, "oform": "full"},
                                "types", do_tie=n <= 3)
                ctx.count(f"diversity:element-type:{dform}")


def _diversity_scale(ctx, pr, r):
    """family 2: heavy head + light tail (tail 1e-3 / 1e-4 / 1e-6 / mixed, head on t / first / last index, tail before
    and after t), two heavy heads, all-equal moduli with phases +-1 +-i, exactly repeated values, all-negative reals,
    purely imaginary, sparse (2 non-zeros), the whole norm in one quarter sub-tree."""
    def ph(N, kind="generic"):
        if kind == "generic":
            return np.exp(1j * r.uniform(0, 2 * np.pi, size=N))
        return r.choice([1, -1, 1j, -1j], size=N)
    for n in (1, 2, 3, 4):
        N = 2 ** n
        ts = _div_t_list(n) if n <= 3 else [1, N // 2 - 1, N - 1]
        for t in ts:
            cases = []
            for tail, tname in ((1e-3, "1e-3"), (1e-4, "1e-4"), (1e-6, "1e-6"), (None, "mixed")):
                if n == 1 or (n == 4 and tname in ("1e-3", "1e-4")):
                    continue
                mags = np.full(N, tail) if tail else 10.0 ** r.uniform(-6, -3, size=N)
                mags = mags * r.uniform(0.5, 1.0, size=N)
                for head in pr.sample(["t", "first", "last", "two"], 2):
                    v = mags * ph(N)
                    hs = {"t": [t], "first": [0], "last": [N - 1], "two": sorted({t, (t + N // 2 + 1) % N})}[head]
                    for k in hs:
                        v[k] = r.uniform(0.6, 1.0) * np.exp(1j * r.uniform(0, 6.28))
                    cases.append((f"light-tail:{tname}:head-{head}", v))
            cases.append(("equal-moduli:pm1-pmi", ph(N, "units")))
            cases.append(("equal-moduli:pm1", r.choice([1.0, -1.0], size=N) + 0j))
            vals = r.uniform(0.3, 1.0, size=2) * np.array([1, -1])
            cases.append(("repeated-values", vals[r.integers(0, 2, size=N)] + 0j))
            cases.append(("all-negative", -r.uniform(0.2, 1.0, size=N) + 0j))
            cases.append(("purely-imaginary", 1j * r.uniform(0.2, 1.0, size=N) * r.choice([1, -1], size=N)))
            if n >= 2:
                sp = np.zeros(N, dtype=complex)
                idx = sorted({t, int(r.integers(N)), N - 1})[-2:] if t < N - 1 else [int(r.integers(N - 1)), N - 1]
                sp[idx] = r.uniform(0.3, 1.0, size=len(idx)) * ph(len(idx))
                cases.append(("sparse-2", sp))
                q = np.zeros(N, dtype=complex)
                b = (t // max(N // 4, 1)) * max(N // 4, 1)
                q[b:b + max(N // 4, 1)] = r.uniform(0.3, 1.0, size=max(N // 4, 1)) * ph(max(N // 4, 1))
                cases.append(("one-subtree", q))
            for name, v in cases:
                if n == 4 and pr.random() < 0.5:
                    continue
                v = _norm(v)
                for cls_name, preserve in (("ucg", False), ("ucge", False), ("ucg", True), ("ucge", True)):
                    w = v
                    if preserve:
                        w = v.copy()
                        w[:t] = 0
                        if not np.any(w):
                            continue
                        w = _norm(w)
                    lv = _diversity_case(ctx, cls_name, n, t, preserve, w, {"gform": "ctor", "dform": "c128", "oform": "full"},
                                         "scale:" + name, do_tie=n <= 3 and pr.random() < 0.5)
                    if lv is not None:
                        ctx.count("diversity:scale:" + name)


def _diversity_phase(ctx, pr, r):
    """family 3: at every tree level L and for both values of the target bit of that level, a sibling pair (the one
    pulled out by preserve_previous or another one) whose |0> child vanishes exactly while the |1> sibling block is
    phase x (positive | real with signs | complex) for phase 1, -1, i, -i, generic, the rest of the vector positive /
    real / complex; global phases -1, i, -i on positive and on real vectors; support {t} only and {2^n - 1} only
    with those phases; negative zeros (complex(-0.0, -0.0) entries, real parts with imaginary part -0.0)."""
    def block(kind, m):
        if kind == "pos":
            return r.uniform(0.3, 1.0, size=m) + 0j
        if kind == "real":
            return r.uniform(0.3, 1.0, size=m) * r.choice([-1.0, 1.0], size=m) + 0j
        return r.uniform(0.3, 1.0, size=m) * np.exp(1j * r.uniform(0, 2 * np.pi, size=m))
    phases = [("1", 1), ("-1", -1), ("i", 1j), ("-i", -1j), ("generic", None)]
    for n in (1, 2, 3, 4):
        N = 2 ** n
        for L in range(1, n + 1):
            npairs, B, q = 2 ** (L - 1), 2 ** (n - L), n - L
            for bit in (0, 1):
                for pname in ("rgate", "other"):
                    if pname == "other" and npairs == 1:
                        continue
                    for phname, phv in (phases if n <= 3 else phases[1:3]):
                        t = pr.randrange(N)
                        t = (t | (1 << q)) if bit else (t & ~(1 << q))
                        rg = t >> (q + 1)
                        k = rg if pname == "rgate" else pr.choice([x for x in range(npairs) if x != rg])
                        kind = pr.choice(["pos", "real", "complex"])
                        v = block(kind, N)
                        v[2 * k * B:(2 * k + 1) * B] = 0
                        z = phv if phv is not None else np.exp(1j * r.uniform(0.3, 6.0))
                        v[(2 * k + 1) * B:(2 * k + 2) * B] = z * block(pr.choice(["pos", kind]), B)
                        v = _norm(v)
                        cfgs = [("ucg", False), ("ucge", False), ("ucg", True), ("ucge", True)]
                        if n >= 3:
                            cfgs = cfgs[:2] + ([cfgs[2]] if pr.random() < 0.5 else []) if n == 3 else [pr.choice(cfgs[:2]), cfgs[2]]
                        for cls_name, preserve in cfgs:
                            w = v
                            if preserve:
                                w = v.copy()
                                w[:t] = 0
                                if not np.any(w):
                                    continue
                                w = _norm(w)
                            dform = pr.choice(["c128", "c128", "f64", "list", "c128-negzero"])
                            if dform == "f64" and np.any(w.imag):
                                dform = "c128"
                            lv = _diversity_case(ctx, cls_name, n, t, preserve, w,
                                                 {"gform": "ctor", "dform": dform, "oform": "full"},
                                                 f"zero-ket0:L={L}:bit={bit}:{pname}:ph={phname}", do_tie=n <= 3)
                            if lv is not None:
                                ctx.count(f"diversity:zero-ket0-sibling-phase:{phname}:bit={bit}:"
                                          f"level={'first' if L == n else 'last' if L == 1 else 'mid'}")
        # global phases, single-entry supports
        for t in (range(N) if n <= 2 else _div_t_list(n)):
            for gname, gph in (("-1", -1), ("i", 1j), ("-i", -1j)):
                for kind in (pr.choice(["pos", "real"]),):
                    v = _norm(gph * block(kind, N))
                    for cls_name, preserve in (("ucg", False), ("ucge", False), ("ucg", True), ("ucge", True)):
                        w = v
                        if preserve:
                            if t == 0 and n > 1:
                                continue
                            w = v.copy()
                            w[:t] = 0
                            w = _norm(w)
                        dform = "c128-negzero" if kind == "pos" else "c128"
                        if _diversity_case(ctx, cls_name, n, t, preserve, w, {"gform": "ctor", "dform": dform, "oform": "full"},
                                           f"global-phase:{gname}:{kind}", do_tie=n <= 3 and pr.random() < 0.5) is not None:
                            ctx.count(f"diversity:global-phase:{gname}")
            for sname, j in (("t", t), ("last", N - 1)):
                if sname == "last" and t == N - 1:
                    continue
                for phname, phv in phases:
                    if (n >= 2 and phname in ("1", "-i")) or (n == 4 and t not in (1, N - 1)):
                        continue
                    v = np.zeros(N, dtype=complex)
                    v[j] = phv if phv is not None else np.exp(1j * r.uniform(0.3, 6.0))
                    cfgs = [("ucg", False), ("ucge", False), ("ucg", True), ("ucge", True)]
                    for cls_name, preserve in (cfgs if n <= 1 else [pr.choice(cfgs[:2]), cfgs[2]]):
                        dform = pr.choice(["c128", "list-mixed", "c128-negzero", "tuple"])
                        if _diversity_case(ctx, cls_name, n, t, preserve, v, {"gform": "ctor", "dform": dform, "oform": "full"},
                                           f"support-{sname}:ph={phname}", do_tie=n <= 3 and pr.random() < 0.5) is not None:
                            ctx.count(f"diversity:support={{{sname}}}:ph={phname}")


def _div_kron_state(r, n, groups, kinds):
    """product over the wire groups; factor kinds: 'pos' positive, 'gph' e^{ia} x positive (one prefactor phase),
    'signs' real with internal signs, 'cplx' generic complex, 'm1' / 'i': (-1) / i x positive."""
    v = np.ones(2 ** n, dtype=complex)
    for g, kind in zip(groups, kinds):
        d = 2 ** len(g)
        s = r.uniform(0.3, 1.0, size=d) + 0j
        if kind == "gph":
            s = s * np.exp(1j * r.uniform(0.3, 6.0))
        elif kind == "m1":
            s = -s
        elif kind == "i":
            s = 1j * s
        elif kind == "signs":
            s = s * r.choice([-1.0, 1.0], size=d)
            s[0], s[-1] = abs(s[0]), -abs(s[-1])
        elif kind == "cplx":
            s = s * np.exp(1j * r.uniform(0, 2 * np.pi, size=d))
        s = s / np.linalg.norm(s)
        for idx in range(2 ** n):
            k = sum(((idx >> q) & 1) << i for i, q in enumerate(g))
            v[idx] *= s[k]
    return v


PARTITIONS = {2: [[[0], [1]]],
              3: [[[0], [1, 2]], [[1], [0, 2]], [[2], [0, 1]], [[0], [1], [2]]],
              4: [[[0, 1], [2, 3]], [[0, 2], [1, 3]], [[0, 3], [1, 2]], [[0], [1, 2, 3]], [[3], [0, 1, 2]], [[1], [0, 2, 3]],
                  [[2], [0, 1, 3]], [[0], [1], [2, 3]], [[0], [3], [1, 2]], [[0], [1], [2], [3]]]}


def _diversity_products(ctx, pr, r):
    """UCGE simplification: product states over every wire partition with equal prefactor phases (all factors positive,
    all with the same kind of phase) and differing ones (one factor -1 / i / generic phase / internal signs / complex,
    the others positive): some controls dropped, others kept; partly repeating multiplexers (a product for one value of
    a wire, entangled for the other; vanishing blocks giving repeated identity entries) - for every t (n <= 3) /
    boundary t (n = 4)."""
    mixes = [("all-pos", lambda k: ["pos"] * k), ("all-gph", lambda k: ["gph"] * k), ("one-m1", lambda k: ["m1"] + ["pos"] * (k - 1)),
             ("one-i-last", lambda k: ["pos"] * (k - 1) + ["i"]), ("one-signs", lambda k: ["signs"] + ["pos"] * (k - 1)),
             ("signs-last", lambda k: ["pos"] * (k - 1) + ["signs"]), ("one-cplx", lambda k: ["pos"] * (k - 1) + ["cplx"]),
             ("m1-and-i", lambda k: ["m1", "i"] + ["pos"] * (k - 2))]
    for n in (2, 3, 4):
        N = 2 ** n
        ts = list(range(N)) if n <= 3 else _div_t_list(n)
        for groups in PARTITIONS[n]:
            for t in ts:
                picks = pr.sample(mixes, 3 if n <= 3 else 2)
                for mname, mk in picks:
                    v = _norm(_div_kron_state(r, n, groups, mk(len(groups))))
                    gname = "|".join("".join(map(str, g)) for g in groups)
                    cfgs = [("ucge", False)] + ([("ucg", False)] if pr.random() < 0.34 else [])
                    for cls_name, preserve in cfgs:
                        lv = _diversity_case(ctx, cls_name, n, t, preserve, v, {"gform": "ctor", "dform": "c128", "oform": "t-only"},
                                             f"product:{gname}:{mname}", do_tie=n <= 3)
                        if lv is not None and cls_name == "ucge":
                            dropped = sum(len(x.get("dc", [])) for x in lv)
                            keptc = sum(len(x.get("mc", [])) for x in lv)
                            ctx.count(f"diversity:product:{mname}")
                            ctx.count("diversity:ucge:controls-" + ("dropped+kept" if dropped and keptc else
                                                                   "dropped-only" if dropped else "kept-only"))
        # partly repeating multiplexers at every position of the control: for wire c = 0 the rest is a product, for c = 1 entangled
        for c in range(n):
            for t in ts:
                rest = [q for q in range(n) if q != c]
                kind = pr.choice(["pos", "signs", "conj", "abs"])
                if kind in ("conj", "abs"):
                    # the c = 1 block is the complex conjugate of / has the moduli of the c = 0 block: multiplexer entries
                    # with equal real parts (equal moduli) that are NOT equal
                    a = r.uniform(0.3, 1.0, size=2 ** (n - 1)) * np.exp(1j * r.uniform(0.4, 2.7, size=2 ** (n - 1)))
                    a = a / np.linalg.norm(a)
                    b = np.conj(a) if kind == "conj" else np.abs(a) * r.choice([1, -1, 1j, -1j], size=2 ** (n - 1))
                else:
                    a = _div_kron_state(r, n - 1, [[i] for i in range(n - 1)], [kind] + ["pos"] * (n - 2))
                    b = r.uniform(0.3, 1.0, size=2 ** (n - 1)) * (r.choice([-1.0, 1.0], size=2 ** (n - 1)) if kind == "signs" else 1.0)
                    if pr.random() < 0.5:
                        b[:2 ** (n - 2)] = 0          # vanishing block: repeated identity entries
                v = np.zeros(N, dtype=complex)
                for idx in range(N):
                    sub = sum(((idx >> q) & 1) << i for i, q in enumerate(rest))
                    v[idx] = (a[sub] if not (idx >> c) & 1 else b[sub] / np.linalg.norm(b))
                v = _norm(v)
                for cls_name in ("ucge", "ucg"):
                    if cls_name == "ucg" and pr.random() < 0.6:
                        continue
                    if _diversity_case(ctx, cls_name, n, t, False, v, {"gform": "ctor", "dform": "c128", "oform": "t-only"},
                                       f"partly-repeating:c={c}:{kind}", do_tie=n <= 3) is not None:
                        ctx.count("diversity:ucge:partly-repeating:" + kind)


DIV_PATTERNS = {
    2: ["A A~", "A A@-1", "A A@i"],
    3: ["A B A B~", "A B A B@-1", "A B A B@i", "A A@-1 A A@-1", "A A~ A A", "A@i B A@i B@-i", "A B~ B A"],
    4: ["A B C D A B C D~", "A B A B A B A B~", "A B A B A B A B@-1", "A A B B A A B B@i", "A B C D A B C@-1 D",
        "A A A A A A~ A A", "A B C D A~ B~ C~ D~", "A@i B@i C D A@i B@i C D@-i"],
}


def _div_pattern_vector(r, pat):
    """first-level sibling pairs from letters (LETTERS); `X~` is the complex conjugate pair (its 2x2 operator has the
    same real part), `X@z` the pair times the phase z (operator with the same moduli): entries that agree in
    real part / modulus but are NOT equal, placed where _repetition_search has already started verifying."""
    v = []
    for tok in pat.split():
        name, _, z = tok.partition("@")
        conj = name.endswith("~")
        th, ph = LETTERS[name.rstrip("~")]
        pair = np.array([np.cos(th), np.sin(th) * np.exp(1j * ph)])
        if conj:
            pair = np.conj(pair)
        pair = pair * {"": 1, "-1": -1, "i": 1j, "-i": -1j}[z]
        v += list(r.uniform(0.5, 1.0) * pair)
    return np.array(v, dtype=complex)


def _diversity_mux_patterns(ctx, pr, r):
    """UCGE repetition search on multiplexers whose entries agree only in real part / in modulus / up to a phase
    -1, i with an entry that a started verification compares them with."""
    for n, pats in DIV_PATTERNS.items():
        N = 2 ** n
        for pat in pats:
            for t in sorted({0, N - 1, pr.randrange(N)}):
                v = _norm(_div_pattern_vector(r, pat))
                for cls_name in ("ucge", "ucg"):
                    if cls_name == "ucg" and pr.random() < 0.6:
                        continue
                    if _diversity_case(ctx, cls_name, n, t, False, v, {"gform": "ctor", "dform": "c128", "oform": "t-only"},
                                       "mux-pattern:" + pat.replace(" ", "_"), do_tie=n <= 3) is not None:
                        ctx.count("diversity:ucge:mux-pattern:" + ("conj" if "~" in pat else "phase"))


def _diversity_call_forms(ctx, pr, r):
    """family 4: option forms on the constructor (tie + oracle), the static helpers with every wire form on a wider
    host, one options dict reused and changed, one gate object used several times / copied / rebuilt / inverted."""
    def vec(n, t, preserve, fam=None):
        fam = fam or (pr.choice(["complex", "real", "supp"]) if preserve else pr.choice(["complex", "zeros", "real", "product", "supp"]))
        v, _ = make_vector(r, n, t, fam)
        if preserve:
            v = v.copy()
            v[:t] = 0
            if not np.any(v):
                v[2 ** n - 1] = 1
            v = _norm(v)
        return v

    def tnz(n, preserve=False):
        """a target index that is not 0 (a dropped option would otherwise be invisible); with preserve one below
        2^(n-1): the top-level gate is then a branch operator and only its controls keep the states below t in place"""
        if preserve and n >= 2:
            return pr.randrange(1, 2 ** (n - 1))
        return pr.choice([x for x in _div_t_list(n) if x != 0] + [pr.randrange(1, 2 ** n)])
    for n in (1, 2, 3):
        for cls_name in ("ucg", "ucge"):
            pres_opts = (False, True) if cls_name == "ucg" else (False,)
            # constructor, option forms
            for oform in OFORMS_T0 + (("pres-only",) if cls_name == "ucg" else ()):
                dform = pr.choice(["c128", "list", "tuple", "c128-negzero"])
                _diversity_case(ctx, cls_name, n, 0, False, vec(n, 0, False), {"gform": "ctor", "dform": dform, "oform": oform}, "opts")
            for oform in OFORMS_T:
                for preserve in pres_opts:
                    if oform in ("t-only", "t+pres-none") and preserve:
                        continue
                    t = tnz(n, preserve)
                    dform = pr.choice(["c128", "list", "tuple", "c128-negzero"])
                    _diversity_case(ctx, cls_name, n, t, preserve, vec(n, t, preserve),
                                    {"gform": "ctor", "dform": dform, "oform": oform}, "opts")
            # static helper
            for qform in ("none", "none-explicit", "none-2regs", "ints", "ints-positional", "tuple-ints", "qubits", "regs"):
                oforms = ["omitted", "none", "empty", "t-only", "full", "t-int64", "pres-int"]
                if qform == "ints-positional":
                    oforms = ["none", "full", "t-only"]
                for oform in oforms:
                    if n == 3 and qform in ("none-explicit", "tuple-ints") and oform not in ("full", "t-only"):
                        continue
                    for preserve in pres_opts:
                        if preserve and oform not in ("full", "t-int64", "pres-int"):
                            continue
                        t = tnz(n, preserve)
                        host = n + (2 if n <= 2 else 1)
                        wires = _div_wires(pr, n, host) if qform in ("ints", "ints-positional", "tuple-ints", "qubits", "regs") else None
                        dform = pr.choice(["c128", "list", "tuple", "c64", "list-mixed"])
                        v = vec(n, t if oform not in OFORMS_T0 else 0, preserve)
                        if _div_raw(v, dform) is None:
                            dform = "c128"
                        _diversity_case(ctx, cls_name, n, t, preserve, v,
                                        {"gform": "static", "dform": dform, "oform": oform, "qform": qform, "wires": wires, "host": host},
                                        "static")
            # one dict, two constructions
            for preserve in pres_opts:
                for order in ("ab", "ba"):
                    t = tnz(n, preserve)
                    t_a = pr.choice([x for x in range(2 ** n) if x != t])
                    v = vec(n, t, preserve)
                    _diversity_case(ctx, cls_name, n, t, preserve, v,
                                    {"gform": "reuse-dict", "dform": "c128", "oform": "full", "t_other": t_a,
                                     "t_after": pr.choice([x for x in range(2 ** n) if x != t]), "order": order}, "reuse")
            # one gate object, several uses
            for gform in ("append-twice", "append-decompose", "copy-before-definition", "copy-after-definition", "rebuild", "inverse"):
                for preserve in pres_opts:
                    t = tnz(n, preserve)
                    v = vec(n, t, preserve)
                    div = {"gform": gform, "dform": pr.choice(["c128", "list"]), "oform": pr.choice(["full", "t-int64"])}
                    if gform == "append-twice":
                        if preserve:
                            continue
                        div["wires"] = _div_wires(pr, 2 * n, 2 * n)
                    if gform == "append-decompose":
                        div["wires"] = _div_wires(pr, n, n + 1)
                    _diversity_case(ctx, cls_name, n, t, preserve, v, div, "gate-object")


def _diversity_flag_forms(ctx, pr, r):
    """flag-form pass.  Options of UCGInitialize / UCGEInitialize (constructor `opt_params`, static `initialize`):
      preserve_previous (bool)   True and False as numpy.bool_ and int 1 / 0 (the Python singletons are everywhere else), for
                                 BOTH classes (each has its own `if self.preserve:`), constructor (tie + oracle) and static
                                 helper (keyword / positional opt_params, permuted host), n = 1 (no control qubit), 2, 3, 4
      target_state (int, 0 valid and falsy; numpy integers)
                                 0, 2^n - 1 and a middle index as int, np.int64, np.int32, np.uint8, with and without
                                 preserve_previous, same entry points
    Judged by the property's own observable (column t; with preserve and support >= t the columns below t), tie through
    the canonical (int t, bool preserve)."""
    def vec(n, t, preserve):
        fam = pr.choice(["complex", "real", "supp"]) if preserve else pr.choice(["complex", "zeros", "real", "product"])
        v, _ = make_vector(r, n, t, fam)
        if preserve:
            v = v.copy()
            v[:t] = 0
            if not np.any(v):
                v[2 ** n - 1] = 1
            v = _norm(v)
        return v

    def static_div(n, oform, i):
        qform = ("ints", "ints-positional", "qubits", "none")[i % 4]
        host = n + 1
        wires = _div_wires(pr, n, host) if qform != "none" else None
        return {"gform": "static", "dform": ("c128", "list")[i % 2], "oform": oform, "qform": qform, "wires": wires, "host": host}
    i = 0
    for n in (1, 2, 3, 4):
        N = 2 ** n
        for cls_name in ("ucg", "ucge"):
            # (A) type of the preserve_previous flag
            for oform in ("pres-npbool", "pres-int"):
                for preserve in (True, False):
                    ts = sorted({0, 1, N // 2, N - 1} if n <= 3 else {1, N // 2 - 1})
                    for t in ts:
                        i += 1
                        ctx.count(f"flagforms:preserve_previous:{oform[5:]}:{preserve}")
                        _diversity_case(ctx, cls_name, n, t, preserve, vec(n, t, preserve),
                                        {"gform": "ctor", "dform": ("c128", "tuple")[i % 2], "oform": oform}, "flagforms")
                        if (i + n) % 2 == 0:
                            ctx.count(f"flagforms:preserve_previous:{oform[5:]}:{preserve}")
                            _diversity_case(ctx, cls_name, n, t, preserve, vec(n, t, preserve), static_div(n, oform, i), "flagforms")
            # (B), (C) target_state at both ends of its range and in the middle, in every integer form
            for where, t in (("zero", 0), ("max", N - 1)) + ((("middle", pr.randrange(1, N - 1)),) if n >= 2 else ()):
                for oform in ("full", "t-int64", "t-int32", "t-uint8"):
                    if n == 4 and oform == "t-int32":
                        continue
                    i += 1
                    preserve = (i % 3 == 0)
                    ctx.count(f"flagforms:target_state:{'int' if oform == 'full' else oform[2:]}:{where}")
                    _diversity_case(ctx, cls_name, n, t, preserve, vec(n, t, preserve),
                                    {"gform": "ctor", "dform": ("c128", "list")[i % 2], "oform": oform}, "flagforms")
                    if oform != "full" and (i + n) % 2:
                        ctx.count(f"flagforms:target_state:{oform[2:]}:{where}")
                        _diversity_case(ctx, cls_name, n, t, preserve, vec(n, t, preserve), static_div(n, oform, i), "flagforms")


def _diversity_run(ctx):
    pr, r = ctx.rng, ctx.nprng()
    ctx.notes.append("diversity cases: amplitudes are exactly 0 or >= 1e-6/sqrt(N) in modulus with generic phases on the light "
                     "ones (a light amplitude treated as 0 would show as an error >= 3e-7); float32 / complex64 / integer "
                     "forms use dyadic moduli so that the element type holds the normalised vector exactly (the library "
                     "rejects |norm^2 - 1| > 1e-10); static / gate-object call forms are oracle-only (no per-level trace)")
    _diversity_element_types(ctx, pr, r)
    _diversity_scale(ctx, pr, r)
    _diversity_phase(ctx, pr, r)
    _diversity_products(ctx, pr, r)
    _diversity_mux_patterns(ctx, pr, r)
    _diversity_call_forms(ctx, pr, r)
    _diversity_flag_forms(ctx, pr, r)


def wide_cases(ctx, r):
    """Registers wider than the usual sizes (n = 9, 10, 11), where container iteration order / index widths can first go wrong
    (e.g. a set of control wires holding qubit 8 no longer iterates in ascending order).  State-vector oracle only: the gate on
    the basis state |t>, t = 0 / random / last, dense vectors and vectors whose multiplexers simplify (product and repeated
    structure), both classes, with and without preserve (support >= t)."""
    from qiskit import QuantumCircuit
    from qiskit.quantum_info import Statevector
    for n in (9, 10, 11):
        N = 2 ** n
        for fam in ("dense", "product-low5", "repeat-top"):
            if fam == "dense":
                v = r.normal(size=N) + 1j * r.normal(size=N)
            elif fam == "product-low5":          # generic on the top qubits (x) product on the 5 lowest: low controls are dropped
                top = r.normal(size=N // 32) + 1j * r.normal(size=N // 32)
                low = np.array([1.0 + 0j])
                for _ in range(5):
                    low = np.kron(r.normal(size=2) + 1j * r.normal(size=2), low)
                v = np.kron(top, low)
            else:                                # independent of the top qubit up to a factor: the top control is dropped
                half = r.normal(size=N // 2) + 1j * r.normal(size=N // 2)
                v = np.kron(np.array([0.6, 0.8j]), half)
            v = v / np.linalg.norm(v)
            for cls_name in ("ucg", "ucge"):
                for t in sorted({0, int(r.integers(1, N - 1)), N - 1}):
                    for preserve in ((False, True) if t not in (0,) and fam == "dense" and n == 9 else (False,)):
                        w = v
                        if preserve:
                            w = v.copy()
                            w[:t] = 0
                            if not np.any(w):
                                continue
                            w = w / np.linalg.norm(w)
                        key = f"{cls_name}:wide:{fam}:n={n}:t={t}:pres={int(preserve)}"
                        rep = {"call": cls_name, "n": n, "t": t, "preserve": preserve, "family": "wide:" + fam,
                               "how": "tools/props/c12.py wide_cases: gate on |t>, Statevector vs the vector", "vector": vec_payload(w)}
                        ctx.count(f"boundary:wide-register:n={n}:{fam}")
                        try:
                            g = get_class(cls_name)(np.array(w), opt_params={"target_state": int(t), "preserve_previous": bool(preserve)})
                            qc = QuantumCircuit(n)
                            for q in range(n):
                                if (t >> q) & 1:
                                    qc.x(q)
                            qc.append(g, range(n))
                            err = float(np.abs(np.asarray(Statevector(qc).data) - w).max())
                        except Exception as e:  # noqa: BLE001
                            ctx.fail(f"{cls_name}:exception:{type(e).__name__}:wide:{fam}:n={n}:pres={int(preserve)}",
                                     f"construction / simulation raised {e!r}", rep)
                            continue
                        if err > 1e-7:
                            ctx.fail(key, f"the gate maps |t={t}> to a state that differs from the vector by {err:.3e}", dict(rep, observed_err=err))
                        else:
                            ctx.ok(key, nontrivial=True)


def run(ctx, nmax_tie=None, nmax_or=None, per_t=None):
    r = ctx.nprng()
    regression_probes(ctx)
    wide_cases(ctx, r)
    entry_forms(ctx)
    nmax_tie = nmax_tie or (4 if ctx.quick else 5)
    nmax_or = nmax_or or (5 if ctx.quick else 6)
    string_tables(ctx, 6 if ctx.quick else 8)
    ctx.notes.append("generated amplitudes are exactly 0 or of modulus >= 1e-2/sqrt(N); UCGE tie cases whose operator "
                     "entries differ by 1e-10..1e-4 (np.allclose band) are skipped and counted")
    boundary_run(ctx, r)
    _diversity_run(ctx)
    for n in range(1, nmax_or + 1):
        ts = list(range(2 ** n))
        if n >= 5 and ctx.quick:
            ts = sorted({0, 1, 2 ** n - 1, 2 ** n - 2, 2 ** (n - 1)} | set(ctx.rng.sample(ts, 5)))
        elif n >= 6:
            ts = sorted({0, 1, 2 ** n - 1, 2 ** (n - 1)} | set(ctx.rng.sample(ts, 8)))
        for t in ts:
            for fam in FAMILIES:
                v, info = make_vector(r, n, t, fam)
                for cls_name, preserve in (("ucg", False), ("ucg", True), ("ucge", False), ("ucge", True)):
                    if cls_name == "ucge" and preserve and fam not in ("complex", "supp", "product"):
                        continue
                    one_case(ctx, cls_name, n, t, preserve, fam, v, info, do_tie=n <= nmax_tie)
                    if fam == "complex" and n <= 4:
                        for nm, val in (("0", 0), ("1", 1), ("2^(n-1)-1", 2 ** (n - 1) - 1), ("2^(n-1)", 2 ** (n - 1)),
                                        ("2^n-1", 2 ** n - 1)):
                            if t == val:
                                ctx.count(f"boundary:target_state={nm}:n={n}")
                    if cls_name == "ucg" and preserve and fam in ("supp", "supp_t0") and n <= 4:
                        ctx.count("boundary:preserve:support-starts-at-" + ("t" if fam == "supp" else "t+1"))


def search(ctx, hints):
    for h in hints[:20]:
        op = h.get("op", {})
        if op.get("op") != "run":
            continue
        v = np.array([complex(struct.unpack("<d", struct.pack("<Q", a))[0], struct.unpack("<d", struct.pack("<Q", b))[0])
                      for a, b in zip(op["vre"], op["vim"])])
        one_case(ctx, op["cls"], op["n"], op["t"], op["preserve"], "hint", v, do_tie=False)
    run(ctx, nmax_tie=0, nmax_or=5)


def replay(ctx, payload):
    rp = payload["replay"]
    v = np.array([complex(a, b) for a, b in rp["vector"]])
    if rp.get("div"):
        _diversity_case(ctx, rp["call"], rp["n"], rp["t"], rp["preserve"], v, rp["div"], rp.get("family", "replay"), do_tie=False)
        return
    if rp.get("form"):
        entry_case(ctx, rp["call"], rp["n"], rp["t"], rp["preserve"], rp.get("family", "replay"), v, rp["form"], rp.get("wires"))
        return
    if rp.get("family") == "allclose-merge":
        allclose_merge_probe(ctx)
        return
    one_case(ctx, rp["call"], rp["n"], rp["t"], rp["preserve"], rp.get("family", "replay"), v, do_tie=False,
             key=payload.get("key"))
