"""C13 — uniformly controlled rotations (qclib/gates/ucr.py)."""
import itertools
import math
import numpy as np

CLAIMED = True
TECHNIQUE = "Lean 4 proof by induction on the number of controls (two-sided invariant) in amplitude-function semantics; gate-list correspondence with ucr.py; Operator oracle"
LEVEL_TEXT = ("Full proof for the model: for every k>=0, every angle list, RY with CX or CZ and RZ with CX, the recursive "
              "circuit denotes the ideal multiplexer on every state (theorems C13_ucr, C13_nolast over any commutative ring with "
              "rotation laws; instance R->C proved from Mathlib); corollaries C13_compose (two such circuits = multiplexer of the "
              "summed angles), C13_inverse (negated angles undo the circuit in both orders, any entanglers), C13_zero. The model is tied to ucr.py by diffing flattened gate lists for "
              "all flag combinations and structured angle families up to k=5 (quick) / 7 (thorough); the property itself is "
              "re-evaluated on the real code with qiskit's Operator as failing-input search.")
LEVEL_NOTE = ("Trusted: Lean kernel (axioms propext, Classical.choice, Quot.sound), the hand model's agreement with ucr.py beyond the "
              "explored sizes (same recursion for all k), qiskit gate matrices (checked numerically each run), exact arithmetic vs "
              "float (leaf threshold 1e-8 modelled as angle = 0).")
LEAN_TARGETS = ["QclibModel.Props.C13"]
THEOREMS = ["Qclib.C13_ucr", "Qclib.C13_nolast", "Qclib.C13_compose", "Qclib.C13_inverse", "Qclib.C13_zero"]
TRUSTED = [
    "qiskit RYGate/RZGate/CXGate/CZGate matrices equal matRY/matRZ/X/Z of Sem/Denote.lean (validated numerically each run)",
    "float: the leaf test abs(angle) > 1e-8 is modelled as 'angle = 0' in the theorem and as the same threshold in the driver",
]
ASSUMPTIONS = ["exact real arithmetic in the theorem; implementation compared to 1e-9"]
RULE = ("tie: (axis, entangler, last, k, angle list) tuples whose flattened gate list was diffed against the "
        "Lean model; oracle: Operator(ucr) vs block-diagonal reference; non-trivial = k>=1")


def rot(axis, t):
    c, s = math.cos(t / 2), math.sin(t / 2)
    if axis == "Y":
        return np.array([[c, -s], [s, c]], dtype=complex)
    return np.array([[np.exp(-0.5j * t), 0], [0, np.exp(0.5j * t)]])


def ideal(axis, angles):
    n = len(angles)
    m = np.zeros((2 * n, 2 * n), dtype=complex)
    for j, a in enumerate(angles):
        m[2 * j:2 * j + 2, 2 * j:2 * j + 2] = rot(axis, a)
    return m


UNREACHED_JUSTIFIED = {}   # ucr.py: every statement and branch outcome is reached in the quick tier


def from_leaves(leaves):
    """angle list whose fully multiplexed (leaf) angles are `leaves`: inverse of ucr's recursive
    kron([[.5,.5],[.5,-.5]], I) transform (x1 = m1 + m2, x2 = m1 - m2 at every level)."""
    if len(leaves) == 1:
        return list(leaves)
    h = len(leaves) // 2
    a, b = from_leaves(leaves[:h]), from_leaves(leaves[h:])
    return [x + y for x, y in zip(a, b)] + [x - y for x, y in zip(a, b)]


def threshold_lists(ctx, k):
    """leaf angles on both sides of ucr's `abs(angle) > 1e-8` test (2e-9: rotation dropped, 5e-8: kept), mixed
    with exact zeros and ordinary values; a factor 2.5 away from the threshold, rounding of the transform is ~1e-16"""
    r = ctx.rng
    n = 2 ** k
    out = []
    for _ in range(2):
        leaves = [r.choice([0.0, 2e-9, -2e-9, 5e-8, -5e-8, r.uniform(-3, 3)]) for _ in range(n)]
        if k >= 1:
            leaves[r.randrange(n)] = r.choice([2e-9, -2e-9])
            leaves[(r.randrange(n - 1) + 1) % n] = r.choice([5e-8, -5e-8])
        else:
            leaves = [r.choice([2e-9, -2e-9, 5e-8, -5e-8])]
        ctx.count("branch:leaf |angle| in (0, 1e-8] (rotation dropped)", sum(1 for x in leaves if 0 < abs(x) <= 1e-8))
        ctx.count("branch:leaf |angle| just above 1e-8 (rotation kept)", sum(1 for x in leaves if 1e-8 < abs(x) < 1e-7))
        out.append(from_leaves(leaves))
    return out


THR = 10 ** -8     # the literal of ucr.py line 49 (`abs(angles[0]) > 10**-8`)


def single_leaf(k, pos, x):
    """angle list whose multiplexed leaf number `pos` is exactly x and all other leaves exactly 0.0: all entries are
    +-x (a Walsh sign pattern), so every (a+b)/2, (a-b)/2 of the recursion is exact in floating point"""
    leaves = [0.0] * (2 ** k)
    leaves[pos] = x
    return from_leaves(leaves)


def boundary_lists(ctx, k):
    """boundary-value cases of ucr.py (see BOUNDARIES): the leaf test at the literal itself and one ulp on both sides
    (tie only can tell: the operator changes by 5e-9), every leaf a factor 3-8 above / 5 below the literal (the
    operator error of a moved threshold adds up over the 2^k leaves: k = 5, leaves 8e-8 -> |a_0| = 2.6e-6), exact
    zeros of both signs, multiples of pi.  Excluded band: lists whose leaves are in (1e-8/2^k .. 1e-8] with 2^k * leaf
    > 2e-7 would make the real code differ from the ideal operator by > 1e-7 by design (dropped rotations); the
    below-threshold lists here keep 2^k * leaf <= 6.4e-8."""
    n = 2 ** k
    r = ctx.rng
    up, dn = float(np.nextafter(THR, 1.0)), float(np.nextafter(THR, 0.0))
    out = []
    if k <= 3:
        for x in (THR, -THR, up, -up, dn, -dn):
            pos = [0, n - 1] if k >= 1 else [0]
            if 1 <= k <= 2:
                pos = list(range(n))
            for q in pos:
                out.append(single_leaf(k, q, x))
                ctx.count("boundary:leaf |angle| == 1e-8 exactly (dropped)" if abs(x) == THR else
                          "boundary:leaf |angle| == 1e-8 + 1ulp (kept)" if abs(x) == up else
                          "boundary:leaf |angle| == 1e-8 - 1ulp (dropped)")
        out.append([-0.0] * n)
        ctx.count("boundary:all angles -0.0")
        out.append(single_leaf(k, r.randrange(n), 1.1))
        ctx.count("boundary:exactly one non-zero leaf")
    for x in (3e-8, 8e-8, -8e-8):
        out.append(from_leaves([x] * n))          # = [n*x, 0, ..., 0]
        ctx.count("boundary:every leaf a factor 3-8 above 1e-8 (all kept)")
    out.append(from_leaves([2e-9] * n))
    ctx.count("boundary:every leaf a factor 5 below 1e-8 (all dropped)")
    out.append([r.choice([0.0, math.pi, -math.pi, 2 * math.pi, -2 * math.pi, 4 * math.pi]) for _ in range(n)])
    ctx.count("boundary:angles multiples of pi")
    return out


BOUNDARIES = {
    "ucr.py:39-40 size = len(angles), n_qubits = int(log2(size)) + 1": "k = 0..5 (sizes 1, 2, 4, 8, 16, 32) every run",
    "ucr.py:48 n_qubits == 1": "k = 0 and k = 1, 2, 3 with last_control True and False, every axis / entangler",
    "ucr.py:49 abs(angles[0]) > 10**-8": "leaf exactly 0.0 / -0.0, 2e-9, 1e-8 - 1ulp, 1e-8, 1e-8 + 1ulp, 3e-8, 5e-8, 8e-8, both "
                                         "signs, at the first / last / every leaf position (k <= 3), all leaves at once (k <= 5)",
    "ucr.py:53-55 identity(2 ** (n_qubits - 2))": "k = 1 (1x1 identity), 2, 3",
    "ucr.py:62/67 slices [: size // 2], [size // 2 :]": "k = 1 (halves of length 1), 2, 3; halves distinguished by the sign family",
    "ucr.py:63/68 reg[0:-1]": "k = 1 (one wire), 2, 3",
    "ucr.py:75 if last_control": "True / False at every k incl. k = 0 (flag without effect)",
}


def angle_lists(ctx, k):
    n = 2 ** k
    r = ctx.rng
    fams = []
    fams += boundary_lists(ctx, k)
    fams.append([r.uniform(-2 * math.pi, 2 * math.pi) for _ in range(n)])
    fams.append([r.uniform(-20, 20) for _ in range(n)])                      # > 2 pi
    fams.append([r.choice([0.0, r.uniform(-3, 3)]) for _ in range(n)])        # zeros
    fams.append([1.25] * n)                                                   # all equal: betas vanish
    fams.append([0.0] * n)
    fams.append([(1.0 if (j >> (k - 1)) & 1 else -1.0) * 0.7 for j in range(n)] if k else [0.3])
    fams.append([2 * math.atan2(4, 3) * r.choice([1, -1, 0, 2]) for _ in range(n)])  # Pythagorean
    fams += threshold_lists(ctx, k)
    # all-integer angle lists (Python ints): the (a+b)/2, (a-b)/2 transform must not inherit an integer dtype
    fams.append([r.randint(-7, 7) for _ in range(n)])
    fams.append([1 + 2 * j for j in range(n)])                                # odd integers: every half-sum is x.5 at some level
    if not ctx.quick:
        for _ in range(4):
            fams.append([r.gauss(0, 3) for _ in range(n)])
    return fams


def build(axis, ent, angles, last):
    from qclib.gates.ucr import ucr
    from qiskit.circuit.library import RYGate, RZGate, CXGate, CZGate
    return ucr(RYGate if axis == "Y" else RZGate, list(angles), CXGate if ent == "CX" else CZGate, last)


def check_one(ctx, axis, ent, last, k, angles, do_oracle=True):
    from flatten import flatten, to_lines
    from qiskit.quantum_info import Operator
    circ = build(axis, ent, angles, last)
    ctx.tie({"op": "ucr", "axis": axis, "ent": ent, "k": k, "last": last, "angles": angles},
            to_lines(flatten(circ)))
    if not do_oracle:
        return
    rep = {"call": "qclib.gates.ucr.ucr", "axis": axis, "ent": ent, "last": last, "angles": angles}
    key = f"ucr:{axis}:{ent}:{int(last)}:k={k}:{hash(tuple(angles)) & 0xffffff:x}"
    if k >= 1 and not last:
        circ = circ.copy()
        (circ.cx if ent == "CX" else circ.cz)(k, 0)
    op = Operator(circ).data
    err = float(np.abs(op - ideal(axis, angles)).max())
    ctx.count(f"{axis}{ent}{'L' if last else 'N'}")
    if err > 1e-7:
        ctx.fail(key, f"max |Operator - ideal| = {err:.3e}", dict(rep, observed_err=err))
    else:
        ctx.ok(key, nontrivial=k >= 1, sample={"axis": axis, "ent": ent, "last": last, "k": k,
                                                "angles": angles[:4], "err": err})


def gate_conventions(ctx):
    """K4 assumption: qiskit's one/two-qubit matrices are the ones Sem/Denote.lean uses."""
    from qiskit.circuit.library import RYGate, RZGate, CXGate, CZGate
    for t in (0.3, -2.2, 7.0):
        for axis, g in (("Y", RYGate), ("Z", RZGate)):
            e = np.abs(g(t).to_matrix() - rot(axis, t)).max()
            ctx.assumption_checks += 1
            if e > 1e-12:
                ctx.fail("assumption:rot-matrix", f"{axis} {t} {e}", kind="assumption")
    # little-endian: CXGate()'s matrix with qubit0 = control
    cx = np.array([[1, 0, 0, 0], [0, 0, 0, 1], [0, 0, 1, 0], [0, 1, 0, 0]])
    ctx.assumption_checks += 2
    if np.abs(CXGate().to_matrix() - cx).max() > 0 or np.abs(CZGate().to_matrix() - np.diag([1, 1, 1, -1])).max() > 0:
        ctx.fail("assumption:entangler-matrix", "CX/CZ matrix convention changed", kind="assumption")


# ------------------------------------------------------------------------------------------------
# input-diversity section: the same observable on the FORMS an ordinary angle list / call can take
# ------------------------------------------------------------------------------------------------

DIVERSITY = {
    "element types": "python int lists / tuples, numpy int64 / int32 arrays, lists of numpy int scalars (integers whose half-sums are "
                     "x.5 / x.25 at some level), float lists / tuples, float64 / float32 arrays, lists of numpy float64 / float32 "
                     "scalars, mixed int-float lists, a strided (non-contiguous) float64 view, negative zeros; the caller's object "
                     "must be left unchanged",
    "scale": "one O(1) angle + light tail 1e-3 .. 1e-6 (head first / last / mixed), all-equal, two repeated values, all-negative, a single "
             "non-zero angle at every position (k <= 2), non-zeros only in the first half / second half / one quarter / odd positions",
    "phase": "angles exactly +-2 pi, +-4 pi at one position with generic small angles elsewhere (a relative sign between blocks, not a "
             "global phase), all angles multiples of 2 pi, pairs (x + 2 pi, x - 2 pi) / (2 pi + x, 2 pi - x) whose half-sums / "
             "half-differences are exactly 2 pi, angles in (2 pi, 4 pi) and below -2 pi",
    "call forms": "positional / all-keyword arguments, c_gate and last_control left at their defaults, the same angle object used for two "
                  "consecutive constructions (and for RY then RZ), the circuit appended as an instruction on a permuted, non-ascending "
                  "wire list of a wider host, two multiplexers in sequence (no-last followed by its reverse_ops partner)",
    "sizes": "k = 0, 1, 2, 3 for every form; 4, 5 for the type forms",
}
ANGLE_FORMS = {
    "list-float": lambda v: [float(x) for x in v], "tuple-float": lambda v: tuple(float(x) for x in v),
    "nd-float64": lambda v: np.array(v, dtype=np.float64), "nd-float32": lambda v: np.array(v, dtype=np.float32),
    "list-np-float64": lambda v: [np.float64(x) for x in v], "list-np-float32": lambda v: [np.float32(x) for x in v],
    "nd-float64-strided": lambda v: np.array([y for x in v for y in (x, 99.0)], dtype=np.float64)[::2],
    "list-int": lambda v: [int(x) for x in v], "tuple-int": lambda v: tuple(int(x) for x in v),
    "nd-int64": lambda v: np.array([int(x) for x in v], dtype=np.int64), "nd-int32": lambda v: np.array([int(x) for x in v], dtype=np.int32),
    "list-np-int64": lambda v: [np.int64(int(x)) for x in v],
    "list-mixed": lambda v: [int(x) if float(x).is_integer() and i % 2 == 0 else float(x) for i, x in enumerate(v)],
}
FLOAT_FORMS = ("list-float", "tuple-float", "nd-float64", "nd-float32", "list-np-float64", "list-np-float32", "nd-float64-strided")
INT_FORMS = ("list-int", "tuple-int", "nd-int64", "nd-int32", "list-np-int64", "list-mixed")
CALL_FORMS = ("positional", "keyword", "defaults", "same-object-twice", "host-permuted")


# the forms a truthy / falsy `last_control` can take (the singletons, what a numpy comparison / np.all returns, 1 / 0)
FLAG_FORMS = {"bool": bool, "np.bool_": np.bool_, "int": int, "np.int64": np.int64}


def flag_value(last, flagform):
    if flagform == "np.bool_:computed":       # produced by numpy itself, the way a caller decides the flag
        return np.all(np.zeros(3) == 0) if last else np.any(np.zeros(3) != 0)
    return FLAG_FORMS[flagform](last)


def build_form(axis, ent, raw, last, callform):
    from qclib.gates.ucr import ucr
    from qiskit.circuit.library import RYGate, RZGate, CXGate, CZGate
    R = RYGate if axis == "Y" else RZGate
    C = CXGate if ent == "CX" else CZGate
    if callform == "keyword":
        return ucr(r_gate=R, angles=raw, c_gate=C, last_control=last)
    if callform == "defaults":
        if ent == "CX" and last:
            return ucr(R, raw)
        if last:
            return ucr(R, raw, C)
        return ucr(R, raw, c_gate=C, last_control=False) if ent == "CZ" else ucr(R, raw, last_control=False)
    if callform == "same-object-twice":
        from flatten import flatten, to_lines
        other = RZGate if axis == "Y" else RYGate
        c0 = ucr(other, raw, CXGate, not last)       # an earlier construction from the SAME object, other axis / flag
        c1 = ucr(R, raw, C, last)
        c2 = ucr(R, raw, C, last)
        if to_lines(flatten(c1)) != to_lines(flatten(c2)) or c0 is None:
            raise AssertionError("two consecutive constructions from the same angle object give different circuits")
        # the caller may go on building on a returned circuit (the property itself appends the omitted entangler after a
        # last_control=False multiplexer): that must not show in a LATER construction with the same arguments
        n_before = len(c2.data)
        if c2.num_qubits >= 2:
            (c1.cx if ent == "CX" else c1.cz)(c1.num_qubits - 1, 0)
        else:
            c1.x(0)
        c3 = ucr(R, raw, C, last)
        if c3 is c1 or len(c3.data) != n_before or to_lines(flatten(c3)) != to_lines(flatten(c2)):
            raise AssertionError("a construction with the same arguments returned a circuit that carries the caller's later edits "
                                 "to an earlier result (shared mutable circuit)")
        return c3
    return ucr(R, raw, C, last)


def form_case(ctx, name, axis, ent, last, vals, form, callform="positional", tie=True, wires=None, flagform="bool"):
    """vals: the intended angles; the library gets ANGLE_FORMS[form](vals); the ideal multiplexer is built from
    np.asarray(raw, dtype=float) computed here.  `flagform`: the type `last_control` is handed over in (`last` stays
    the canonical Python bool: reference, tie op and the appended closing entangler are decided by it)."""
    from flatten import flatten, to_lines
    from qiskit import QuantumCircuit
    from qiskit.quantum_info import Operator
    raw = ANGLE_FORMS[form](vals)
    angles = [float(x) for x in np.asarray(raw, dtype=float)]
    k = int(math.log2(len(angles)))
    h = hash(tuple(angles)) & 0xffffff
    key = f"ucr:div:{axis}:{ent}:{int(last)}:k={k}:{form}:{callform}:{h:x}"
    rep = {"call": "qclib.gates.ucr.ucr", "axis": axis, "ent": ent, "last": last, "angles": angles, "div": True, "name": name,
           "form": form, "callform": callform, "vals": [float(x) for x in vals]}
    for c in ("diversity:" + name, "diversity:type:" + form, "diversity:call:" + callform):
        ctx.count(c)
    flag = last
    if flagform != "bool":
        if callform == "defaults":
            raise RuntimeError("harness: the 'defaults' call form omits the flag, it has no type")
        key = f"ucr:flagforms:last_control:{flagform}={last}:{axis}:{ent}:k={k}:{form}:{callform}:{h:x}"
        rep["flagform"] = flagform
        flag = flag_value(last, flagform)
        ctx.count(f"flagforms:last_control:{flagform}:{last}")
    before = repr(raw)
    try:
        circ = build_form(axis, ent, raw, flag, callform)
    except Exception as e:
        ctx.fail(key + ":raises", f"{type(e).__name__}: {e}", rep)
        return
    if repr(raw) != before:
        ctx.fail(key + ":input-mutated", "the caller's angle object was modified by ucr()", rep)
    if tie:
        ctx.tie({"op": "ucr", "axis": axis, "ent": ent, "k": k, "last": last, "angles": angles}, to_lines(flatten(circ)))
    if k >= 1 and not last:
        circ = circ.copy()
        (circ.cx if ent == "CX" else circ.cz)(k, 0)
    want = ideal(axis, angles)
    try:
        if callform == "host-permuted":
            w = k + 1
            if wires is None:
                wires = ctx.rng.sample(range(w + 2), w)
                if wires == sorted(wires) and w > 1:
                    wires = wires[::-1]
            host = QuantumCircuit(w + 2)
            host.append(circ.to_instruction(), wires)
            op = Operator(host).data
            # the placed ideal: act with `want` on the chosen wires (bit t of the small index <-> host wire wires[t])
            dim = 2 ** (w + 2)
            ref = np.zeros((dim, dim), dtype=complex)
            rest = [q for q in range(w + 2) if q not in wires]
            for col in range(dim):
                small = sum(((col >> wires[t]) & 1) << t for t in range(w))
                keep = col & sum(1 << q for q in rest)
                for row_s in np.nonzero(want[:, small])[0]:
                    row = keep | sum(((int(row_s) >> t) & 1) << wires[t] for t in range(w))
                    ref[row, col] = want[row_s, small]
            err = float(np.abs(op - ref).max())
            rep["wires"] = wires
        else:
            err = float(np.abs(Operator(circ).data - want).max())
    except Exception as e:
        ctx.fail(key + ":raises", f"{type(e).__name__}: {e}", rep)
        return
    if not err <= 1e-7:
        ctx.fail(key, f"max |Operator - ideal| = {err:.3e}", dict(rep, observed_err=err))
    else:
        ctx.ok(key, nontrivial=k >= 1, sample={"axis": axis, "ent": ent, "last": last, "k": k, "form": form, "err": err})


def sequence_case(ctx, axis, ent, k, a1, a2):
    """the documented use of last_control=False: a multiplexer without its trailing entangler followed by the reverse_ops of a
    second one equals the product of the two ideal multiplexers (same axis => angles add)"""
    from qiskit.quantum_info import Operator
    ctx.count("diversity:two multiplexers in sequence (no-last, reversed partner)")
    key = f"ucr:div:sequence:{axis}:{ent}:k={k}:{hash(tuple(a1 + a2)) & 0xffffff:x}"
    rep = {"call": "qclib.gates.ucr.ucr x2", "sequence": True, "axis": axis, "ent": ent, "a1": a1, "a2": a2}
    try:
        c1 = build(axis, ent, a1, False)
        c2 = build(axis, ent, a2, False).reverse_ops()
        err = float(np.abs(Operator(c1.compose(c2)).data - ideal(axis, [x + y for x, y in zip(a1, a2)])).max())
    except Exception as e:
        ctx.fail(key + ":raises", f"{type(e).__name__}: {e}", rep)
        return
    if not err <= 1e-7:
        ctx.fail(key, f"max |Operator - ideal| = {err:.3e}", dict(rep, observed_err=err))
    else:
        ctx.ok(key, nontrivial=k >= 1)


CONFIGS = [("Y", "CX", True), ("Y", "CX", False), ("Y", "CZ", True), ("Y", "CZ", False), ("Z", "CX", True), ("Z", "CX", False)]


def _diversity_cases(ctx):
    r = ctx.rng
    TWO_PI = 2 * math.pi
    cyc = [0]

    def cfg():
        cyc[0] += 1
        return CONFIGS[cyc[0] % 6]

    ccyc = [0]

    def call():
        ccyc[0] += 1
        return CALL_FORMS[ccyc[0] % len(CALL_FORMS)]

    def emit(name, vals, forms, every_config=False, callform=None):
        for f in forms:
            for (axis, ent, last) in (CONFIGS if every_config else [cfg()]):
                form_case(ctx, name, axis, ent, last, vals, f, callform or call())

    # ---- 1. element types
    for k in (0, 1, 2, 3, 4, 5):
        n = 2 ** k
        small = k <= 3
        ints = [r.randint(-9, 9) for _ in range(n)]
        odd = [1 + 2 * j for j in range(n)]
        odd_sh = list(odd)
        r.shuffle(odd_sh)
        odd_sh[r.randrange(n)] *= -1
        emit("integer angles", ints, INT_FORMS if small else INT_FORMS[:1] + INT_FORMS[2:3], every_config=k in (1, 2))
        emit("odd integer angles (half-sums x.5, x.25, ...)", odd_sh, INT_FORMS if small else ("nd-int64", "tuple-int"),
             every_config=k in (1, 2))
        flo = [r.uniform(-7, 7) for _ in range(n)]
        emit("float angles", flo, FLOAT_FORMS if small else ("nd-float64", "nd-float32", "tuple-float"), every_config=k == 1)
        emit("integral floats", [float(x) for x in odd_sh], ("list-float", "nd-float32", "list-np-float32") if small else ("nd-float32",))
        nz = [r.choice([-0.0, 0.0, -0.0, r.uniform(-3, 3)]) for _ in range(n)]
        nz[r.randrange(n)] = -0.0
        emit("negative zeros", nz, ("list-float", "nd-float64") if small else ("nd-float64",))
    # ---- 2. scale structure
    for k in (1, 2, 3, 4):
        n = 2 ** k
        for where in ("first", "last", "mixed"):
            v = [10.0 ** (-3 - 3 * j / max(1, n - 1)) * r.choice([1, -1]) for j in range(n)]
            v[{"first": 0, "last": n - 1, "mixed": r.randrange(n)}[where]] = r.choice([2.5, -1.7, 3.0])
            emit("one O(1) angle + light tail 1e-3 .. 1e-6 (" + where + ")", v, ("list-float", "nd-float64"))
        emit("all angles equal", [0.77] * n, ("list-float",))
        emit("two exactly repeated values", [[1.1, -0.4][j % 2] for j in range(n)], ("tuple-float",))
        emit("two exactly repeated values, block-wise", [[1.1, -0.4][(2 * j) // n] for j in range(n)], ("nd-float64",))
        emit("all angles negative", [-abs(r.uniform(0.1, 6)) for _ in range(n)], ("list-float",))
        for nm, sup in (("first half", range(n // 2)), ("second half", range(n // 2, n)), ("last quarter", range(n - max(1, n // 4), n)),
                        ("odd positions", range(1, n, 2))):
            v = [0.0] * n
            for j in sup:
                v[j] = r.uniform(-3, 3)
            emit("non-zero angles only in the " + nm, v, ("list-float",))
        if k <= 2:
            for pos in range(n):
                v = [0.0] * n
                v[pos] = r.choice([1.3, -2.1])
                emit("a single non-zero angle (every position)", v, ("list-float", "list-mixed"))
        else:
            v = [0] * n
            v[r.randrange(n)] = 3
            emit("a single non-zero angle (every position)", v, ("list-int",))
    # ---- 3. sign / phase structure: 4 pi periodicity
    for k in (0, 1, 2, 3):
        n = 2 ** k
        for big in (TWO_PI, -TWO_PI, 2 * TWO_PI, -2 * TWO_PI):
            for pos in sorted({0, n - 1, r.randrange(n)}):
                v = [r.uniform(-1, 1) for _ in range(n)]
                v[pos] = big
                emit("one angle exactly +-2 pi / +-4 pi, generic small angles elsewhere", v, ("list-float",), every_config=(k == 1 and pos == 0))
                v2 = list(v)
                v2[pos] = big + 0.3
                emit("one angle +-2 pi + 0.3 / +-4 pi + 0.3", v2, ("nd-float64",))
        emit("all angles multiples of 2 pi", [r.choice([0.0, TWO_PI, -TWO_PI, 2 * TWO_PI, -2 * TWO_PI, 3 * TWO_PI, 4 * TWO_PI]) for _ in range(n)],
             ("list-float", "nd-float64"))
        emit("all angles exactly 2 pi", [TWO_PI] * n, ("list-float",))
        emit("all angles exactly -2 pi except one (relative sign)", [-TWO_PI] * (n - 1) + [0.0], ("list-float",))
        if k >= 1:
            x = r.uniform(0.2, 1.5)
            h = n // 2
            emit("half-sums exactly 2 pi (pairs 2 pi + x, 2 pi - x)", [TWO_PI + x] * h + [TWO_PI - x] * h, ("list-float", "nd-float64"))
            emit("half-differences exactly 2 pi (pairs x + 2 pi, x - 2 pi)", [x + TWO_PI] * h + [x - TWO_PI] * h, ("list-float",))
            emit("half-sums exactly 2 pi (pairs 3 pi, pi)", [3 * math.pi, math.pi] * h if k > 1 else [3 * math.pi, math.pi], ("tuple-float",))
        emit("angles in (2 pi, 4 pi) and below -2 pi", [r.choice([1, -1]) * r.uniform(TWO_PI + 0.1, 2 * TWO_PI - 0.1) if j % 2 == 0
                                                         else r.uniform(-1, 1) for j in range(n)], ("list-float",))
    # ---- 4. call forms: every call form x every configuration on k = 0, 1, 2
    for k in (0, 1, 2):
        n = 2 ** k
        for (axis, ent, last) in CONFIGS:
            for cf in CALL_FORMS:
                form_case(ctx, "every call form x configuration", axis, ent, last, [r.uniform(-7, 7) for _ in range(n)],
                          "nd-float64" if (k + len(cf)) % 2 else "list-float", cf)
    for k in (1, 2, 3):
        for (axis, ent) in (("Y", "CX"), ("Y", "CZ"), ("Z", "CX")):
            sequence_case(ctx, axis, ent, k, [r.uniform(-4, 4) for _ in range(2 ** k)], [r.uniform(-4, 4) for _ in range(2 ** k)])
    # ---- 5. type of the flag: `last_control` True / False as numpy.bool_ (constructed, and as np.all / np.any return
    #         it), int 1 / 0 and np.int64, positionally and by keyword, on both sides of the n_qubits == 1 test (k = 0:
    #         the flag has no effect; k >= 1: it decides the closing entangler), every axis / entangler; tied with the
    #         canonical bool.  (`c_gate` is a class, `angles` a list: no other option of ucr has a boolean or falsy form.)
    flag_calls = ("positional", "keyword", "host-permuted", "same-object-twice")
    j = 0
    for k in (0, 1, 2, 3, 4):
        n = 2 ** k
        for (axis, ent, last) in CONFIGS:
            for flagform in ("np.bool_", "int", "np.bool_:computed", "np.int64"):
                if k == 4 and flagform in ("np.bool_:computed", "np.int64"):
                    continue
                j += 1
                cf = flag_calls[j % 2] if k in (0, 4) else flag_calls[j % 4]
                form_case(ctx, "type of the last_control flag", axis, ent, last, [r.uniform(-5, 5) for _ in range(n)],
                          ("list-float", "nd-float64")[j % 2], cf, flagform=flagform)


def run(ctx, kmax=None):
    gate_conventions(ctx)
    kmax_given = kmax
    kmax = kmax or (5 if ctx.quick else 7)
    ok_oracle = 5 if ctx.quick else 6
    if kmax_given is None:
        _diversity_cases(ctx)
    for k in range(0, kmax + 1):
        for axis, ent in (("Y", "CX"), ("Y", "CZ"), ("Z", "CX")):
            for last in (True, False):
                for angles in angle_lists(ctx, k):
                    check_one(ctx, axis, ent, last, k, angles, do_oracle=k <= ok_oracle)


def search(ctx, hints):
    for h in hints:
        op = h["op"]
        check_one(ctx, op["axis"], op["ent"], op["last"], op["k"], op["angles"], do_oracle=op["k"] <= 8)
    run(ctx, kmax=6)


def replay(ctx, payload):
    r = payload["replay"]
    if r.get("sequence"):
        sequence_case(ctx, r["axis"], r["ent"], int(math.log2(len(r["a1"]))), r["a1"], r["a2"])
        return
    if r.get("div"):
        form_case(ctx, r.get("name", "replay"), r["axis"], r["ent"], r["last"], r["vals"], r["form"], r.get("callform", "positional"),
                  tie=False, wires=r.get("wires"), flagform=r.get("flagform", "bool"))
        return
    k = int(math.log2(len(r["angles"])))
    check_one(ctx, r["axis"], r["ent"], r["last"], k, r["angles"])
