"""C13 — uniformly controlled rotations (qclib/gates/ucr.py)."""
import itertools
import math
import numpy as np

CLAIMED = True
TECHNIQUE = "Lean 4 proof by induction on the number of controls (two-sided invariant) in amplitude-function semantics; gate-list correspondence with ucr.py; Operator oracle"
LEVEL_TEXT = ("Full proof for the model: for every k>=0, every angle list, RY with CX or CZ and RZ with CX, the recursive "
              "circuit denotes the ideal multiplexer on every state (theorems C13_ucr, C13_nolast over any commutative ring with "
              "rotation laws; instance R->C proved from Mathlib). The model is tied to ucr.py by diffing flattened gate lists for "
              "all flag combinations and structured angle families up to k=5 (quick) / 7 (thorough); the property itself is "
              "re-evaluated on the real code with qiskit's Operator as failing-input search.")
LEVEL_NOTE = ("Trusted: Lean kernel (axioms propext, Classical.choice, Quot.sound), the hand model's agreement with ucr.py beyond the "
              "explored sizes (same recursion for all k), qiskit gate matrices (checked numerically each run), exact arithmetic vs "
              "float (leaf threshold 1e-8 modelled as angle = 0).")
LEAN_TARGETS = ["QclibModel.Props.C13"]
THEOREMS = ["Qclib.C13_ucr", "Qclib.C13_nolast"]
TRUSTED = [
    "qiskit RYGate/RZGate/CXGate/CZGate matrices equal matRY/matRZ/X/Z of Sem/Denote.lean (validated numerically each run)",
    "float: the leaf test abs(angle) > 1e-8 is modelled as 'angle = 0' in the theorem and as the same threshold in the driver",
]
ASSUMPTIONS = ["exact real arithmetic in the theorem; implementation compared to 1e-9"]
RULE = ("tie: (axis, entangler, last, k, angle list) tuples whose flattened gate list was diffed against the "
        "Lean model; oracle: Operator(ucr) vs block-diagonal reference; non-trivial = k>=1")


def rot(axis, t):
    c, s = math.cos(t / 2), math.sin(t / 2)
    if axis == "Y":
        return np.array([[c, -s], [s, c]], dtype=complex)
    return np.array([[np.exp(-0.5j * t), 0], [0, np.exp(0.5j * t)]])


def ideal(axis, angles):
    n = len(angles)
    m = np.zeros((2 * n, 2 * n), dtype=complex)
    for j, a in enumerate(angles):
        m[2 * j:2 * j + 2, 2 * j:2 * j + 2] = rot(axis, a)
    return m


UNREACHED_JUSTIFIED = {}   # ucr.py: every statement and branch outcome is reached in the quick tier


def from_leaves(leaves):
    """angle list whose fully multiplexed (leaf) angles are `leaves`: inverse of ucr's recursive
    kron([[.5,.5],[.5,-.5]], I) transform (x1 = m1 + m2, x2 = m1 - m2 at every level)."""
    if len(leaves) == 1:
        return list(leaves)
    h = len(leaves) // 2
    a, b = from_leaves(leaves[:h]), from_leaves(leaves[h:])
    return [x + y for x, y in zip(a, b)] + [x - y for x, y in zip(a, b)]


def threshold_lists(ctx, k):
    """leaf angles on both sides of ucr's `abs(angle) > 1e-8` test (2e-9: rotation dropped, 5e-8: kept), mixed
    with exact zeros and ordinary values; a factor 2.5 away from the threshold, rounding of the transform is ~1e-16"""
    r = ctx.rng
    n = 2 ** k
    out = []
    for _ in range(2):
        leaves = [r.choice([0.0, 2e-9, -2e-9, 5e-8, -5e-8, r.uniform(-3, 3)]) for _ in range(n)]
        if k >= 1:
            leaves[r.randrange(n)] = r.choice([2e-9, -2e-9])
            leaves[(r.randrange(n - 1) + 1) % n] = r.choice([5e-8, -5e-8])
        else:
            leaves = [r.choice([2e-9, -2e-9, 5e-8, -5e-8])]
        ctx.count("branch:leaf |angle| in (0, 1e-8] (rotation dropped)", sum(1 for x in leaves if 0 < abs(x) <= 1e-8))
        ctx.count("branch:leaf |angle| just above 1e-8 (rotation kept)", sum(1 for x in leaves if 1e-8 < abs(x) < 1e-7))
        out.append(from_leaves(leaves))
    return out


THR = 10 ** -8     # the literal of ucr.py line 49 (`abs(angles[0]) > 10**-8`)


def single_leaf(k, pos, x):
    """angle list whose multiplexed leaf number `pos` is exactly x and all other leaves exactly 0.0: all entries are
    +-x (a Walsh sign pattern), so every (a+b)/2, (a-b)/2 of the recursion is exact in floating point"""
    leaves = [0.0] * (2 ** k)
    leaves[pos] = x
    return from_leaves(leaves)


def boundary_lists(ctx, k):
    """boundary-value cases of ucr.py (see BOUNDARIES): the leaf test at the literal itself and one ulp on both sides
    (tie only can tell: the operator changes by 5e-9), every leaf a factor 3-8 above / 5 below the literal (the
    operator error of a moved threshold adds up over the 2^k leaves: k = 5, leaves 8e-8 -> |a_0| = 2.6e-6), exact
    zeros of both signs, multiples of pi.  Excluded band: lists whose leaves are in (1e-8/2^k .. 1e-8] with 2^k * leaf
    > 2e-7 would make the real code differ from the ideal operator by > 1e-7 by design (dropped rotations); the
    below-threshold lists here keep 2^k * leaf <= 6.4e-8."""
    n = 2 ** k
    r = ctx.rng
    up, dn = float(np.nextafter(THR, 1.0)), float(np.nextafter(THR, 0.0))
    out = []
    if k <= 3:
        for x in (THR, -THR, up, -up, dn, -dn):
            pos = [0, n - 1] if k >= 1 else [0]
            if 1 <= k <= 2:
                pos = list(range(n))
            for q in pos:
                out.append(single_leaf(k, q, x))
                ctx.count("boundary:leaf |angle| == 1e-8 exactly (dropped)" if abs(x) == THR else
                          "boundary:leaf |angle| == 1e-8 + 1ulp (kept)" if abs(x) == up else
                          "boundary:leaf |angle| == 1e-8 - 1ulp (dropped)")
        out.append([-0.0] * n)
        ctx.count("boundary:all angles -0.0")
        out.append(single_leaf(k, r.randrange(n), 1.1))
        ctx.count("boundary:exactly one non-zero leaf")
    for x in (3e-8, 8e-8, -8e-8):
        out.append(from_leaves([x] * n))          # = [n*x, 0, ..., 0]
        ctx.count("boundary:every leaf a factor 3-8 above 1e-8 (all kept)")
    out.append(from_leaves([2e-9] * n))
    ctx.count("boundary:every leaf a factor 5 below 1e-8 (all dropped)")
    out.append([r.choice([0.0, math.pi, -math.pi, 2 * math.pi, -2 * math.pi, 4 * math.pi]) for _ in range(n)])
    ctx.count("boundary:angles multiples of pi")
    return out


BOUNDARIES = {
    "ucr.py:39-40 size = len(angles), n_qubits = int(log2(size)) + 1": "k = 0..5 (sizes 1, 2, 4, 8, 16, 32) every run",
    "ucr.py:48 n_qubits == 1": "k = 0 and k = 1, 2, 3 with last_control True and False, every axis / entangler",
    "ucr.py:49 abs(angles[0]) > 10**-8": "leaf exactly 0.0 / -0.0, 2e-9, 1e-8 - 1ulp, 1e-8, 1e-8 + 1ulp, 3e-8, 5e-8, 8e-8, both "
                                         "signs, at the first / last / every leaf position (k <= 3), all leaves at once (k <= 5)",
    "ucr.py:53-55 identity(2 ** (n_qubits - 2))": "k = 1 (1x1 identity), 2, 3",
    "ucr.py:62/67 slices [: size // 2], [size // 2 :]": "k = 1 (halves of length 1), 2, 3; halves distinguished by the sign family",
    "ucr.py:63/68 reg[0:-1]": "k = 1 (one wire), 2, 3",
    "ucr.py:75 if last_control": "True / False at every k incl. k = 0 (flag without effect)",
}


def angle_lists(ctx, k):
    n = 2 ** k
    r = ctx.rng
    fams = []
    fams += boundary_lists(ctx, k)
    fams.append([r.uniform(-2 * math.pi, 2 * math.pi) for _ in range(n)])
    fams.append([r.uniform(-20, 20) for _ in range(n)])                      # > 2 pi
    fams.append([r.choice([0.0, r.uniform(-3, 3)]) for _ in range(n)])        # zeros
    fams.append([1.25] * n)                                                   # all equal: betas vanish
    fams.append([0.0] * n)
    fams.append([(1.0 if (j >> (k - 1)) & 1 else -1.0) * 0.7 for j in range(n)] if k else [0.3])
    fams.append([2 * math.atan2(4, 3) * r.choice([1, -1, 0, 2]) for _ in range(n)])  # Pythagorean
    fams += threshold_lists(ctx, k)
    # all-integer angle lists (Python ints): the (a+b)/2, (a-b)/2 transform must not inherit an integer dtype
    fams.append([r.randint(-7, 7) for _ in range(n)])
    fams.append([1 + 2 * j for j in range(n)])                                # odd integers: every half-sum is x.5 at some level
    if not ctx.quick:
        for _ in range(4):
            fams.append([r.gauss(0, 3) for _ in range(n)])
    return fams


def build(axis, ent, angles, last):
    from qclib.gates.ucr import ucr
    from qiskit.circuit.library import RYGate, RZGate, CXGate, CZGate
    return ucr(RYGate if axis == "Y" else RZGate, list(angles), CXGate if ent == "CX" else CZGate, last)


def check_one(ctx, axis, ent, last, k, angles, do_oracle=True):
    from flatten import flatten, to_lines
    from qiskit.quantum_info import Operator
    circ = build(axis, ent, angles, last)
    ctx.tie({"op": "ucr", "axis": axis, "ent": ent, "k": k, "last": last, "angles": angles},
            to_lines(flatten(circ)))
    if not do_oracle:
        return
    rep = {"call": "qclib.gates.ucr.ucr", "axis": axis, "ent": ent, "last": last, "angles": angles}
    key = f"ucr:{axis}:{ent}:{int(last)}:k={k}:{hash(tuple(angles)) & 0xffffff:x}"
    if k >= 1 and not last:
        circ = circ.copy()
        (circ.cx if ent == "CX" else circ.cz)(k, 0)
    op = Operator(circ).data
    err = float(np.abs(op - ideal(axis, angles)).max())
    ctx.count(f"{axis}{ent}{'L' if last else 'N'}")
    if err > 1e-7:
        ctx.fail(key, f"max |Operator - ideal| = {err:.3e}", dict(rep, observed_err=err))
    else:
        ctx.ok(key, nontrivial=k >= 1, sample={"axis": axis, "ent": ent, "last": last, "k": k,
                                                "angles": angles[:4], "err": err})


def gate_conventions(ctx):
    """K4 assumption: qiskit's one/two-qubit matrices are the ones Sem/Denote.lean uses."""
    from qiskit.circuit.library import RYGate, RZGate, CXGate, CZGate
    for t in (0.3, -2.2, 7.0):
        for axis, g in (("Y", RYGate), ("Z", RZGate)):
            e = np.abs(g(t).to_matrix() - rot(axis, t)).max()
            ctx.assumption_checks += 1
            if e > 1e-12:
                ctx.fail("assumption:rot-matrix", f"{axis} {t} {e}", kind="assumption")
    # little-endian: CXGate()'s matrix with qubit0 = control
    cx = np.array([[1, 0, 0, 0], [0, 0, 0, 1], [0, 0, 1, 0], [0, 1, 0, 0]])
    ctx.assumption_checks += 2
    if np.abs(CXGate().to_matrix() - cx).max() > 0 or np.abs(CZGate().to_matrix() - np.diag([1, 1, 1, -1])).max() > 0:
        ctx.fail("assumption:entangler-matrix", "CX/CZ matrix convention changed", kind="assumption")


def run(ctx, kmax=None):
    gate_conventions(ctx)
    kmax = kmax or (5 if ctx.quick else 7)
    ok_oracle = 5 if ctx.quick else 6
    for k in range(0, kmax + 1):
        for axis, ent in (("Y", "CX"), ("Y", "CZ"), ("Z", "CX")):
            for last in (True, False):
                for angles in angle_lists(ctx, k):
                    check_one(ctx, axis, ent, last, k, angles, do_oracle=k <= ok_oracle)


def search(ctx, hints):
    for h in hints:
        op = h["op"]
        check_one(ctx, op["axis"], op["ent"], op["last"], op["k"], op["angles"], do_oracle=op["k"] <= 8)
    run(ctx, kmax=6)


def replay(ctx, payload):
    r = payload["replay"]
    k = int(math.log2(len(r["angles"])))
    check_one(ctx, r["axis"], r["ent"], r["last"], k, r["angles"])
