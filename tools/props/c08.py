"""C08 — bounded approximation: BaaLowRankInitialize / util/baa.py (search logic, plan, assembly)."""
import itertools
import math
import os
import struct
import numpy as np

CLAIMED = True
TECHNIQUE = ("Lean 4 model of the BAA search as a state machine over an abstract numerical oracle (Schmidt losses/ranks and CNOT "
             "estimates are inputs); theorems by induction over the construction (budget invariant over any ordered field, "
             "qubit-partition invariant, assembly index permutation, three-key choice, CNOT telescoping); the executable model is "
             "run on the oracle answers RECORDED from the real code and its whole search tree, call sequence, plan and wire map "
             "are diffed; Statevector/transpile oracle on the real circuits")
LEVEL_TEXT = ("Proved for the model, for EVERY oracle (numerics abstract), every n, strategy, max_combination_size, use_low_rank, "
              "budget and recursion budget, by induction over the construction of the search tree: every reachable node and the "
              "node returned have total loss <= max_loss, equal to 1 - prod(1 - l_i) along the path, in [0,1] for oracle losses in "
              "[0,1] (C08_budget, C08_budget_result; any linearly ordered commutative ring); the registers of every reachable / "
              "returned node partition {0..n-1}, each strictly increasing, recorded partitions valid, and the local partition "
              "handed to the Schmidt code is the position of each global qubit in its register (C08_partition_of_qubits, "
              "C08_partition_of_result, C08_local_partition); compose(gate, qubits[::-1]) + reverse_bits reads factor j at the "
              "axis values of the index at qubits_j in listed order, for all n and all registers (C08_assembly); _search_best "
              "returns a member that no member beats in the three-key order and never fails on a non-empty list "
              "(C08_search_best, C08_search_best_some); with budget 0 only zero-loss steps are taken "
              "(C08_zero_loss_only_exact_splits) and, given exact zero-loss oracle answers (the conclusion of C09_compose) and "
              "exact factor preparation, the assembled state IS the input at every index, for arbitrarily interleaved registers "
              "(C08_zero_loss for split/canonical/brute_force and every early exit; C08_zero_loss_partial for greedy under the "
              "hypothesis that its candidates are proper subsets); total_saved_cnots is the sum of node savings = estimate(whole) - "
              "sum of factor estimates, 0 at the root and > 0 elsewhere (C08_saved_nonneg), hence never more CNOTs than exact "
              "low-rank preparation GIVEN C10 (C08_cnots_conditional); nested approximations multiply overlaps "
              "(C08_true_loss_nested_partial: the algebraic core of the n<=3 true-loss claim). Added: the candidates of "
              "_greedy_combinations are non-empty strictly increasing lists of at most max_k qubits of the register, for every oracle "
              "whose answer without low rank starts with the rank-1 separation (C08_greedy_candidates), hence exactness at zero loss "
              "for ALL FOUR strategies (C08_zero_loss_all, supersedes C08_zero_loss_partial); every returned plan is reached in at most "
              "n-1 approximations and for n<=3 at most one register of any reachable plan has more than one qubit - every plan is a "
              "nesting of at most two splits with single-qubit siblings (C08_plan_nesting_n3); the rank-1 truncation has overlap "
              "conj(s0), true loss 1-|s0|^2, and two nested truncations have true loss = accounted loss 1-(1-l2)(1-l1) "
              "(C08_rank1_loss); combined for n<=3 in C08_true_loss_n3_partial (missing: identification of the model's plan tensor "
              "with the bipartition-matrix form under the interleaved index maps). Tie: the executable model is run, "
              "in IEEE doubles and in exact rationals, on the oracle answers recorded from the real adaptive_approximation "
              "(_reduce_entanglement keyed by the local partition actually passed to schmidt_decomposition, cnot_count) and the "
              "whole pre-run and search trees (every node: vectors, qubits, ranks, partitions, losses, saved CNOTs), the sequence "
              "of _reduce_entanglement calls, the early-exit decision, the returned plan and the wire map of the real definition "
              "are diffed, for 11 vector families x 4 strategies (+ an unknown strategy string) x use_low_rank x "
              "max_combination_size x 7 budgets (+ out-of-range budgets) on n<=6 quick / n<=7 thorough; the pure helpers "
              "(_split/_all_combinations, the local index map, the assembly index map through real qiskit compose/reverse_bits) "
              "are diffed exhaustively on small ranges. Tested only: Statevector of the real definition vs input at zero loss "
              "(1e-7), vs the independently computed plan tensor (all l), plan loss <= l, true loss = accounted loss <= l for "
              "n<=3, transpiled cx count <= that of LowRankInitialize.")
LEVEL_NOTE = ("Trusted: Lean kernel (standard axioms); the numerics are parameters of the model: np.linalg.svd / "
              "schmidt_decomposition / low_rank_approximation (losses 1 - sum s_i^2 in [0,1], exact factorisation at zero loss: "
              "hypotheses ExactSplits, validated by the Statevector oracle), lowrank.cnot_count (C10), LowRankInitialize preparing "
              "its vector exactly (C07/C01), qiskit compose / reverse_bits / Statevector / transpile; IEEE doubles vs exact "
              "arithmetic (the driver runs both; runs where they choose different plans are counted as rounding-borderline); the "
              "hand model agrees with baa.py only on the inputs explored; the recursion budget 2n+2 of the model is not proved "
              "sufficient (the driver prints a truncation flag that the tie compares with 0).")
LEAN_TARGETS = ["QclibModel.Props.C08"]
DRIVER = "Drivers/C08.lean"
THEOREMS = ["Qclib.C08_assembly", "Qclib.C08_partition_of_qubits", "Qclib.C08_partition_of_result",
            "Qclib.C08_local_partition", "Qclib.C08_budget", "Qclib.C08_budget_result", "Qclib.C08_search_best",
            "Qclib.C08_search_best_some", "Qclib.C08_zero_loss_only_exact_splits", "Qclib.C08_zero_loss_partial",
            "Qclib.C08_zero_loss", "Qclib.C08_saved_nonneg", "Qclib.C08_cnots_conditional",
            "Qclib.C08_true_loss_nested_partial", "Qclib.C08_greedy_candidates", "Qclib.C08_zero_loss_all",
            "Qclib.C08_plan_nesting_n3", "Qclib.C08_rank1_loss", "Qclib.C08_true_loss_n3_partial", "Qclib.C08_true_loss_n3_le", "Qclib.C08_lowrank_answer"]
TRUSTED = [
    "np.linalg.svd via schmidt_decomposition/low_rank_approximation: fidelity losses 1 - sum(s_i^2) in [0,1]; at zero loss the vector is the "
    "one-term Schmidt composition of svd_u[:,0], svd_v[0,:] (hypothesis ExactSplits of C08_zero_loss; conclusion of C09_compose; validated by the "
    "Statevector oracle each run)",
    "lowrank.cnot_count equals the CNOT count of the circuits built (C10; hypothesis of C08_cnots_conditional; compared via transpile each run)",
    "LowRankInitialize(vector, partition, lr) prepares its vector exactly (C07/C01) and qiskit compose / reverse_bits / Statevector / transpile",
    "IEEE-754 doubles vs exact arithmetic: the model is run in both; decisions that differ are counted (rounding-borderline), not hidden",
]
ASSUMPTIONS = ["exact arithmetic in the theorems; implementation compared to 1e-7 on amplitudes, 1e-12 on losses",
               "generated vectors keep Schmidt coefficients outside (1e-12, 1e-3), except 24 deliberately placed 'svcut' cases with one "
               "coefficient a factor 3 below / above the 1e-7 rank cut (3.3e-8, 3e-7), compared to 3e-6 on amplitudes",
               "n >= 2 (a one-qubit input never reaches the search)",
               "input-diversity cases: light tails / Schmidt coefficients of 1e-3 .. 1e-6 go through the circuit only where no factor of >= 3 "
               "qubits has to be prepared exactly (n = 2, factors of <= 2 qubits); otherwise the property is read off the returned plan "
               "(adaptive_approximation directly, or gate.node).  Four fixed probes keep the excluded band visible: a deviation there that "
               "vanishes with qclib.unitary._apply_a2 bypassed is reported as baa:dense-a2-precision:*, the UCGate kernel raise as "
               "baa:ucgate-kernel-raises:* (root causes K-C07-1 / K-C01-1 / K-C06-1 resp. K-C03-2)",
               "float32 / complex64 inputs: exactly representable ones are held to 1e-7; generic ones may be rejected with the documented "
               "ValueError (norm check) or must be right for the up-cast input to 1e-5"]
RULE = ("tie: (vector, max_fidelity_loss, strategy, max_combination_size, use_low_rank) on which the real adaptive_approximation "
        "was executed with _reduce_entanglement / schmidt_decomposition / cnot_count recorded and the model replayed; oracle: the "
        "same calls, Statevector of the real definition vs input / plan tensor / budget / true loss / cx counts; non-trivial = "
        "n>=2; distinct = distinct (vector family, n, options)")

UNREACHED_JUSTIFIED = {
    "qclib/state_preparation/util/baa.py:349->350": "dead: svd_s is cut to 2**ceil(log2(effective rank)) entries, so every low_rank <= len/2 "
                                                    "< effective rank and low_rank_approximation returns exactly low_rank",
    "qclib/state_preparation/util/baa.py:Node.__str__": "debug printing, not used by the initializer",
    "qclib/entanglement.py:_get_iota,generalized_cross_product,meyer_wallach_entanglement,geometric_entanglement": "entanglement measures, not "
                                                    "used by BAA / LowRankInitialize (C09 covers schmidt_*; the measures are outside C08)",
    "qclib/entanglement.py:qb_approximation": "unused alternative to randomized_svd",
}

LOSSES = [0.0, 1e-3, 0.05, 0.1, 0.3, 0.5, 1.0]
STRATS = ["greedy", "brute_force", "split", "canonical"]
TOL = 1e-7
_CTX = None


# ---------------------------------------------------------------------------------------------
# recording the real run (add-only wrappers installed from here, /repo is never edited)
# ---------------------------------------------------------------------------------------------

def _bits(x):
    return struct.unpack("<Q", struct.pack("<d", float(x)))[0]


def enc_loss(x):
    x = float(x)
    num, den = x.as_integer_ratio()
    return {"b": _bits(x), "n": num, "d": den}


class Recorder:
    """Wraps the module-level functions of qclib.state_preparation.util.baa for the duration of one
    call: records every answer of `_reduce_entanglement` (keyed by the vector and by the *local
    partition actually handed to schmidt_decomposition*), every `cnot_count` answer, every node at
    creation and the calls made while each node was expanded."""

    NAMES = ["_reduce_entanglement", "schmidt_decomposition", "schmidt_cnots", "_create_node",
             "_build_approximation_tree"]

    def __init__(self):
        from qclib.state_preparation.util import baa
        self.baa = baa
        self.vecs = {}
        self.table = {}
        self.cn = {}
        self.roots = []
        self.stack = []
        self.depth = 0
        self.info_of = {}
        self.keep = []
        self.sentinel = 900000
        self.cur_lp = None
        self.anomalies = []
        self.bcounts = set()
        self.order_sensitive = set()
        self.lri_calls = []
        self.orig = {}

    def vid(self, v):
        a = np.ascontiguousarray(np.asarray(v, dtype=complex).reshape(-1))
        return self.vecs.setdefault(a.tobytes(), len(self.vecs))

    def fresh(self):
        self.sentinel += 1
        return self.sentinel

    def rec_of(self, nd):
        return [(self.vid(v), tuple(int(x) for x in q), int(r), None if p is None else tuple(int(x) for x in p))
                for v, q, r, p in zip(nd.vectors, nd.qubits, nd.ranks, nd.partitions)]

    def __enter__(self):
        baa = self.baa
        for nm in self.NAMES:
            self.orig[nm] = getattr(baa, nm)
        o = self.orig
        R = self

        def w_schmidt(state_vector, partition, *a, **k):
            R.cur_lp = [int(x) for x in partition]
            return o["schmidt_decomposition"](state_vector, partition, *a, **k)

        def w_reduce(state_vector, register, partition, use_low_rank=False):
            R.cur_lp = None
            infos = o["_reduce_entanglement"](state_vector, register, partition, use_low_rank)
            if use_low_rank:                    # `range(0, max_ebits + 1)`, max_ebits = log2(len(svd_s)) - 1 (baa.py:340-342)
                R.bcounts.add(f"boundary:low-rank-candidates:{min(len(infos), 3)}(3=more)")
            v = R.vid(state_vector)
            lp = R.cur_lp if R.cur_lp is not None else [-1]
            key = (v, tuple(lp), bool(use_low_rank))
            rec = R.table.get(key)
            if rec is None:
                rec = {"v": v, "lp": list(lp), "u": bool(use_low_rank),
                       # vv / vu name svd_v.T[:, 0] / svd_u[:, 0] of the answer itself (what the model's
                       # SvdInfo.vecV / vecU stand for); va is learnt when _create_node builds the state
                       "infos": [dict(enc_loss(e.fidelity_loss), r=int(e.rank), vv=R.vid(np.asarray(e.svd_v).T[:, 0]),
                                      vu=R.vid(np.asarray(e.svd_u)[:, 0]), va=R.fresh()) for e in infos]}
                R.table[key] = rec
            elif [(d["r"], d["b"]) for d in rec["infos"]] != [(int(e.rank), _bits(e.fidelity_loss)) for e in infos]:
                R.anomalies.append(f"non-deterministic _reduce_entanglement for key {key}")
            for e, d in zip(infos, rec["infos"]):
                R.info_of[id(e)] = d
                R.keep.append(e)
            if R.stack:
                R.stack[-1].append((v, bool(use_low_rank), tuple(int(x) for x in register),
                                    tuple(int(x) for x in partition)))
            return infos

        def w_cnots(state_vector, *a, **k):
            c = o["schmidt_cnots"](state_vector, *a, **k)
            low_rank = k.get("low_rank", a[0] if a else 0)
            partition = k.get("partition", None)
            key = (R.vid(state_vector), None if partition is None else tuple(int(x) for x in partition), int(low_rank))
            if R.cn.setdefault(key, int(c)) != int(c):
                R.anomalies.append(f"non-deterministic cnot_count for key {key}")
            return c

        def w_create(parent, e_info):
            new = o["_create_node"](parent, e_info)
            sc = int(new.total_saved_cnots)     # `new_node.total_saved_cnots > 0` (baa.py:252)
            R.bcounts.add("boundary:total_saved_cnots:" + ("<0" if sc < 0 else "=0" if sc == 0 else "=1" if sc == 1 else ">1"))
            if e_info.rank == 1 and max(e_info.register) >= 8:
                # baa.py:387-389 sorts the remaining register; iterating the bare set would give another order here
                rest = tuple(set(e_info.register).difference(e_info.partition))
                if rest != tuple(sorted(rest)):
                    R.order_sensitive.add(tuple(sorted(rest)))
            if e_info.rank == 1:                # `len(partition) == 1` (baa.py:394,399)
                R.bcounts.add(f"boundary:split-sizes:{min(len(e_info.partition), 3)}|"
                              f"{min(len(e_info.register) - len(e_info.partition), 3)}(3=more)")
            d = R.info_of.get(id(e_info))
            if d is not None and e_info.rank != 1:
                d["va"] = R.vid(new.vectors[-1])
            new._rec = R.rec_of(new)
            return new

        def w_build(node, *a, **k):
            if R.depth == 0:
                R.roots.append(node)
                node._rec = R.rec_of(node)
            node._queries = []
            R.stack.append(node._queries)
            R.depth += 1
            try:
                return o["_build_approximation_tree"](node, *a, **k)
            finally:
                R.depth -= 1
                R.stack.pop()

        import qclib.state_preparation.baa_lowrank as bl
        R.bl = bl
        R.orig_lri = bl.LowRankInitialize

        def w_lri(params, *a, **k):
            # the options each factor of the plan is handed (snapshot at call time + the instance, whose attributes are read
            # again after the whole definition has been assembled)
            opts = k.get("opt_params", a[1] if len(a) > 1 else None)
            inst = R.orig_lri(params, *a, **k)
            R.lri_calls.append((np.array(params, dtype=complex).reshape(-1), None if opts is None else dict(opts), inst))
            return inst
        bl.LowRankInitialize = w_lri
        baa._reduce_entanglement = w_reduce
        baa.schmidt_decomposition = w_schmidt
        baa.schmidt_cnots = w_cnots
        baa._create_node = w_create
        baa._build_approximation_tree = w_build
        return self

    def __exit__(self, *exc):
        for nm, f in self.orig.items():
            setattr(self.baa, nm, f)
        self.bl.LowRankInitialize = self.orig_lri
        return False


def _nums(xs):
    return "".join(" " + str(int(x)) for x in xs)


def entry_line(tag, e):
    v, q, r, p = e
    return f"{tag}e {v} {r} {len(q)}{_nums(q)}" + (" -1" if p is None else f" {len(p)}{_nums(p)}")


def node_lines(tag, head, nd, rec):
    out = [f"{tag}{head} {int(nd.node_saved_cnots)} {int(nd.total_saved_cnots)} {len(rec)} ; "
           f"{float(nd.node_fidelity_loss)!r} {float(nd.total_fidelity_loss)!r}"]
    out += [entry_line(tag, e) for e in rec]
    return out


def tree_lines(tag, root):
    out = []

    def rec(nd, depth):
        out.extend(node_lines(tag, f"node {depth} {int(len(nd.nodes) == 0)} 0", nd, nd._rec))
        for (v, u, reg, part) in getattr(nd, "_queries", []):
            out.append(f"{tag}q {v} {int(u)} {len(reg)}{_nums(reg)} {len(part)}{_nums(part)}")
        for c in nd.nodes:
            rec(c, depth + 1)

    rec(root, 0)
    return out


# ---------------------------------------------------------------------------------------------
# one case: real run (recorded) -> tie op + impl lines + oracle verdicts
# ---------------------------------------------------------------------------------------------

def plan_tensor(n, vectors, qubits):
    """Independent of numpy's axis functions: amplitude at I = product of the factor amplitudes at
    the index whose bits are the bits of I at the factor's qubits (qubit q = bit n-1-q), in the
    listed order, most significant first."""
    idx = np.arange(2 ** n)
    out = np.ones(2 ** n, dtype=complex)
    for v, qs in zip(vectors, qubits):
        x = np.zeros(2 ** n, dtype=int)
        for q in qs:
            x = 2 * x + ((idx >> (n - 1 - q)) & 1)
        out = out * np.asarray(v, dtype=complex)[x]
    return out


def cx_count(circ):
    from qiskit import transpile
    return int(transpile(circ, basis_gates=["u", "cx"], optimization_level=0).count_ops().get("cx", 0))


def case_key(check, c):
    return f"baa:{check}:{c['kind']}:n={c['n']}:s={c['s']}:u={int(c['u'])}:c={c['c']}:l={c['l']}:{c['tag']}"


def run_case(c):
    """Executed in a worker process.  Returns dict(op, impl, checks=[(key, ok, detail, nontrivial)],
    counts=[...], anomalies=[...])."""
    if c.get("entry") == "aa":        # input-diversity: adaptive_approximation called directly (plan-level oracle, no circuit)
        return run_aa_case(c)
    if c.get("alts"):                 # several candidate states: the first whose plan has a rank>1 leaf followed by another factor
        c = _pick_alt(c)
    from qiskit.quantum_info import Statevector
    from qclib.state_preparation import BaaLowRankInitialize, LowRankInitialize
    n = c["n"]
    v = np.array([complex(a, b) for a, b in c["vec"]])
    opt = {"max_fidelity_loss": c["l"], "strategy": c["s"], "max_combination_size": c["c"], "use_low_rank": c["u"]}
    res = {"checks": [], "counts": [], "anomalies": [], "op": None, "impl": None}
    tol = float(c.get("tol", TOL))
    rep = {"call": "BaaLowRankInitialize(vector, opt_params=opt).definition", "vector": c["vec"], "opt": opt,
           "kind": c["kind"], "n": n, "tag": c["tag"], "do_cx": c.get("do_cx", False), "ref_form": c.get("ref_form", 0),
           "straddle": bool(c.get("straddle", False))}
    form = c.get("form", "opt")
    rep.update({k: c[k] for k in ("form", "iso", "uni", "qubits", "rsvd_seed", "tol") if k in c})
    static_qubits = None
    host = None
    dv = None
    if form.startswith("dv-"):        # input-diversity call forms: the whole case is the replay (see _dv_construct)
        rep["case"] = c
        rep["call"] = _dv_describe(c)
    if n >= 14:
        # schmidt_decomposition switches to randomized_svd (module-level unseeded generator): seed it so
        # that the run is a function of VERIF_SEED (module state only, /repo untouched)
        import qclib.entanglement as _ent
        _ent._rng = np.random.default_rng(c.get("rsvd_seed", 0))
    try:
        if form.startswith("dv-"):
            # gate(s) / host built in the requested element type and call form; only the definitions of the OTHER objects of
            # the form (the copy, the second construction ...) are read here, outside the recording wrappers
            dv = _dv_construct(c)
        with Recorder() as R:
            if dv is not None:
                gate, host, static_qubits = dv["gate"], dv["host"], dv["static_qubits"]
            elif form == "none":            # opt_params=None: every option at its default
                gate = BaaLowRankInitialize(list(v))
            elif form == "empty":         # opt_params={}: every .get() is None
                gate = BaaLowRankInitialize(list(v), opt_params={})
            elif form == "label":
                gate = BaaLowRankInitialize(list(v), label="psi", opt_params=opt)
            elif form == "ndarray":       # params as ndarray instead of list
                gate = BaaLowRankInitialize(v, opt_params=opt)
            elif form == "schemes":       # iso_scheme / unitary_scheme handed down to LowRankInitialize
                gate = BaaLowRankInitialize(list(v), opt_params=dict(opt, iso_scheme=c["iso"], unitary_scheme=c["uni"]))
            elif form == "static":        # static entry point, qubits=None
                from qiskit import QuantumCircuit
                host = QuantumCircuit(n)
                BaaLowRankInitialize.initialize(host, list(v), opt_params=opt)
                gate = host.data[0].operation
                static_qubits = list(range(n))
            elif form == "static-qubits":  # static entry point, explicit (permuted) qubit list on a wider circuit
                from qiskit import QuantumCircuit
                static_qubits = list(c["qubits"])
                host = QuantumCircuit(max(n + 1, max(static_qubits) + 1) if not c.get("exact_width") else n)
                BaaLowRankInitialize.initialize(host, list(v), qubits=static_qubits, opt_params=opt)
                gate = host.data[0].operation
            else:
                gate = BaaLowRankInitialize(list(v), opt_params=opt)
            defn = gate.definition
    except Exception as e:  # qclib raised on a valid input
        if c.get("expect") == "reject-or-close" and isinstance(e, ValueError) and "amplitudes-squared" in str(e):
            # reduced-precision dtype whose up-cast value is not a unit vector to 1e-10: the documented rejection
            res["counts"].append("diversity:reduced-precision:documented-rejection(ValueError)")
            res["checks"].append((case_key("reduced-precision-rejected", c), True, "", True, rep))
            return res
        res["checks"].append((case_key("raises", c), False, f"{type(e).__name__}: {e}", True, rep))
        return res
    node = gate.node
    if c.get("formcheck"):
        res["checks"].append(_form_plan_check(c, node, rep))
    if c.get("expect") == "reject-or-close":
        # accepted: the result must be right for the (normalised) up-cast input to 1e-5
        res["counts"].append("diversity:reduced-precision:accepted")
        v = v / np.linalg.norm(v)
        tol = max(tol, 1e-5)
    if form != "opt":
        res["counts"].append("branch:call-form:" + form)
    if n >= 14:
        res["counts"].append("branch:schmidt:randomized-svd(n>=14)")
    res["anomalies"] = R.anomalies
    # ---- tie ----
    early = c["s"] != "canonical" and len(R.roots) == 1
    impl = []
    if c["s"] != "canonical":
        impl += tree_lines("pre:", R.roots[0])
    impl.append(f"early {int(early)}")
    if not early:
        impl += tree_lines("", R.roots[-1])
    impl += node_lines("", "ret", node, R.rec_of(node))
    for inst in defn.data:
        impl.append("wires" + _nums(defn.find_bit(q).index for q in inst.qubits))
    res["impl"] = impl
    root_vec = v if dv is None else np.asarray(gate.params, dtype=complex)     # what the gate really handed to the search
    res["op"] = None if c.get("notie") else {"op": "baa", "n": n, "root": R.vid(root_vec), "strategy": c["s"], "maxK": c["c"], "ulr": bool(c["u"]),
                 "maxLoss": enc_loss(c["l"]), "schmidt": list(R.table.values()),
                 "cnots": [{"v": k[0], "p": None if k[1] is None else list(k[1]), "lr": k[2], "c": cc}
                           for k, cc in R.cn.items()],
                 "label": case_key("tie", c)}
    res["counts"].append("early" if early else "search")
    res["counts"].append(f"plan:{len(node.qubits)}-factors")
    if any(r > 1 for r in node.ranks):
        res["counts"].append("plan:has-lowrank-factor")
    res["counts"] += sorted(R.bcounts)
    if c.get("straddle"):
        # a final factor of 2-4 qubits whose qubits, iterated as a CPython set, do NOT come out ascending: the plan is
        # only right because _create_node sorts the remaining register
        if any(tuple(q) in R.order_sensitive for q in node.qubits):
            res["counts"].append("boundary:final-block-set-order-differs-from-sorted")
        elif R.order_sensitive:
            res["counts"].append("boundary:inner-register-set-order-differs-from-sorted")
        else:
            res["counts"].append("boundary:set-order-ascending-throughout(insensitive)")
    # ---- the options every factor of the plan was handed (baa_lowrank.py:139-149): ITS OWN rank / bipartition or none ----
    exp_iso = c["iso"] if form == "schemes" else "ccd"
    exp_uni = c["uni"] if form == "schemes" else "qsd"
    if dv is not None:
        exp_iso, exp_uni = dv["iso"], dv["uni"]
        res["counts"] += _dv_plan_counts(c, node)
    probs = []
    if len(R.lri_calls) != len(node.vectors):
        probs.append(f"{len(R.lri_calls)} LowRankInitialize calls for {len(node.vectors)} factors")
    for j, ((pv, opts, inst), fv, rank, part) in enumerate(zip(R.lri_calls, node.vectors, node.ranks, node.partitions)):
        opts = opts or {}
        fv = np.asarray(fv, dtype=complex).reshape(-1)
        if pv.shape != fv.shape or np.abs(pv - fv).max() > 0:
            probs.append(f"factor {j}: another vector was handed over")
        want_p = None if part is None else [int(x) for x in part]
        for tag, got_p, got_lr in (("at the call", opts.get("partition"), opts.get("lr")),
                                   ("on the gate after assembly", inst.partition, inst.low_rank)):
            got_p = None if got_p is None else [int(x) for x in got_p]
            if got_p != want_p:
                probs.append(f"factor {j} (qubits {node.qubits[j]}): partition {got_p} {tag}, plan says {want_p}")
            ok_lr = (got_lr == rank) or (part is None and got_lr in (None, 0))
            if not ok_lr:
                probs.append(f"factor {j} (qubits {node.qubits[j]}): lr {got_lr} {tag}, plan rank {rank}")
        if (opts.get("iso_scheme") or "ccd") != exp_iso or (opts.get("unitary_scheme") or "qsd") != exp_uni \
                or inst.isometry_scheme != exp_iso or inst.unitary_scheme != exp_uni:
            probs.append(f"factor {j}: schemes {opts.get('iso_scheme')}/{opts.get('unitary_scheme')} at the call, "
                         f"{inst.isometry_scheme}/{inst.unitary_scheme} on the gate, expected {exp_iso}/{exp_uni}")
    res["checks"].append((case_key("factor-options", c), not probs, "; ".join(probs[:4]) + f" [plan qubits={node.qubits} "
                          f"ranks={node.ranks} partitions={node.partitions}]", True, rep))
    lr_pos = [j for j, p in enumerate(node.partitions) if p is not None]
    if lr_pos:
        after = [len(q) for q in node.qubits[lr_pos[0] + 1:]]
        before = [len(q) for q in node.qubits[:lr_pos[-1]]]
        if any(k >= 2 for k in after):
            res["counts"].append("boundary:plan:lowrank-leaf-BEFORE-multiqubit-factor")
        if any(k >= 2 for k in before):
            res["counts"].append("boundary:plan:lowrank-leaf-AFTER-multiqubit-factor")
        if len(lr_pos) >= 2:
            res["counts"].append("boundary:plan:two-lowrank-leaves")
    # ---- oracle ----
    l_eff = c["l"] if 0 <= c["l"] <= 1 else 0.0
    if c.get("lighttail") and max(len(q) for q in node.qubits) >= 3:
        # light tails (1e-3 .. 1e-6) inside a factor of >= 3 qubits: its exact preparation runs into the precision limit of qiskit's
        # A.2 pass / the UCGate kernel (see the header of the diversity section) - the property is read off the plan instead
        res["counts"].append("diversity:light-tail:factor>=3-qubits:plan-level-oracle")
        for k in _plan_checks(c, node, v, R, rep, tol, False, "planlevel:"):
            (res["counts"].append(k[1]) if k[0] == "count" else res["checks"].append(k))
        if dv is not None and dv.get("host") is not None and c["form"] == "dv-static":
            wires = [dv["host"].find_bit(q).index for q in dv["host"].data[-1].qubits]
            res["checks"].append((case_key("host-wires", c), wires == dv["static_qubits"] and dv["appended"] == 1,
                                  f"appended on wires {wires}, asked {dv['static_qubits']}", True, rep))
        return res
    try:
        sv = np.asarray(Statevector(defn).data)
    except Exception as e:
        import traceback
        tb = traceback.format_exc()
        bad_blocks = []
        if "generalized_gates/uc.py" in tb and "_dec_ucg" in tb and "not unitary" in str(e):
            _classify_raise(node, bad_blocks)      # every 2x2 block qclib's Lemma 2 hands to UCGate is unitary to 1e-9?
        if "generalized_gates/uc.py" in tb and "_dec_ucg" in tb and "not unitary" in str(e) and not bad_blocks:
            # qiskit's UCGate kernel rejecting its own 2x2 factors inside isometry 'ccd' on columns with entries of 1e-9 .. 1e-17
            # (K-C03-2 for isometry.decompose): reported under its own key
            res["counts"].append("ucgate-kernel:exact preparation of a factor with a light tail")
            msg = (f"simulating the definition raised {type(e).__name__}: {e} from qiskit's UCGate._dec_ucg (isometry ccd of a "
                   f"factor with a light tail); plan qubits={node.qubits} ranks={node.ranks}")
            if DV_KNOWN_ROOT_CAUSE_AS_FAILURE:
                res["checks"].append((case_key("ucgate-kernel-raises", c), False, msg, True, rep))
            else:
                res["anomalies"].append("known root cause (K-C03-2), not counted as a C08 failure: " + case_key("ucgate-kernel-raises", c) + ": " + msg)
                for k in _plan_checks(c, node, v, R, rep, tol, False, "planlevel:"):
                    (res["counts"].append(k[1]) if k[0] == "count" else res["checks"].append(k))
            return res
        # the factors' own definitions are built lazily, while the circuit is simulated: qclib (or the qiskit kernel under it)
        # raised on a valid input
        why = _classify_raise(node)
        res["checks"].append((case_key("raises" + (":" + why if why else ""), c), False,
                              f"simulating the definition raised {type(e).__name__}: {e}; plan qubits={node.qubits} ranks={node.ranks}"
                              + (" -- a Lemma-2 pair (isometry.py:_unitary) whose squares are subnormal gave a non-unitary 2x2 matrix"
                                 if why else ""), True, rep))
        return res
    plan = plan_tensor(n, node.vectors, node.qubits)
    err_plan = float(np.abs(sv - plan).max())
    res["checks"].append((case_key("plan", c), err_plan <= tol, f"max|Statevector - plan tensor| = {err_plan:.3e}; "
                          f"qubits={node.qubits} ranks={node.ranks} partitions={node.partitions}", True, rep))
    # Node.state_vector() / Node.num_qubits(): the library's own reading of the plan
    try:
        nsv = np.asarray(node.state_vector(), dtype=complex).reshape(-1)
        err_nsv = float(np.abs(nsv - plan).max()) if nsv.shape == plan.shape else float("inf")
        okn = err_nsv <= tol and node.num_qubits() == n
        res["checks"].append((case_key("node-state-vector", c), okn,
                              f"max|node.state_vector() - plan tensor| = {err_nsv:.3e}; num_qubits()={node.num_qubits()} "
                              f"qubits={node.qubits}", True, rep))
    except Exception as e:
        if len(node.vectors) == 1 and isinstance(node.vectors[0], list):
            # unsplit root whose vector is still the caller's Python list: tensorly's kronecker wants ndarrays.  A defect of
            # the reporting helper only (the initializer never calls Node.state_vector) - counted, reported, not a C08 failure
            res["counts"].append("out-of-scope:Node.state_vector-raises-on-unsplit-list-root")
        else:
            res["checks"].append((case_key("node-state-vector", c), False,
                                  f"node.state_vector() raised {type(e).__name__}: {e}", True, rep))
    if dv is not None:
        for name, okc, detail in _dv_post(c, dv, gate, defn, sv, v, tol):
            res["checks"].append((case_key(name, c), okc, detail, True, rep))
    elif host is not None:
        # the appended instruction sits on the requested wires and the host circuit prepares the state there
        wires = [host.find_bit(q).index for q in host.data[0].qubits]
        hv = np.asarray(Statevector(host).data)
        want = np.zeros(2 ** host.num_qubits, dtype=complex)
        for x in range(2 ** n):
            big = 0
            for k in range(n):
                if (x >> k) & 1:
                    big |= 1 << static_qubits[k]
            want[big] = sv[x]
        err_h = float(np.abs(hv - want).max())
        res["checks"].append((case_key("static-wiring", c), wires == static_qubits and err_h <= TOL,
                              f"initialize(...) appended on wires {wires} (asked {static_qubits}); host state error {err_h:.3e}",
                              True, rep))
    cover = sorted(q for qs in node.qubits for q in qs)
    res["checks"].append((case_key("cover", c), cover == list(range(n)) and all(list(q) == sorted(q) for q in node.qubits),
                          f"plan qubits {node.qubits}", True, rep))
    if l_eff == 0.0:
        err0 = float(np.abs(sv - v).max())
        res["checks"].append((case_key("exact0", c), err0 <= tol, f"max|Statevector - input| = {err0:.3e} at zero loss; "
                              f"plan qubits={node.qubits} loss={node.total_fidelity_loss}", True, rep))
    if c.get("straddle") and 0.0 < l_eff <= 1e-12:
        # exactly separable input (every cut that is not a union of groups loses > 1e-3): a budget of 1e-12 admits only the
        # exact splits, so the circuit must still prepare the input
        err0 = float(np.abs(sv - v).max())
        res["checks"].append((case_key("exact-separable", c), err0 <= tol, f"max|Statevector - input| = {err0:.3e} at budget "
                              f"{l_eff!r} on an exactly separable state; plan qubits={node.qubits} loss={node.total_fidelity_loss}",
                              True, rep))
    tl = float(node.total_fidelity_loss)
    res["checks"].append((case_key("budget", c), tl <= l_eff + 1e-12, f"plan loss {tl!r} > allowed {l_eff!r}", True, rep))
    prod = 1.0
    for x in _losses_on_path(R, node):
        prod *= (1.0 - x)
    res["checks"].append((case_key("loss-accounting", c), abs((1.0 - prod) - tl) <= 1e-12,
                          f"total loss {tl!r} vs 1-prod(1-l_i) {1.0 - prod!r}", True, rep))
    if n <= 3:
        true_loss = 1.0 - abs(np.vdot(v, sv)) ** 2
        res["checks"].append((case_key("trueloss", c), true_loss <= l_eff + 1e-9,
                              f"true loss {true_loss!r} > allowed {l_eff!r} (plan loss {tl!r})", True, rep))
        res["checks"].append((case_key("trueloss-eq", c), abs(true_loss - tl) <= (1e-6 if c.get("expect") == "reject-or-close" else 1e-9),
                              f"true loss {true_loss!r} vs accounted {tl!r}", True, rep))
    if c.get("do_cx"):
        cb = cx_count(defn)
        # reference: exact low-rank preparation, built through the different entry forms of lowrank.py
        ref_form = c.get("ref_form", 0) % 4
        if ref_form == 0:
            ref = LowRankInitialize(list(v)).definition
        elif ref_form == 1:
            ref = LowRankInitialize(list(v), opt_params={}).definition           # schemes default inside the else-branch
        elif ref_form == 2:
            ref = LowRankInitialize(list(v), label="ref", opt_params={"lr": 0}).definition
        else:
            from qiskit import QuantumCircuit
            ref = QuantumCircuit(n)
            LowRankInitialize.initialize(ref, list(v), qubits=None if (c.get("ref_form", 0) // 4) % 2 == 0 else list(range(n)))
        res["counts"].append(f"branch:lowrank-ref-form:{ref_form}")
        err_ref = float(np.abs(np.asarray(Statevector(ref).data) - v).max())
        res["checks"].append((case_key("lowrank-ref-exact", c), err_ref <= TOL,
                              f"reference LowRankInitialize (entry form {ref_form}) error {err_ref:.3e}", True, rep))
        cl = cx_count(ref)
        res["counts"].append("cx:compared")
        name, extra_msg = "cx", ""
        if cb > cl:
            # BAA decides with the closed-form ESTIMATES (C10: exact only for states in general position).  When the exact
            # reference circuit is cheaper than its own estimate while BAA's circuit stays within the estimate of its plan
            # (= estimate of the exact preparation - total_saved_cnots), the excess comes from the estimate over-counting the
            # exact preparation of a structured state, not from the search: reported under its own narrow key.
            try:
                from qclib.state_preparation.lowrank import cnot_count as _lr_cnots
                est_exact = int(_lr_cnots(list(v)))
                if cl < est_exact and cb <= est_exact - int(node.total_saved_cnots):
                    name = "cx-exact-cheaper-than-estimate"
                    extra_msg = (f"; estimate of the exact preparation {est_exact} > its circuit {cl}, BAA circuit {cb} <= estimate of "
                                 f"its plan {est_exact - int(node.total_saved_cnots)}")
            except Exception:
                pass
        res["checks"].append((case_key(name, c), cb <= cl, f"BAA circuit {cb} cx > LowRankInitialize {cl} cx "
                              f"(plan saved {node.total_saved_cnots})" + extra_msg, True, dict(rep, cx_baa=cb, cx_lowrank=cl)))
    if gate is not None and hasattr(gate, "_define_initialize"):
        # every family (the classification is strict: the error must vanish with the A.2 pass bypassed)
        _dv_classify_a2(c, gate, v, tol, l_eff, res, rep)
    return res


def _classify_raise(node, seen_out=None):
    """Failure path only: rebuild every factor of the plan with a spy on qclib.isometry._unitary (Lemma 2).  Returns
    'subnormal-pair' when a pair of amplitudes of norm < 1e-150 (squares subnormal: np.linalg.norm is then off by several
    percent) produced a 2x2 matrix that is not unitary, else ''."""
    import qclib.isometry as qi
    from qiskit.quantum_info import Statevector
    from qclib.state_preparation import LowRankInitialize
    seen = []
    orig = qi._unitary

    def spy(iso, basis=0):
        out = orig(iso, basis)
        nrm = float(np.linalg.norm(np.asarray(iso, dtype=complex)))
        dev = float(np.abs(out @ out.conj().T - np.eye(2)).max())
        if dev > 1e-9:
            seen.append((nrm, dev))
        return out
    qi._unitary = spy
    try:
        for vec, rank, part in zip(node.vectors, node.ranks, node.partitions):
            try:
                Statevector(LowRankInitialize(vec, opt_params={"partition": part, "lr": rank}).definition)
            except Exception:
                pass
    finally:
        qi._unitary = orig
    if seen_out is not None:
        seen_out.extend(seen)
    return "subnormal-pair" if any(0.0 < nrm < 1e-150 for nrm, _ in seen) else ""


def _losses_on_path(R, node):
    """node losses from the root to `node` (found by walking the recorded tree)."""
    for root in R.roots:
        path = _find(root, node, [])
        if path is not None:
            return path
    return [float(node.total_fidelity_loss)]


def _find(cur, target, acc):
    acc = acc + [float(cur.node_fidelity_loss)]
    if cur is target:
        return acc
    for ch in cur.nodes:
        r = _find(ch, target, acc)
        if r is not None:
            return r
    return None


# ---------------------------------------------------------------------------------------------
# inputs
# ---------------------------------------------------------------------------------------------

def _haar(r, m):
    v = r.normal(size=2 ** m) + 1j * r.normal(size=2 ** m)
    return v / np.linalg.norm(v)


def _interleave(n, groups, states):
    """Tensor product of `states[j]` living on the qubits `groups[j]` (qubit q = axis q)."""
    flat = [q for g in groups for q in g]
    t = np.array([1.0 + 0j])
    for s in states:
        t = np.kron(t, s)
    t = t.reshape((2,) * n)
    return np.transpose(t, axes=[flat.index(q) for q in range(n)]).reshape(-1)


def _random_groups(pr, n, min_groups=2):
    qs = list(range(n))
    pr.shuffle(qs)
    k = pr.randint(min_groups, max(min_groups, n - 1)) if n > 2 else 2
    k = min(k, n)
    cuts = sorted(pr.sample(range(1, n), k - 1))
    groups = [qs[a:b] for a, b in zip([0] + cuts, cuts + [n])]
    for g in groups:          # shuffled qubit order inside the groups as well
        pr.shuffle(g)
    return groups


def make_vector(kind, n, pr, r):
    """pr: random.Random, r: numpy Generator.  All generated vectors keep every Schmidt coefficient
    either exactly 0 (to rounding, < 1e-12) or > 1e-3: the band (1e-12, 1e-3) around the code's 1e-7
    rank threshold is excluded."""
    if kind == "haar":
        return _haar(r, n)
    if kind == "real":
        v = r.normal(size=2 ** n)
        return v / np.linalg.norm(v)
    if kind == "nonneg":
        v = r.random(2 ** n) + 0.05
        return v / np.linalg.norm(v)
    if kind == "basis":
        v = np.zeros(2 ** n, dtype=complex)
        v[pr.randrange(2 ** n)] = pr.choice([1, -1, 1j, -1j])
        return v
    if kind == "uniform":
        return np.ones(2 ** n, dtype=complex) / math.sqrt(2 ** n)
    if kind == "product":        # fully separable, random single-qubit states, shuffled order
        qs = list(range(n))
        pr.shuffle(qs)
        return _interleave(n, [[q] for q in qs], [_haar(r, 1) for _ in qs])
    if kind == "groups":         # exactly separable across randomly interleaved groups
        groups = _random_groups(pr, n)
        return _interleave(n, groups, [_haar(r, len(g)) for g in groups])
    if kind == "ghzmix":         # GHZ on a random subset (>=2 qubits) x product on the rest
        qs = list(range(n))
        pr.shuffle(qs)
        m = pr.randint(2, n)
        ghz = np.zeros(2 ** m, dtype=complex)
        ghz[0] = ghz[-1] = 1 / math.sqrt(2)
        groups = [qs[:m]] + [[q] for q in qs[m:]]
        return _interleave(n, groups, [ghz] + [_haar(r, 1) for _ in qs[m:]])
    if kind == "w":
        v = np.zeros(2 ** n, dtype=complex)
        for q in range(n):
            v[1 << q] = 1 / math.sqrt(n)
        return v
    if kind == "lowrank":        # Schmidt rank 2 across a random bipartition (n >= 4), else haar
        if n < 4:
            return _haar(r, n)
        qs = list(range(n))
        pr.shuffle(qs)
        k = pr.randint(2, n - 2)
        a, b = qs[:k], qs[k:]
        u0, u1 = _orth2(r, len(a))
        w0, w1 = _orth2(r, len(b))
        c0 = math.sqrt(pr.uniform(0.55, 0.9))
        c1 = math.sqrt(1 - c0 ** 2)
        return c0 * _interleave(n, [a, b], [u0, w0]) + c1 * _interleave(n, [a, b], [u1, w1])
    if kind == "nearprod":       # product state + sizeable perturbation: small but not tiny losses
        qs = list(range(n))
        pr.shuffle(qs)
        p = _interleave(n, [[q] for q in qs], [_haar(r, 1) for _ in qs])
        v = p + pr.choice([0.05, 0.15, 0.3]) * _haar(r, n)
        return v / np.linalg.norm(v)
    raise ValueError(kind)


def _orth2(r, m):
    a = _haar(r, m)
    b = _haar(r, m)
    b = b - np.vdot(a, b) * a
    return a, b / np.linalg.norm(b)


KINDS = ["haar", "real", "nonneg", "basis", "uniform", "product", "groups", "ghzmix", "w", "lowrank", "nearprod"]


def gen_cases(ctx, nmax, per_vec, cx_every, nmin=2, kinds=KINDS, reps=1):
    pr = ctx.rng
    r = ctx.nprng()
    cases = []
    combos_all = [(l, s, u) for l in LOSSES for s in STRATS for u in (False, True)]
    count = 0
    for n in range(nmin, nmax + 1):
        for kind in kinds:
            for rep_i in range(reps):
                v = make_vector(kind, n, pr, r)
                vec = [[float(z.real), float(z.imag)] for z in np.asarray(v, dtype=complex)]
                combos = list(combos_all) if per_vec is None else pr.sample(combos_all, min(per_vec, len(combos_all)))
                # zero loss with every strategy is always included (the "exact at zero loss" sentence)
                for s in STRATS:
                    u = pr.random() < 0.5
                    if (0.0, s, u) not in combos:
                        combos.append((0.0, s, u))
                for (l, s, u) in combos:
                    c = pr.choice([0, 0, 1, 2, 3]) if n >= 4 else pr.choice([0, 0, 1])
                    count += 1
                    cases.append({"n": n, "kind": kind, "vec": vec, "l": l, "s": s, "u": u, "c": c,
                                  "tag": f"{rep_i}", "do_cx": (count % cx_every == 0) and n <= 6,
                                  "ref_form": count // cx_every})
                # option edge cases: ignored max_fidelity_loss, unknown strategy string
                if rep_i == 0:
                    cases.append({"n": n, "kind": kind, "vec": vec, "l": pr.choice([-0.25, 1.5]), "s": pr.choice(STRATS),
                                  "u": False, "c": 0, "tag": "badl", "do_cx": False})
                    cases.append({"n": n, "kind": kind, "vec": vec, "l": pr.choice(LOSSES), "s": "single_split",
                                  "u": pr.random() < 0.5, "c": 0, "tag": "unk", "do_cx": False})
    return cases


def gen_entry_cases(ctx):
    """Call forms and option plumbing of baa_lowrank.py that the (vector, options) grid never takes:
    opt_params None / {} (all defaults), a label, ndarray params, iso/unitary schemes handed down, the
    static `initialize` with qubits=None and with an explicit permuted qubit list; and two n=14 states, the
    smallest size at which schmidt_decomposition('auto', rank=1) switches to randomized_svd (cheap:
    product-like plans, the whole vector is never prepared as one factor)."""
    pr = ctx.rng
    r = ctx.nprng()
    cases = []

    def vec_of(v):
        return [[float(z.real), float(z.imag)] for z in np.asarray(v, dtype=complex)]

    def add(n, kind, form, l, s, u, c, **extra):
        v = make_vector(kind, n, pr, r)
        cases.append(dict({"n": n, "kind": kind, "vec": vec_of(v), "l": l, "s": s, "u": u, "c": c,
                           "tag": "form-" + form, "form": form, "do_cx": False}, **extra))

    for n, kind in [(2, "haar"), (3, "groups"), (4, "ghzmix"), (4, "haar")]:
        add(n, kind, "none", 0.0, "greedy", False, 0)
        add(n, kind, "empty", 0.0, "greedy", False, 0)
    for n, kind in [(3, "nearprod"), (4, "groups")]:
        add(n, kind, "label", pr.choice(LOSSES), pr.choice(STRATS), pr.random() < 0.5, 0)
        add(n, kind, "ndarray", pr.choice(LOSSES), pr.choice(STRATS), pr.random() < 0.5, 0)
    for n, kind in [(2, "real"), (3, "ghzmix"), (4, "lowrank"), (5, "groups")]:
        add(n, kind, "static", pr.choice([0.0, 0.1]), pr.choice(STRATS), pr.random() < 0.5, 0)
        qs = pr.sample(range(n + 1), n)
        add(n, kind, "static-qubits", pr.choice([0.0, 0.1]), pr.choice(STRATS), pr.random() < 0.5, 0, qubits=qs)
        # the explicit list covers the WHOLE register of an n-qubit host, in a non-ascending order
        qs = pr.sample(range(n), n)
        if qs == sorted(qs):
            qs = qs[::-1]
        add(n, kind, "static-qubits", pr.choice([0.0, 0.1]), pr.choice(STRATS), pr.random() < 0.5, 0, qubits=qs)
        cases[-1]["exact_width"] = True
        cases[-1]["tag"] = "whole-register-permuted"
    for n, kind, l in [(4, "haar", 0.0), (5, "haar", 0.0), (5, "lowrank", 0.05), (6, "groups", 0.0)]:
        iso, uni = pr.choice([("knill", "qsd"), ("knill", "csd"), ("ccd", "csd")])
        add(n, kind, "schemes", l, pr.choice(STRATS), True, 0, iso=iso, uni=uni)
    # n = 14: randomized SVD inside the canonical pre-run / canonical search
    add(14, "product", "opt", 0.05, pr.choice(["greedy", "brute_force", "split"]), False, 0, rsvd_seed=pr.randrange(2 ** 31))
    cases[-1]["tag"] = "n14"
    add(14, "ghzmix", "opt", 1.0, "canonical", False, 0, rsvd_seed=pr.randrange(2 ** 31))
    cases[-1]["tag"] = "n14"
    return cases


# ---------------------------------------------------------------------------------------------
# boundary-value cases (inputs placed AT and next to the thresholds of the anchored code)
# ---------------------------------------------------------------------------------------------

def _pairs(v):
    return [[float(z.real), float(z.imag)] for z in np.asarray(v, dtype=complex)]


def _real_loss(pairs, l, s, c=0, u=False):
    """total_fidelity_loss of the plan the REAL adaptive_approximation returns (pre-pass: the budgets of the
    ladder below are placed relative to losses the code itself computes, never relative to a re-implementation)."""
    from qclib.state_preparation.util import baa
    return float(baa.adaptive_approximation([complex(a, b) for a, b in pairs], l, s, c, u).total_fidelity_loss)


def _almost_separable(n, cut, w, r):
    """sqrt(1-w) a0 (x) b0 + sqrt(w) a1 (x) b1 with a on the qubits `cut`, b on the others (both pairs
    orthonormal, haar): Schmidt weights (1-w, w) across the cut, generic across every other cut."""
    rest = [q for q in range(n) if q not in cut]
    a0, a1 = _orth2(r, len(cut))
    b0, b1 = _orth2(r, len(rest))
    return (math.sqrt(1 - w) * _interleave(n, [list(cut), rest], [a0, b0])
            + math.sqrt(w) * _interleave(n, [list(cut), rest], [a1, b1]))


# budgets relative to a loss T that a candidate of the search really has:  `loss <= max_fidelity_loss` (baa.py:250)
LADDER = [("below-rel-1e-5", lambda t: t * (1 - 1e-5)), ("below-2e-5", lambda t: t - 2e-5), ("below-5e-5", lambda t: t - 5e-5),
          ("at", lambda t: t), ("above-rel-1e-5", lambda t: t * (1 + 1e-5))]

# exactly separable 9/10-qubit layouts whose search leaves a FINAL block of 2-4 qubits that contains qubit 8 or 9
# together with a lower qubit (baa.py:387-389: the remaining register must come out ascending; CPython iterates
# small-int sets in ascending order only while every member is < 8)
STRADDLE_LAYOUTS = [
    # pre-screened with the recording wrapper on the real _create_node (Recorder.order_sensitive): with the strategy named, the
    # returned plan contains a block that was the REMAINING side of a split of a 3-4 qubit register and whose bare set order
    # is not ascending.  split / brute_force, max_combination_size 0:
    (9, [[0, 2, 4, 6], [1, 3], [5, 8], [7]]),
    (10, [[0, 2, 4, 6], [1], [3, 5], [7, 9], [8]]),
    (10, [[6], [0, 1, 2, 3], [4, 9], [7], [5, 8]]),
    (9, [[2, 4], [1], [0, 3, 6, 7], [5, 8]]),
    (9, [[3, 4, 5, 7], [0, 1], [2], [6, 8]]),
    (10, [[3, 4], [8], [0, 1, 2, 6, 7], [5, 9]]),
    # split / brute_force, max_combination_size 2:
    (9, [[2], [3], [1, 4], [5], [0], [6, 7, 8]]),
    (9, [[2, 4, 5], [0, 1, 3, 6], [7, 8]]),
    (9, [[0, 3, 6], [1, 2, 4, 5], [7, 8]]),
    # canonical (prefix splits), max_combination_size 0 resp. 2:
    (9, [[0, 1, 2, 3], [4, 5], [6], [7, 8]]),
    (9, [[0, 1], [2, 3], [4, 5], [6], [7, 8]]),
    # (greedy: 480 random exactly separable layouts x 4 sizes and 48 random states x 3 lossy budgets never left such a block:
    #  its pick rule - most CNOTs saved, baa.py:311 - prefers an approximate single-qubit removal to the exact sibling; greedy
    #  runs on all layouts below all the same)
]


def gen_boundary_cases(ctx):
    pr = ctx.rng
    r = ctx.nprng()
    cases = []

    def add(n, kind, pairs, l, s, u, c, tag, counts, **extra):
        cases.append(dict({"n": n, "kind": kind, "vec": pairs, "l": float(l), "s": s, "u": bool(u), "c": int(c), "tag": tag,
                           "do_cx": False, "bcount": list(counts)}, **extra))

    def ladder(n, kind, pairs, s, u, c, t, tag, what):
        for name, f in LADDER:
            l = f(t)
            if 0.0 < l <= 1.0:
                add(n, kind, pairs, l, s, u, c, f"{tag}-{name}", [f"boundary:{what}:{name}"])

    # --- (1) budget a hair below / at / above the loss of the candidate that wins at that budget -------------
    vecs = [(2, "haar"), (2, "real"), (3, "haar"), (3, "real"), (3, "nearprod"), (3, "w"), (4, "haar"), (4, "nearprod"),
            (4, "lowrank"), (5, "nearprod")]
    if not ctx.quick:
        vecs += [(3, "haar"), (4, "real"), (5, "haar"), (5, "lowrank"), (6, "nearprod")]
    for vi, (n, kind) in enumerate(vecs):
        pairs = _pairs(make_vector(kind, n, pr, r))
        p_loss = _real_loss(pairs, 1.0, "canonical")
        for s in STRATS:
            u = pr.random() < 0.5
            c = pr.choice([0, 0, 1, n // 2])
            seen = []
            for frac in (0.3, 0.6, 0.95):
                t = _real_loss(pairs, frac * p_loss, s, c, u)
                if t > 1e-6 and all(abs(t - x) > 1e-3 for x in seen) and len(seen) < 2:
                    seen.append(t)
                    ladder(n, kind, pairs, s, u, c, t, f"bnd{vi}-T{len(seen)}", "budget-vs-candidate-loss")
        # early exit `max_fidelity_loss >= product_state_node.total_fidelity_loss` (baa.py:92)
        if p_loss > 1e-6:
            s = pr.choice(["greedy", "brute_force", "split"])
            for name, l in (("below", p_loss * (1 - 1e-5)), ("at", p_loss), ("above", min(1.0, p_loss * (1 + 1e-5)))):
                add(n, kind, pairs, l, s, pr.random() < 0.5, 0, f"bnd{vi}-P-{name}", [f"boundary:budget-vs-product-loss:{name}"])

    # --- (2) almost separable across one cut, budget 0 and budgets around the tiny loss ----------------------
    cuts = [(2, [0]), (2, [1]), (3, [0]), (3, [1]), (3, [2]), (4, [1]), (4, [0, 1]), (4, [0, 2]), (4, [1, 3]), (5, [2]), (5, [0, 3])]
    for ci, (n, cut) in enumerate(cuts):
        for w in ([1e-5, 3e-5, 9e-5] if n <= 3 else [pr.choice([1e-5, 3e-5, 9e-5])]):
            pairs = _pairs(_almost_separable(n, cut, w, r))
            kind = "almostsep"
            tag = f"asep{ci}-w{w:g}"
            for s in STRATS:
                add(n, kind, pairs, 0.0, s, pr.random() < 0.5, pr.choice([0, 0, len(cut)]), tag + "-l0",
                    ["boundary:budget0-vs-schmidt-weight-1e-5..1e-4"])
            s = pr.choice(STRATS)
            u = pr.random() < 0.5
            t = _real_loss(pairs, 3 * w, s, 0, u)
            if 0.0 < t <= 3 * w:
                for name, l in (("third", t / 3), ("below-rel-1e-5", t * (1 - 1e-5)), ("at", t), ("triple", 3 * t)):
                    add(n, kind, pairs, l, s, u, 0, f"{tag}-{name}", [f"boundary:tiny-budget-vs-tiny-loss:{name}"])

    # --- (3) n = 9, 10: exactly separable, interleaved, a final block straddling qubit 8 ---------------------
    layouts = list(STRADDLE_LAYOUTS)
    for _ in range(2 if ctx.quick else 8):          # random layouts around a set-order-sensitive block
        n = pr.choice([9, 10])
        blocks = [b for b in ([5, 8], [7, 8], [6, 8], [3, 9], [7, 9], [6, 7, 8], [5, 7, 8], [6, 8, 9], [4, 7, 9], [5, 6, 7, 8])
                  if max(b) < n]
        blk = pr.choice(blocks)
        others = [q for q in range(n) if q not in blk]
        pr.shuffle(others)
        groups, i = [], 0
        while i < len(others):
            k = pr.choice([1, 2, 2, 3, 4])
            groups.append(sorted(others[i:i + k]))
            i += k
        layouts.append((n, groups + [blk]))
    for li, (n, groups) in enumerate(layouts):
        pairs = _pairs(_interleave(n, groups, [_haar(r, len(g)) for g in groups]))
        combos = [("split", 0), ("split", 2), ("canonical", 0), ("canonical", 2), ("greedy", 0), ("greedy", 2), ("brute_force", 2)]
        if n == 9:
            combos.append(("brute_force", 0))
        # l = 0 AND l = 1e-12: the SVD loss of an exactly separable cut comes out as +-4e-16, so at l = 0 the split is taken
        # only when the rounding happens to be <= 0; at 1e-12 it is always taken (no other cut of these states is below 1e-3)
        for s, c in combos:
            for l in (0.0, 1e-12):
                add(n, "straddle8", pairs, l, s, False, c, f"lay{li}", [f"boundary:register-straddles-qubit-8:n={n}"], straddle=True)
        add(n, "straddle8", pairs, 1e-12, pr.choice(["split", "greedy"]), True, 0, f"lay{li}-u",
            [f"boundary:register-straddles-qubit-8:n={n}"], straddle=True)

    # --- (3b) a rank>1 leaf next to untouched multi-qubit factors (baa_lowrank.py:139-149: one option dictionary per factor) ---
    #     product of A (4 qubits, almost Schmidt rank 2 across its first two qubits: truncation loss t), a single qubit D and
    #     one or two generic blocks, in several factor orders and interleaved; use_low_rank, budget just above t
    spec = np.array([0.8, 0.59, 0.08, 0.05])
    spec = spec / np.linalg.norm(spec)
    trunc = float(spec[2] ** 2 + spec[3] ** 2)

    def block_a():
        qa, _ = np.linalg.qr(r.normal(size=(4, 4)) + 1j * r.normal(size=(4, 4)))
        qb, _ = np.linalg.qr(r.normal(size=(4, 4)) + 1j * r.normal(size=(4, 4)))
        return ((qa * spec) @ qb).reshape(-1)

    shapes = [(7, "ADC", {"C": 2}), (7, "CAD", {"C": 2}), (8, "ADC", {"C": 3}), (8, "DAC", {"C": 3}), (8, "CDA", {"C": 3}),
              (8, "AB", {}), (9, "ADC", {"C": 4}), (9, "DAC", {"C": 4}), (9, "CAD", {"C": 4}), (9, "ADCE", {"C": 2, "E": 2})]
    if not ctx.quick:
        shapes += [(9, "ACD", {"C": 4}), (9, "CADE", {"C": 2, "E": 2}), (9, "ADB", {})]
    for si, (n, order, sizes) in enumerate(shapes):
        size = dict({"A": 4, "B": 4, "D": 1}, **sizes)
        for variant in ("kron", "interleaved"):
            qs = list(range(n))
            if variant == "interleaved":
                pr.shuffle(qs)
            groups, pos = [], 0
            for b in order:
                groups.append(sorted(qs[pos:pos + size[b]]))
                pos += size[b]
            states = [block_a() if b in "AB" else _haar(r, size[b]) for b in order]
            # with use_low_rank an EXACTLY separable cut yields no candidate at all (one singular value: max_ebits = -1,
            # baa.py:340-342), so the product is perturbed by 2% noise; the cuts then cost ~eps^2 = 4e-4 in total
            eps = 0.02
            vec = _interleave(n, groups, states)
            vec = vec + eps * _haar(r, n)
            vec = vec / np.linalg.norm(vec)
            pairs = _pairs(vec)
            n_lr = sum(b in "AB" for b in order)
            # max_combination_size 0 only: with 2 the pair-sized candidates never isolate the 4-qubit block.  (At n = 7 the
            # plans found keep A exact: a 2-qubit register processed first leaves max_k = 1 for A, baa.py:216.)
            combos = [("greedy", 0), ("split", 0)]
            if n <= 8 or (variant == "kron" and order in ("ADC", "DAC")):
                combos.append(("brute_force", 0))
            for s, cc in combos:
                l = 1.0 - (1.0 - 1.3 * trunc) ** n_lr + 1.5 * eps ** 2       # just above the truncation loss of the block(s)
                add(n, "lrleaf", pairs, l, s, True, cc, f"lrleaf{si}-{order}-{variant[0]}", [f"boundary:lowrank-leaf-family:n={n}"])
    # --- (4) max_combination_size below / at / above len(register)//2  (baa.py:216) ---------------------------
    for n in range(2, 7):
        for c in sorted({max(0, n // 2 - 1), n // 2, n // 2 + 1}):
            kind = pr.choice(["haar", "nearprod", "groups", "lowrank"])
            pairs = _pairs(make_vector(kind, n, pr, r))
            for s in STRATS:
                rel = "below" if c < n // 2 else ("at" if c == n // 2 else "above")
                add(n, kind, pairs, pr.choice([0.0, 0.1, 0.3]), s, pr.random() < 0.5, c, f"maxk-{rel}", [f"boundary:max_k-vs-half:{rel}"])

    # --- (5) max_fidelity_loss at and just outside [0, 1]  (baa_lowrank.py:57) --------------------------------
    for n, kind in [(3, "haar"), (4, "nearprod")]:
        pairs = _pairs(make_vector(kind, n, pr, r))
        for name, l in (("-1e-9", -1e-9), ("0", 0.0), ("+1e-9", 1e-9), ("1-1e-9", 1 - 1e-9), ("1", 1.0), ("1+1e-9", 1 + 1e-9)):
            add(n, kind, pairs, l, pr.choice(STRATS), pr.random() < 0.5, 0, "lrange" + name, ["boundary:max_fidelity_loss-range:" + name])

    # --- (6) a Schmidt coefficient a factor 3 below / above the 1e-7 rank cut (entanglement.py:_effective_rank) --
    for n, cut in [(3, [1]), (4, [0, 2]), (4, [3])]:
        for name, coef in (("3.3e-8", 3.3e-8), ("3e-7", 3e-7)):
            pairs = _pairs(_almost_separable(n, cut, coef ** 2, r))
            # amplitudes compared to 3e-6 here (everywhere else 1e-7): a coefficient s in (1e-7, 3e-5) puts a two-qubit block of
            # the exact low-rank preparation within fidelity 1e-9 of a special Weyl class, which qiskit's two-qubit synthesis
            # then rounds (error ~s; known findings K-C07-1 / K-C01-1, not the subject of C08).  What is evaluated at the rank
            # cut is the plan: search tree (tie), cover, budget, loss accounting.
            for u in (False, True):
                for l in (0.0, 1e-3):
                    add(n, "svcut", pairs, l, pr.choice(STRATS), u, 0, "sv" + name, ["boundary:schmidt-coefficient-vs-1e-7:" + name],
                        tol=3e-6)

    # --- (7) randomized-SVD switch `rank == 1 and n_qubits >= 14 and len(partition) > round(n/2.5)` -------------
    #     n = 13 / 14 / 15, partition size at / below the bound, rank 1 / 0; cheap product-like states
    for n, c, u, name in [(13, 0, False, "n=13"), (14, 0, False, "n=14"), (15, 0, False, "n=15"), (14, 6, False, "n=14:len=6"),
                          (15, 6, False, "n=15:len=6"), (14, 0, True, "n=14:rank=0")]:
        kind = pr.choice(["product", "ghzmix"])
        pairs = _pairs(make_vector(kind, n, pr, r))
        add(n, kind, pairs, pr.choice([0.0, 0.05, 1.0]), "canonical", u, c, "rsvd-" + name, ["boundary:randomized-svd-switch:" + name],
            rsvd_seed=pr.randrange(2 ** 31))
    return cases


# ---------------------------------------------------------------------------------------------
# input-diversity cases: FORMS of otherwise ordinary inputs (element types, scale structure, sign / phase structure,
# call forms, loop-count sizes) for every public entry point of the property
# ---------------------------------------------------------------------------------------------
#
# entry points:  CLS = BaaLowRankInitialize(params, label, opt_params).definition
#                STA = BaaLowRankInitialize.initialize(circuit, state, qubits, opt_params)          (static helper)
#                AA  = util.baa.adaptive_approximation(state_vector, max_fidelity_loss, strategy, max_combination_size, use_low_rank)
#
# form                                                   CLS            STA            AA            where generated
# 1 int list / int64 (signed basis states)               dv-class       dv-static      aa            _dv_elem_types
#   tuple / list of numpy scalars / mixed-kind list      dv-class       dv-static      aa            _dv_elem_types
#   float64 real with negative entries, python floats    dv-class       dv-static      aa            _dv_elem_types
#   complex128 with zero imaginary part, negative zeros  dv-class       dv-static      aa            _dv_elem_types
#   float32 / complex64 exactly representable            dv-class       dv-static      aa(no tie)    _dv_elem_types
#   float32 / complex64 generic (reject or 1e-5)         dv-class       dv-static      aa(no tie)    _dv_elem_types
#   max_fidelity_loss int / np.float32 / np.float64,     dv-class       dv-static      aa            _dv_option_types
#   max_combination_size np.int64, use_low_rank 0 / 1
# 2 separable over interleaved groups, head+tail factors dv-class       dv-static      aa            _dv_scale
#   heavy qubit (x) light-tail qubits                    dv-class       dv-static      aa            _dv_scale
#   tiny entanglement across a cut (s = 1e-3..1e-6)      dv-class n=2   -              aa n=2..4     _dv_scale (+ 'a2probe', see below)
#   uniform / GHZ / sparse / single amplitude / sub-tree dv-class       dv-static      aa            _dv_scale
# 3 all-negative, purely imaginary, global phase -1 / i, dv-class       dv-static      aa            _dv_phases
#   entries +-1 +-i, product of |+> |-> |+i> |-i>
# 4 opt_params omitted / None / {} / each key alone /    dv-class       dv-static      aa: positional / keyword / mixed / defaults
#   all keys / EVERY key non-default                                                                 _dv_call_forms
#   same dict object reused, contents changed between    dv-reuse       -              -             _dv_call_forms
#   same state object reused with two budgets            dv-reuse       -              aa (input untouched check on every aa case)
#   label=, copy() before .definition, inverse(),        dv-class / dv-copy / dv-inverse / dv-twice / dv-togate
#   gate appended twice, to_gate()/to_instruction()
#   host larger than needed, permuted non-contiguous     -              dv-static: ints / tuple / Qubit objects / register slices /
#   qubit lists, several registers in different orders,                 whole register / mixed, qubits omitted / None, opt_params
#   idle host qubits in a non-trivial state                             omitted / None / partial / full
# 5 n = 1 (nothing to split), 2, 3, 4, 5                 dv-class       dv-static      aa            _dv_sizes + all families
#   plans with 1 / 2 / 3+ factors, factors of 1 / 2 / 3+ counted from the plans found:  diversity:plan:*
#   qubits, ranks 1 / 2 / 4
#   rank>1 leaf FOLLOWED by further factors, every       dv-class       dv-static      aa            _dv_sizes ('lrfollow', n = 8;
#   strategy and several option forms                                                                 pre-screened with the real search)
#
# Tie: every case is recorded with the same wrappers as the grid cases and replayed by Drivers/C08.lean (the model sees the search
# through the recorded Schmidt answers, keyed by the complex128 image of each vector, so every element type the real code converts
# is tied; AA cases without the wire lines).  Oracle only: float32 / complex64 handed to AA directly (numpy then computes the
# losses in float32, the model in doubles), n = 1 (the model's root node has no split to replay), everything that concerns the
# call form itself (placement on a host, dict / array not mutated, copies, inverse).
#
# Excluded band, and how it is probed: a factor of >= 3 qubits that is prepared EXACTLY while one of its Schmidt coefficients
# lies in (1e-7, ~3e-4) hits the precision limit of qiskit's A.2 / two-qubit Weyl pass inside LowRankInitialize (error up to
# 2.4e-5; K-C07-1 / K-C01-1 / K-C06-1 for the other initialisers).  Light tails therefore go through the circuit only in factors
# of <= 2 qubits (and whole states at n = 2); larger ones are evaluated on the plan (AA).  A few deliberate 'a2probe' cases keep
# the band visible: a failure there is re-run with qclib.unitary._apply_a2 bypassed and, when that removes the error, reported
# under the narrow key baa:dense-a2-precision:... instead of baa:plan / baa:exact0.

# The deliberate probes of the excluded band ('a2probe', 'ucgprobe'): a deviation that the re-run classifies as the A.2 precision limit
# / the UCGate kernel raise has the same root cause as K-C07-1 / K-C01-1 / K-C06-1 resp. K-C03-2 (LowRankInitialize and qiskit are in
# the trusted base of this check).  False: counted ("a2-precision:*", "ucgate-kernel:*") and noted, not a failure of C08.  True: reported
# as ctx.fail under baa:dense-a2-precision:* / baa:ucgate-kernel-raises:* - switch on once known_findings.json lists them for C08
# (otherwise the unchanged tree exits 1 and every seeded run looks detected).
DV_KNOWN_ROOT_CAUSE_AS_FAILURE = True

# fixed probes of the excluded band, the same on every seed: _almost_separable(n, cut, s^2, default_rng(seed)) at budget 0, and one
# literal 5-qubit product state (groups {0} {2} {4} {1,3}, head 1, tails 1e-4; hex floats, re im re im ...) on which the UCGate
# kernel raises (knife-edge: a relative perturbation of 1e-12 removes the raise)
DV_A2_PROBES = [(3, [1], 1e-5, 1), (4, [1], 3e-5, 0), (4, [0, 2], 1e-4, 0)]
DV_UCG_PROBE = (
    "-0x1.387380a61fdebp-41 0x1.8c778e9e739c9p-41 -0x1.b5f19c9cd6e6dp-54 0x1.17ea93b0c00d9p-56 -0x1.8d26da922edf1p-41 -0x1.25d28e33b0929p-41 "
    "-0x1.4610f4039b263p-56 -0x1.aa51cd57d2650p-54 -0x1.be5716a2667c4p-29 0x1.f480096e05b15p-28 -0x1.ba3d67a7cdd97p-41 0x1.7cb27dcd5940bp-42 "
    "-0x1.f041b021a757fp-28 -0x1.96c412b2ba27fp-29 -0x1.8ec92c11ab4a7p-42 -0x1.aaee9dfa3de04p-41 -0x1.617f45b326c76p-39 -0x1.680f058b1ef59p-45 "
    "-0x1.c1f068712839ep-53 -0x1.ac59ef1b1daccp-53 0x1.047e007e1534fp-26 -0x1.f8082022c76f5p-28 0x1.e699400c4f0a1p-40 0x1.270b6a4c03e4ep-41 "
    "-0x1.758428c8ebd84p-26 0x1.611dfdf775090p-28 -0x1.25d450f5333f8p-39 -0x1.4ae49e59c022bp-40 0x1.e11f2f6961322p-14 -0x1.940d12fea5efdp-14 "
    "0x1.13b3a70e4edb8p-26 0x1.9950c68e00958p-31 0x1.0d03e05cdca36p-29 0x1.84c0971868e2bp-28 -0x1.21534b39e215fp-42 0x1.4b34203b381a4p-41 "
    "-0x1.784657a203537p-28 0x1.1e586b3508583p-29 -0x1.484e305957200p-41 -0x1.0744cdf2e8c8fp-42 0x1.ea4c68b29679cp-16 0x1.754690d7f1203p-15 "
    "-0x1.ffdc186be13a0p-31 0x1.831af2aef76e8p-28 -0x1.65d5d8343e49fp-15 0x1.f5e2fa27d1526p-16 -0x1.7c955d3d41555p-28 -0x1.9859f2bcdcda0p-31 "
    "-0x1.3ebfd61ef80fcp-27 0x1.e0075543efb3ap-27 -0x1.ebc7e285a4a4fp-40 0x1.e0cc51a81f7c3p-42 0x1.c295260fa93adp-17 -0x1.d4405a6e671bep-14 "
    "0x1.3b44805ab1591p-27 -0x1.0ce4aa9ce44ebp-27 -0x1.9f0fbbdbcae54p-15 0x1.270f18c954874p-13 -0x1.e583c119fa5d0p-27 0x1.018bf00815deep-27 "
    "-0x1.060633d0b52c7p-3 -0x1.fbcaced2023bdp-1 0x1.042142a50c247p-14 -0x1.6efe431e34280p-14 ")

DV_DEFAULTS = {"l": 0.0, "s": "greedy", "c": 0, "u": False, "iso": "ccd", "uni": "qsd"}     # documented in both docstrings
DV_OPT_KEYS = ["max_fidelity_loss", "strategy", "max_combination_size", "use_low_rank"]


def _mk_params(pairs, etype):
    """The state in the requested element type.  `pairs` always holds the exact (up-cast) values."""
    z = [complex(a, b) for a, b in pairs]
    re = [float(a) for a, _ in pairs]
    if etype in (None, "list-complex"):
        return list(z)
    if etype == "list-int":
        return [int(a) for a in re]
    if etype == "list-float":
        return list(re)
    if etype == "tuple":
        return tuple(z)
    if etype == "tuple-float":
        return tuple(re)
    if etype == "list-npscalars":
        return [np.complex128(x) for x in z]
    if etype == "list-npfloat":
        return [np.float64(a) for a in re]
    if etype == "list-npfloat32":
        return [np.float32(a) for a in re]
    if etype == "list-mixed":          # int zeros, python floats, numpy scalars and complex numbers in one list
        out = []
        for k, (a, b) in enumerate(pairs):
            if a == 0 and b == 0:
                out.append(0 if k % 2 == 0 else np.float64(0.0))
            elif b == 0:
                out.append(float(a) if k % 2 == 0 else np.float64(a))
            else:
                out.append(complex(a, b) if k % 2 == 0 else np.complex128(complex(a, b)))
        return out
    if etype == "int64":
        return np.array([int(a) for a in re], dtype=np.int64)
    if etype in ("float64", "float32"):
        return np.array(re, dtype=etype)
    if etype in ("complex128", "complex64"):
        return np.array(z, dtype=etype)
    if etype == "negzero":             # every zero component is a NEGATIVE zero
        return [complex(-0.0 if a == 0 else a, -0.0 if b == 0 else b) for a, b in pairs]
    if etype == "negzero-float":
        return [(-0.0 if a == 0 else float(a)) for a in re]
    raise ValueError(etype)


def _typed(x, t):
    if t in (None, "py"):
        return x
    if t == "int":
        return int(x)
    if t == "float":
        return float(x)
    if t == "bool":
        return bool(x)
    return getattr(np, t)(x)           # np.float32 / np.float64 / np.int64 / np.int32 / np.bool_


def _mk_opt(c, which=None):
    """opt_params in the requested form.  okeys: 'omitted' (argument not passed) / 'none' / list of the keys present; the
    values of c['l'], c['s'], c['c'], c['u'], c['iso'], c['uni'] are the EFFECTIVE ones (documented default where a key is
    absent - the generator guarantees that)."""
    okeys = c.get("okeys", DV_OPT_KEYS)
    if okeys in ("omitted", "none"):
        return None
    full = {"max_fidelity_loss": _typed(c["l"], c.get("ltype")), "strategy": c["s"],
            "max_combination_size": _typed(c["c"], c.get("ctype")), "use_low_rank": _typed(c["u"], c.get("utype")),
            "iso_scheme": c.get("iso", "ccd"), "unitary_scheme": c.get("uni", "qsd")}
    return {k: full[k] for k in okeys}


def _same_params(p, snap):
    """the caller's state object still holds what it held (type, dtype, every component bit for bit incl. the sign of zeros)"""
    if type(p) is not type(snap[0]):
        return False
    if isinstance(p, np.ndarray):
        return p.dtype == snap[0].dtype and p.tobytes() == snap[0].tobytes()
    return len(p) == len(snap[0]) and all(type(a) is type(b) and repr(a) == repr(b) for a, b in zip(p, snap[0]))


def _snap_params(p):
    import copy
    return (copy.deepcopy(p),)


def _dv_describe(c):
    f = c["form"]
    o = "" if c.get("okeys") == "omitted" else ", opt_params=" + ("None" if c.get("okeys") == "none" else "{" + ", ".join(c.get("okeys", DV_OPT_KEYS)) + "}")
    if f == "dv-static":
        h = c["host"]
        return (f"BaaLowRankInitialize.initialize(QuantumCircuit({', '.join(f'{a}[{k}]' for a, k in h['regs'])}), "
                f"<{c.get('etype') or 'list-complex'}>, qubits=<{h['qkind']} {h.get('sel')}>{o})")
    return f"{f}: BaaLowRankInitialize(<{c.get('etype') or 'list-complex'}>" + (", label='psi'" if c.get("label") else "") + o + ")"


def _new_gate(c, P, opt_obj=None, use_obj=False):
    from qclib.state_preparation import BaaLowRankInitialize
    kw = {}
    if c.get("label"):
        kw["label"] = "psi"
    if use_obj:
        kw["opt_params"] = opt_obj
    elif c.get("okeys") != "omitted":
        kw["opt_params"] = _mk_opt(c)
    return BaaLowRankInitialize(P, **kw), kw.get("opt_params")


def _idle_amp(q):
    th = 0.4 + 0.37 * q
    return th, (math.cos(th / 2), math.sin(th / 2))


def _build_host(h):
    """host circuit from its register list (in creation order), idle qubits rotated into a non-trivial state"""
    from qiskit import QuantumCircuit, QuantumRegister
    regs = {a: QuantumRegister(k, a) for a, k in h["regs"]}
    host = QuantumCircuit(*[regs[a] for a, _ in h["regs"]])
    return host, regs


def _embed(host_n, placements, idle):
    """amplitude at host index I = product over placements of sv[x], bit k of x = bit listed_qubits[k] of I, times the
    amplitudes of the idle qubits"""
    idx = np.arange(2 ** host_n)
    out = np.ones(2 ** host_n, dtype=complex)
    for sv, qs in placements:
        x = np.zeros(2 ** host_n, dtype=int)
        for k, q in enumerate(qs):
            x |= ((idx >> q) & 1) << k
        out = out * np.asarray(sv)[x]
    for q, (a0, a1) in idle.items():
        out = out * np.where((idx >> q) & 1, a1, a0)
    return out


def _dv_construct(c):
    """Builds the objects of a diversity call form.  Returns the gate to evaluate (definition NOT read yet), the host, the
    listed qubits and what the post-checks need."""
    from qiskit import QuantumCircuit
    from qiskit.quantum_info import Statevector
    from qclib.state_preparation import BaaLowRankInitialize
    import copy
    form = c["form"]
    n = c["n"]
    P = _mk_params(c["vec"], c.get("etype"))
    okeys = c.get("okeys", DV_OPT_KEYS)
    dv = {"host": None, "static_qubits": None, "P": P, "P_snap": _snap_params(P), "opt_obj": None, "opt_snap": None,
          "iso": c.get("iso", "ccd") if (okeys not in ("omitted", "none") and "iso_scheme" in okeys) else "ccd",
          "uni": c.get("uni", "qsd") if (okeys not in ("omitted", "none") and "unitary_scheme" in okeys) else "qsd"}
    if form in ("dv-class", "dv-inverse", "dv-togate"):
        gate, o = _new_gate(c, P)
        dv.update(gate=gate, opt_obj=o, opt_snap=copy.deepcopy(o))
    elif form == "dv-copy":
        g, o = _new_gate(c, P)
        g2 = g.copy()                                     # before any definition exists
        mine, other = (g, g2) if c["which"] == 0 else (g2, g)
        dv["other_sv"] = np.asarray(Statevector(other.definition).data)
        dv.update(gate=mine, opt_obj=o, opt_snap=copy.deepcopy(o))
    elif form == "dv-reuse":
        # two constructions; the SAME dict object (contents replaced in between) and / or the SAME state object
        oth = c["other"]
        mine_opt = _mk_opt(c)
        seq = [("mine", mine_opt), ("other", oth["opt"])] if c["which"] == 0 else [("other", oth["opt"]), ("mine", mine_opt)]
        P_other = P if c.get("share_array") else _mk_params(oth["vec"], c.get("etype"))
        shared = {}
        gates = {}
        for name, o in seq:
            if c.get("share_dict"):
                shared.clear()
                shared.update(o)
                d = shared
            else:
                d = dict(o)
            gates[name] = BaaLowRankInitialize(P if name == "mine" else P_other, opt_params=d)
        dv["shared_dict"] = shared if c.get("share_dict") else None
        dv["shared_expect"] = copy.deepcopy(seq[-1][1])
        osv = np.asarray(Statevector(gates["other"].definition).data)
        on = gates["other"].node
        dv["other_detail"] = (float(np.abs(osv - plan_tensor(gates["other"].num_qubits, on.vectors, on.qubits)).max()), float(on.total_fidelity_loss),
                              float(oth["opt"].get("max_fidelity_loss", 0.0)), oth["opt"].get("strategy", "greedy"),
                              gates["other"].opt_params.strategy, float(gates["other"].opt_params.max_fidelity_loss))
        dv.update(gate=gates["mine"])
    elif form == "dv-twice":
        gate, o = _new_gate(c, P)
        host = QuantumCircuit(c["host_n"])
        l1, l2 = c["place"]
        idle = {}
        for q in range(c["host_n"]):
            if q not in l1 and q not in l2:
                th, amp = _idle_amp(q)
                host.ry(th, q)
                idle[q] = amp
        host.append(gate, list(l1))
        host.append(gate, list(l2))
        dv.update(gate=gate, host=host, static_qubits=list(l1), idle=idle, opt_obj=o, opt_snap=copy.deepcopy(o))
    elif form == "dv-static":
        h = c["host"]
        host, regs = _build_host(h)
        qk = h["qkind"]
        if qk in ("omitted", "none"):
            listed = list(range(host.num_qubits))
            qarg = None
        elif qk == "slices":
            qarg = []
            for a, start, stop, step in h["slices"]:
                qarg += list(regs[a][slice(start, stop, step)])
            listed = [host.find_bit(q).index for q in qarg]
        elif qk == "register":
            qarg = regs[h["reg"]]
            listed = [host.find_bit(q).index for q in qarg]
        else:
            listed = list(h["sel"])
            if qk == "int":
                qarg = list(listed)
            elif qk == "tuple":
                qarg = tuple(listed)
            elif qk == "qubit":
                qarg = [host.qubits[i] for i in listed]
            elif qk == "mixed":
                qarg = [host.qubits[i] if k % 2 == 0 else i for k, i in enumerate(listed)]
            else:
                raise ValueError(qk)
        idle = {}
        for q in range(host.num_qubits):
            if q not in listed:
                th, amp = _idle_amp(q)
                host.ry(th, q)
                idle[q] = amp
        kw = {}
        if qk != "omitted":
            kw["qubits"] = qarg
        o = None
        if okeys != "omitted":
            o = _mk_opt(c)
            kw["opt_params"] = o
        before = len(host.data)
        if c.get("argpos"):               # every argument positional: initialize(q_circuit, state, qubits, opt_params)
            BaaLowRankInitialize.initialize(host, P, kw.get("qubits"), kw.get("opt_params"))
        else:
            BaaLowRankInitialize.initialize(host, P, **kw)
        dv["appended"] = len(host.data) - before
        dv.update(gate=host.data[-1].operation, host=host, static_qubits=listed, idle=idle, opt_obj=o, opt_snap=copy.deepcopy(o),
                  qarg=qarg, qarg_snap=None if qarg is None or qk == "register" else list(qarg))
    else:
        raise ValueError(form)
    return dv


def _pick_alt(c):
    """brute_force at n = 8: which of the equivalent branches wins the best-leaf selection depends on rounding, so the pre-screen
    with the real search (0.9 s each) is done here, in the worker, on up to three candidate states (deterministic: same
    candidates, same order, on every run and in a replay)"""
    from qclib.state_preparation.util import baa
    out = dict(c)
    alts = out.pop("alts")
    for pairs in alts:
        out["vec"] = pairs
        nd = baa.adaptive_approximation([complex(a, b) for a, b in pairs], out["l"], out["s"], out["c"], out["u"])
        lr = [j for j, p in enumerate(nd.partitions) if p is not None]
        if lr and lr[0] < len(nd.qubits) - 1:
            break
    return out


def _dv_plan_counts(c, node):
    out = [f"diversity:plan:factors={min(len(node.qubits), 3)}(3=more)",
           f"diversity:plan:largest-factor-qubits={min(max(len(q) for q in node.qubits), 4)}(4=more)"]
    out += [f"diversity:plan:factor-rank={int(r)}" for r in sorted(set(node.ranks))]
    lr = [j for j, p in enumerate(node.partitions) if p is not None]
    if lr and lr[0] < len(node.qubits) - 1:
        out.append(f"diversity:plan:lowrank-leaf-followed-by-factor:{c['s']}:{c.get('form') or c.get('entry')}")
    return out


def _dv_post(c, dv, gate, defn, sv, v, tol):
    """Form-specific verdicts (name, ok, detail).  `sv` is the simulated definition of the evaluated gate."""
    from qiskit import QuantumCircuit
    from qiskit.quantum_info import Statevector
    out = []
    form = c["form"]
    n = c["n"]
    # the gate works with the options it was given / the documented defaults
    op = gate.opt_params
    l_exp = c["l"] if 0 <= c["l"] <= 1 else 0.0
    got = (float(op.max_fidelity_loss), op.strategy, int(op.max_combination_size), bool(op.use_low_rank), op.isometry_scheme,
           op.unitary_scheme)
    want = (float(l_exp), c["s"], int(c["c"]), bool(c["u"]), dv["iso"], dv["uni"])
    out.append(("options-effective", got == want, f"gate.opt_params = {got}, passed / documented default = {want}"))
    # the caller's objects are not written to
    out.append(("input-untouched", _same_params(dv["P"], dv["P_snap"]), f"the state object handed in was modified: {dv['P']!r}"))
    if dv.get("opt_obj") is not None:
        out.append(("opt-dict-untouched", dv["opt_obj"] == dv["opt_snap"] and list(dv["opt_obj"]) == list(dv["opt_snap"]),
                    f"opt_params after the call {dv['opt_obj']!r}, before {dv['opt_snap']!r}"))
    if form == "dv-copy":
        e = float(np.abs(dv["other_sv"] - sv).max())
        out.append(("copy-agrees", e <= tol, f"gate and gate.copy() (taken before .definition was read) prepare states {e:.3e} apart"))
    if form == "dv-reuse":
        e_plan, o_loss, o_l, o_s, got_s, got_l = dv["other_detail"]
        out.append(("reuse-other", e_plan <= tol and o_loss <= o_l + 1e-12 and got_s == o_s and got_l == o_l,
                    f"the other construction (strategy {o_s}, budget {o_l}): circuit vs its plan {e_plan:.3e}, plan loss {o_loss!r}, "
                    f"effective strategy {got_s}, budget {got_l}"))
        if dv["shared_dict"] is not None:
            out.append(("shared-dict-untouched", dv["shared_dict"] == dv["shared_expect"],
                        f"shared opt_params dict {dv['shared_dict']!r}, caller wrote {dv['shared_expect']!r}"))
    if form == "dv-inverse":
        gi = gate.inverse()
        qc = QuantumCircuit(n)
        qc.append(gate, list(range(n)))
        qc.append(gi, list(range(n)))
        back = np.asarray(Statevector(qc).data)
        e0 = float(abs(back[0] - 1.0))
        again = float(np.abs(np.asarray(Statevector(gate.definition).data) - sv).max())
        out.append(("inverse", e0 <= tol and again <= tol, f"gate then gate.inverse() leaves |<0|psi> - 1| = {e0:.3e}; the gate's own "
                    f"definition afterwards differs by {again:.3e}"))
    if form == "dv-togate":
        hn = n + 2
        perm = list(c["place"][0])
        for kind, conv in (("to_gate", defn.to_gate), ("to_instruction", defn.to_instruction)):
            host = QuantumCircuit(hn)
            idle = {}
            for q in range(hn):
                if q not in perm:
                    th, amp = _idle_amp(q)
                    host.ry(th, q)
                    idle[q] = amp
            host.append(conv(), perm)
            e = float(np.abs(np.asarray(Statevector(host).data) - _embed(hn, [(sv, perm)], idle)).max())
            out.append(("definition-" + kind, e <= TOL, f"definition.{kind}() on qubits {perm} of {hn}: host state error {e:.3e}"))
    if dv.get("host") is not None:
        host = dv["host"]
        listed = dv["static_qubits"]
        hv = np.asarray(Statevector(host).data)
        if form == "dv-twice":
            l1, l2 = c["place"]
            wires = [[host.find_bit(q).index for q in inst.qubits] for inst in host.data[-2:]]
            want = _embed(host.num_qubits, [(sv, list(l1)), (sv, list(l2))], dv["idle"])
            okw = wires == [list(l1), list(l2)]
        else:
            wires = [host.find_bit(q).index for q in host.data[-1].qubits]
            want = _embed(host.num_qubits, [(sv, listed)], dv["idle"])
            okw = wires == listed and dv["appended"] == 1
            if dv.get("qarg_snap") is not None:
                okw = okw and list(dv["qarg"]) == dv["qarg_snap"]
        e = float(np.abs(hv - want).max())
        out.append(("host-placement", okw and e <= TOL, f"appended on wires {wires}, asked {listed if form != 'dv-twice' else c['place']}; "
                    f"host state (listed order, idle qubits untouched) error {e:.3e}"))
    return out


def _dv_classify_a2(c, gate, v, tol, l_eff, res, rep):
    """Failure path of the light-tail cases: rebuild the same gate's circuit with qclib.unitary._apply_a2 (qiskit's A.2 pass)
    replaced by the identity.  When the amplitudes are then right, the deviation is the precision limit of that pass inside the
    exact low-rank preparation of a factor (K-C07-1 / K-C01-1 / K-C06-1), reported under its own key."""
    bad = [k for k in res["checks"] if not k[1] and k[0].split(":")[1] in ("plan", "exact0", "exact-separable", "trueloss-eq")]
    if not bad or len(bad) != len([k for k in res["checks"] if not k[1]]):
        return
    from unittest import mock
    from qiskit.quantum_info import Statevector
    import qclib.unitary as qu
    try:
        with mock.patch.object(qu, "_apply_a2", lambda circuit: circuit):
            circ = gate._define_initialize()
            sv2 = np.asarray(Statevector(circ).data)
        node = gate.node
        e_plan = float(np.abs(sv2 - plan_tensor(c["n"], node.vectors, node.qubits)).max())
        e_in = float(np.abs(sv2 - v).max()) if l_eff == 0.0 else 0.0
    except Exception:
        return
    if e_plan <= tol and e_in <= tol:
        res["checks"] = [k for k in res["checks"] if k[1]]
        res["counts"].append("a2-precision:exact low-rank preparation of a factor with a light tail")
        msg = ("; ".join(k[2] for k in bad[:2]) + f" -- with qclib.unitary._apply_a2 bypassed the errors are {e_plan:.3e} (plan) / "
               f"{e_in:.3e} (input): precision limit of qiskit's A.2 pass inside LowRankInitialize")
        if DV_KNOWN_ROOT_CAUSE_AS_FAILURE:
            res["checks"].append((case_key("dense-a2-precision", c), False, msg, True, rep))
        else:
            res["anomalies"].append("known root cause (K-C07-1 / K-C01-1), not counted as a C08 failure: " + case_key("dense-a2-precision", c)
                                    + ": " + msg)


def _form_plan_check(c, node, rep, pre=""):
    """Cases that hand an option over in a non-canonical form (c['formcheck']): the search is a deterministic function of the
    option VALUES, so the plan must be the plan of the canonical values (bool, int, float) - qubits, ranks, bipartitions and
    accounted loss.  (The tie cannot see this for use_low_rank: the candidates `_reduce_entanglement` answers are the model's
    oracle, and a plan that ignores the flag is still a valid plan.)"""
    from qclib.state_preparation.util import baa
    l = float(c["l"]) if 0 <= c["l"] <= 1 or c.get("entry") == "aa" else 0.0
    ref = baa.adaptive_approximation([complex(a, b) for a, b in c["vec"]], l, c["s"], int(c["c"]), bool(c["u"]))

    def sig(nd):
        return ([tuple(int(x) for x in q) for q in nd.qubits], [int(x) for x in nd.ranks],
                [None if p_ is None else tuple(int(x) for x in p_) for p_ in nd.partitions])
    same = sig(node) == sig(ref) and abs(float(node.total_fidelity_loss) - float(ref.total_fidelity_loss)) <= 1e-12
    forms = ",".join(f"{k}={c[k]}" for k in ("ltype", "ctype", "utype") if c.get(k))
    return (case_key(pre + "flagform-plan", c), same,
            f"options in the form {forms} give the plan qubits={node.qubits} ranks={node.ranks} partitions={node.partitions} "
            f"loss={node.total_fidelity_loss!r}; the canonical values (max_fidelity_loss={l!r}, max_combination_size={int(c['c'])}, "
            f"use_low_rank={bool(c['u'])}) give qubits={ref.qubits} ranks={ref.ranks} partitions={ref.partitions} "
            f"loss={ref.total_fidelity_loss!r}", True, rep)


def _plan_checks(c, node, v, R, rep, tol, reduced, pre):
    """The property read off the returned plan alone (no circuit, no synthesis): cover, budget, loss accounting,
    node.state_vector(), plan = input at zero loss, true loss = accounted loss <= budget for n <= 3."""
    n = c["n"]
    out = []
    l_eff = float(c["l"]) if 0 <= c["l"] <= 1 else 0.0
    plan = plan_tensor(n, node.vectors, node.qubits)
    d = f"qubits={node.qubits} ranks={node.ranks} partitions={node.partitions} loss={node.total_fidelity_loss!r}"
    cover = sorted(q for qs in node.qubits for q in qs)
    out.append((case_key(pre + "cover", c), cover == list(range(n)) and all(list(q) == sorted(q) for q in node.qubits)
                and len(node.vectors) == len(node.qubits) == len(node.ranks) == len(node.partitions)
                and all(len(np.asarray(x).reshape(-1)) == 2 ** len(q) for x, q in zip(node.vectors, node.qubits)), d, True, rep))
    tl = float(node.total_fidelity_loss)
    out.append((case_key(pre + "budget", c), tl <= l_eff + (1e-7 if reduced else 1e-15), f"plan loss {tl!r} > allowed {l_eff!r}; " + d, True, rep))
    prod = 1.0
    for x in _losses_on_path(R, node):
        prod *= (1.0 - x)
    out.append((case_key(pre + "loss-accounting", c), abs((1.0 - prod) - tl) <= (1e-6 if reduced else 1e-12),
                f"total loss {tl!r} vs 1-prod(1-l_i) {1.0 - prod!r}", True, rep))
    nrm = float(np.linalg.norm(plan))
    out.append((case_key(pre + "plan-normalised", c), abs(nrm - 1.0) <= max(tol, 1e-6 if reduced else 0.0), f"|plan tensor| = {nrm!r}; " + d, True, rep))
    try:
        nsv = np.asarray(node.state_vector(), dtype=complex).reshape(-1)
        err_nsv = float(np.abs(nsv - plan).max()) if nsv.shape == plan.shape else float("inf")
        out.append((case_key(pre + "node-state-vector", c), err_nsv <= tol and node.num_qubits() == n,
                    f"max|node.state_vector() - plan tensor| = {err_nsv:.3e}; " + d, True, rep))
    except Exception as e:
        if len(node.vectors) == 1 and not isinstance(node.vectors[0], np.ndarray):
            # unsplit root whose vector is still the caller's list / tuple: tensorly's kronecker wants ndarrays (reporting helper
            # only, the initializer never calls it)
            out.append(("count", "out-of-scope:Node.state_vector-raises-on-unsplit-list-root"))
        else:
            out.append((case_key(pre + "node-state-vector", c), False, f"node.state_vector() raised {type(e).__name__}: {e}", True, rep))
    if l_eff == 0.0:
        err0 = float(np.abs(plan - v).max())
        out.append((case_key(pre + "exact0", c), err0 <= tol, f"max|plan tensor - input| = {err0:.3e} at zero loss; " + d, True, rep))
    true_loss = 1.0 - abs(np.vdot(v, plan)) ** 2
    if n <= 3:
        slack = 1e-5 if reduced else 1e-12
        out.append((case_key(pre + "trueloss", c), true_loss <= l_eff + slack, f"true loss of the plan {true_loss!r} > allowed {l_eff!r}; " + d, True, rep))
        out.append((case_key(pre + "trueloss-eq", c), abs(true_loss - tl) <= slack, f"true loss {true_loss!r} vs accounted {tl!r}", True, rep))
    return out


def run_aa_case(c):
    """Entry point AA: util.baa.adaptive_approximation called directly, in the requested element type / argument form.  The
    oracle reads the returned plan only (no circuit, no synthesis): cover, budget, loss accounting, node.state_vector(), plan =
    input at zero loss, true loss = accounted loss <= budget for n <= 3, caller's array untouched."""
    from qclib.state_preparation.util import baa
    n = c["n"]
    v = np.array([complex(a, b) for a, b in c["vec"]])
    res = {"checks": [], "counts": [], "anomalies": [], "op": None, "impl": None}
    P = _mk_params(c["vec"], c.get("etype"))
    snap = _snap_params(P)
    L = _typed(c["l"], c.get("ltype"))
    C = _typed(c["c"], c.get("ctype"))
    U = _typed(c["u"], c.get("utype"))
    af = c.get("aaform", "pos")
    rep = {"call": f"adaptive_approximation(<{c.get('etype') or 'list-complex'}>, ...) [{af}]", "case": c, "kind": c["kind"], "n": n,
           "tag": c["tag"], "vector": c["vec"]}
    tol = float(c.get("tol", TOL))
    reduced = c.get("etype") in ("float32", "complex64", "list-npfloat32")
    if reduced:
        nv = np.linalg.norm(v)
        if abs(nv - 1.0) > 1e-12:
            v = v / nv
            tol = max(tol, 1e-5)
    try:
        with Recorder() as R:
            if af == "pos":
                node = baa.adaptive_approximation(P, L, c["s"], C, U)
            elif af == "kw":
                node = baa.adaptive_approximation(state_vector=P, max_fidelity_loss=L, strategy=c["s"], max_combination_size=C,
                                                  use_low_rank=U)
            elif af == "kw-shuffled":
                node = baa.adaptive_approximation(use_low_rank=U, max_combination_size=C, strategy=c["s"], max_fidelity_loss=L,
                                                  state_vector=P)
            elif af == "mixed":
                node = baa.adaptive_approximation(P, L, use_low_rank=U, strategy=c["s"], max_combination_size=C)
            elif af == "defaults":     # strategy / max_combination_size / use_low_rank left at their documented defaults
                node = baa.adaptive_approximation(P, L)
            elif af == "defaults-kw":
                node = baa.adaptive_approximation(P, max_fidelity_loss=L, strategy=c["s"])
            else:
                raise ValueError(af)
    except Exception as e:
        res["checks"].append((case_key("aa:raises", c), False, f"{type(e).__name__}: {e}", True, rep))
        return res
    res["anomalies"] = R.anomalies
    res["counts"].append("diversity:aa-call-form:" + af)
    res["counts"] += _dv_plan_counts(c, node)
    early = c["s"] != "canonical" and len(R.roots) == 1
    if not reduced and n >= 2:
        impl = []
        if c["s"] != "canonical":
            impl += tree_lines("pre:", R.roots[0])
        impl.append(f"early {int(early)}")
        if not early:
            impl += tree_lines("", R.roots[-1])
        impl += node_lines("", "ret", node, R.rec_of(node))
        res["impl"] = impl
        res["op"] = {"op": "baa", "n": n, "root": R.vid(P), "strategy": c["s"], "maxK": int(c["c"]), "ulr": bool(c["u"]),
                     "maxLoss": enc_loss(c["l"]), "schmidt": list(R.table.values()),
                     "cnots": [{"v": k[0], "p": None if k[1] is None else list(k[1]), "lr": k[2], "c": cc}
                               for k, cc in R.cn.items()],
                     "nowires": True, "label": case_key("aa:tie", c)}
    res["counts"].append("early" if early else "search")
    res["counts"] += sorted(R.bcounts)
    for k in _plan_checks(c, node, v, R, rep, tol, reduced, "aa:"):
        (res["counts"].append(k[1]) if k[0] == "count" else res["checks"].append(k))
    if c.get("formcheck"):
        res["checks"].append(_form_plan_check(c, node, rep, "aa:"))
    res["checks"].append((case_key("aa:input-untouched", c), _same_params(P, snap), f"the caller's state object was modified: {P!r}", True, rep))
    return res


# ---- generators -----------------------------------------------------------------------------------------------------------

def _f32(v):
    """the vector rounded to float32 / complex64 components, as exact doubles"""
    return np.asarray(v, dtype=np.complex64).astype(complex)


def _headtail(r, m, t, pos=None):
    """one amplitude of modulus ~1 (random phase), all others of modulus ~t (random phases)"""
    v = t * np.exp(2j * np.pi * r.random(2 ** m)) * (0.5 + r.random(2 ** m))
    v[int(r.integers(0, 2 ** m)) if pos is None else pos] = np.exp(2j * np.pi * r.random())
    return v / np.linalg.norm(v)


def _dv_host(pr, n, qkind, extra=None):
    """a host wider than needed built from two or three registers in a random creation order, and a permuted, non-ascending,
    non-contiguous selection of n of its qubits"""
    extra = pr.choice([1, 2]) if extra is None else extra
    total = n + extra
    if qkind in ("omitted", "none"):
        k = pr.randint(0, n)
        regs = [["a", k], ["b", n - k]] if 0 < k < n else [["a", n]]
        pr.shuffle(regs)
        return {"regs": regs, "qkind": qkind}
    if qkind == "register":
        regs = [["a", pr.randint(1, 2)], ["b", n], ["c", 1]]
        pr.shuffle(regs)
        return {"regs": regs, "qkind": qkind, "reg": "b"}
    k = pr.randint(1, total - 1)
    regs = [["a", k], ["b", total - k]]
    pr.shuffle(regs)
    for _ in range(50):
        sel = pr.sample(range(total), n)
        if n == 1 or (sel != sorted(sel) and (n < 3 or sorted(sel) != list(range(min(sel), min(sel) + n)) or extra == 0)):
            break
    h = {"regs": regs, "qkind": qkind, "sel": sel}
    if qkind == "slices":
        # the selection written as register slices (forward and backward runs), concatenated
        off, names = {}, {}
        pos = 0
        for a, kk in regs:
            for i in range(kk):
                names[pos + i] = (a, i)
            pos += kk
        sl = []
        for g in sel:
            a, i = names[g]
            if sl and sl[-1][0] == a and sl[-1][3] in (None, 1) and sl[-1][2] == i and sl[-1][3] != -1:
                sl[-1] = [a, sl[-1][1], i + 1, 1]
            else:
                sl.append([a, i, i + 1, None])
        h["slices"] = [[a, s0, s1, 1 if st is None else st] for a, s0, s1, st in sl]
    return h


class _DvGen:
    def __init__(self, ctx):
        self.pr = ctx.rng
        self.r = ctx.nprng()
        self.cases = []
        self.k = 0

    def strat(self):
        self.k += 1
        return STRATS[self.k % 4]

    def add(self, entry, n, kind, vec, l, s, u, cc, tag, fam, **extra):
        """entry: 'class' | 'static' | 'aa' | an explicit dv form"""
        c = {"n": n, "kind": kind, "vec": _pairs(vec), "l": float(l), "s": s, "u": bool(u), "c": int(cc), "do_cx": False,
             "bcount": ["diversity:" + fam], "dv": True}
        if entry == "aa":
            c["entry"] = "aa"
            c.setdefault("aaform", "pos")
        elif entry == "static":
            c["form"] = "dv-static"
            if "host" not in extra:
                c["host"] = _dv_host(self.pr, n, self.pr.choice(["int", "qubit", "slices", "tuple", "mixed"]))
        elif entry == "class":
            c["form"] = "dv-class"
        else:
            c["form"] = entry
        fixed = extra.pop("fixed_tag", None)
        if entry != "aa":
            # a deviation that vanishes with qiskit's A.2 pass bypassed is reported under baa:dense-a2-precision (it also strikes
            # generic states now and then: one 8-qubit haar state in some hundred is off by ~7e-6)
            c["a2class"] = True
        c.update(extra)
        c["tag"] = f"{tag}:{entry}" + (":" + c["etype"] if c.get("etype") else "") + f"#{len(self.cases)}"
        if fixed is not None:          # seed-independent key
            c["tag"] = fixed
        self.cases.append(c)
        return c

    def all_entries(self, n, kind, vec, l, tag, fam, entries=("class", "static", "aa"), li=0, **extra):
        """one case per entry point; the static helper only for the first budget of a state (li == 0), and without a tie op there
        (same gate class as 'class', whose run is tied; the static call forms proper are tied in _dv_call_forms / _dv_sizes)"""
        for e in entries:
            if e == "static" and li > 0 and len(entries) > 1:
                continue
            s = self.strat()
            u = self.pr.random() < 0.4
            cc = self.pr.choice([0, 0, 1]) if n >= 2 else 0
            ex = dict(extra)
            if e == "static":
                ex.setdefault("notie", True)
            if e == "aa":
                ex.setdefault("aaform", self.pr.choice(["pos", "kw", "mixed", "kw-shuffled"]))
                ex.pop("a2class", None)
                ex.pop("lighttail", None)
            self.add(e, n, kind, vec, l, s, u, cc, tag, fam, **ex)


def _signed_basis(pr, n):
    v = np.zeros(2 ** n, dtype=complex)
    v[pr.randrange(2 ** n)] = pr.choice([1, -1])
    return v


def _half_entries(pr, n, cplx):
    """unit vector whose components are exactly representable in float32: 4 entries of modulus 1/2 (n <= 3) or 16 of modulus 1/4"""
    m = 2 ** n
    v = np.zeros(m, dtype=complex)
    if n == 1:
        v[pr.randrange(2)] = pr.choice([1, -1, 1j, -1j] if cplx else [1, -1])
        return v
    if n == 4 and pr.random() < 0.5:
        pos, a = range(m), 0.25
    else:
        pos, a = pr.sample(range(m), 4), 0.5
    for p in pos:
        v[p] = a * pr.choice([1, -1, 1j, -1j] if cplx else [1, -1])
    return v


def _dv_elem_types(g):
    pr, r = g.pr, g.r
    fam = "element-type"
    for n in (2, 3):
        real = make_vector("real", n, pr, r)
        real[0] = -abs(real[0])
        gen = make_vector(pr.choice(["haar", "nearprod"]), n, pr, r)
        sparse = np.zeros(2 ** n, dtype=complex)
        for p in pr.sample(range(2 ** n), 2 if n == 2 else 3):
            sparse[p] = complex(r.normal(), pr.choice([0.0, r.normal()]))
        sparse[np.flatnonzero(sparse)[0]] = -abs(sparse[np.flatnonzero(sparse)[0]].real) - 0.3     # a real negative entry
        sparse = sparse / np.linalg.norm(sparse)
        table = [("list-int", _signed_basis(pr, n)), ("int64", _signed_basis(pr, n)), ("list-float", real), ("tuple-float", real),
                 ("float64", real), ("list-npfloat", real), ("complex128", real), ("tuple", gen), ("list-npscalars", gen),
                 ("complex128", gen), ("list-mixed", sparse), ("negzero", sparse), ("negzero-float", np.where(sparse.imag == 0, sparse, 0).real
                                                                                    / np.linalg.norm(np.where(sparse.imag == 0, sparse, 0)))]
        for et, vec in table:
            for li, l in enumerate((0.0, pr.choice([0.05, 0.15, 0.4]))):
                g.all_entries(n, "etype", vec, l, "et", f"{fam}:{et}", li=li, etype=et)
        # reduced precision: exactly representable (same oracle, 1e-7) and generic (documented rejection, or right to 1e-5)
        for et, cplx in (("float32", False), ("complex64", True), ("list-npfloat32", False)):
            vec = _half_entries(pr, n, cplx)
            for li, l in enumerate((0.0, 0.15)):
                g.all_entries(n, "etype-exact32", vec, l, "et", f"{fam}:{et}:exactly-representable", li=li, etype=et)
        for et, vec in (("float32", _f32(real)), ("complex64", _f32(gen))):
            for l in (0.0, 0.15):
                g.all_entries(n, "etype-generic32", vec, l, "et", f"{fam}:{et}:generic", entries=("class", "static"), etype=et,
                              expect="reject-or-close")
                g.all_entries(n, "etype-generic32", vec, l, "et", f"{fam}:{et}:generic", entries=("aa",), etype=et)
    vec = _half_entries(pr, 4, True)
    g.all_entries(4, "etype-exact32", vec, 0.0, "et", f"{fam}:complex64:exactly-representable", etype="complex64")
    g.all_entries(4, "etype", _signed_basis(pr, 4), 0.0, "et", f"{fam}:list-int", etype="list-int")


def _dv_option_types(g):
    pr, r = g.pr, g.r
    fam = "option-type"
    for n in (2, 3, 4):
        vec = make_vector(pr.choice(["nearprod", "haar", "groups"]), n, pr, r)
        forms = [("l=int0", dict(l=0, ltype="int")), ("l=int1", dict(l=1, ltype="int")), ("l=float0", dict(l=0.0, ltype="float")),
                 ("l=float1", dict(l=1.0, ltype="float")), ("l=np.float32", dict(l=float(np.float32(pr.choice([0.1, 0.3]))), ltype="float32")),
                 ("l=np.float64", dict(l=pr.choice([0.05, 0.3]), ltype="float64")), ("l=np.float64(0)", dict(l=0.0, ltype="float64")),
                 ("c=np.int64", dict(l=0.3, c=1, ctype="int64")), ("c=np.int64(0)", dict(l=0.3, c=0, ctype="int64")),
                 ("u=int1", dict(l=0.1, u=True, utype="int")), ("u=int0", dict(l=0.1, u=False, utype="int")),
                 ("u=np.bool_", dict(l=0.1, u=True, utype="bool_"))]
        for name, f in forms:
            for e in (("class", "static", "aa") if n <= 3 else ("class", "aa")):
                kw = {k: f[k] for k in ("ltype", "ctype", "utype") if k in f}
                if e == "static":
                    kw["notie"] = True
                g.add(e, n, "opttype", vec, f["l"], g.strat(), f.get("u", pr.random() < 0.4), f.get("c", 0), "ot-" + name, f"{fam}:{name}", **kw)
    # outside [0, 1]: documented as ignored (budget 0) by the initializer; adaptive_approximation itself documents no range
    for n in (2, 3):
        vec = make_vector("haar", n, pr, r)
        for l in (-1, 2, -0.5, 1.5):
            for e in ("class", "static"):
                g.add(e, n, "opttype", vec, l, g.strat(), False, 0, f"ot-l={l}", f"{fam}:max_fidelity_loss-out-of-range-ignored",
                      ltype="int" if isinstance(l, int) else "float")


def _dv_flag_forms(g):
    """The boolean option and the options with a VALID FALSY value, in every form, through every entry point that takes them
    (constructor, static helper with keywords / all-positional, adaptive_approximation positional / keyword):
    use_low_rank True and False as bool / numpy.bool_ / int 1, 0 - at n = 3 (no bipartition with two sides of >= 2 qubits: the flag
    selects nothing) and n = 4, 5 on states with two heavy + two light Schmidt coefficients across a 2|2 cut and a budget between
    the two truncation losses (the flag decides the plan: rank-2 leaf or none);
    max_combination_size 0 ("half of the block") as int / numpy.int64 / numpy.int32 next to 1 and 2 under every strategy;
    max_fidelity_loss 0 as int / float / numpy.float64 / numpy.float32 next to a non-zero one.  Same oracle as every other
    case; the tie op carries the CANONICAL values (bool, int), so a form read differently from its value by the search is a tie
    difference; in addition the plan must be the plan of the canonical values (_form_plan_check: a plan that ignores use_low_rank
    is still a valid plan, and the candidate list of _reduce_entanglement is the model's oracle)."""
    pr, r = g.pr, g.r
    ents = [("class", {}), ("static", {}), ("static", {"argpos": True}), ("aa", {"aaform": "pos"}), ("aa", {"aaform": "kw"})]
    j = pr.randrange(5)
    for n in (3, 4, 5):
        # n >= 4: Schmidt spectrum 2 heavy + 2 light across a 2|2 cut of four of the qubits, budget between the loss of the rank-2
        # and of the rank-1 truncation: with use_low_rank the plan has a rank-2 leaf, without it that cut is not affordable
        if n == 3:
            vec, budget = make_vector("haar", n, pr, r), (0.05, 0.2)
        else:
            blk, sp = _lr_block(r, 4, [0.8, 0.59, 0.08, 0.05])
            qs = list(range(n))
            if n == 5:
                pr.shuffle(qs)
            vec = blk if n == 4 else _interleave(5, [sorted(qs[:4]), qs[4:]], [blk, _haar(r, 1)])
            budget = (1.3 * float((sp[2:] ** 2).sum()),)
        for u in (True, False):
            for ut, name in (("bool", "bool"), ("bool_", "np.bool_"), ("int", "int")):
                j += 1
                mine = ents if n == 4 else [ents[(j + i) % 5] for i in range(2)]
                for e, ex in mine:
                    if n == 5 and e != "aa" and ex.get("argpos"):
                        ex = {}
                    c = g.add(e, n, "flagforms", vec, pr.choice(budget), g.strat(), u, pr.choice([0, 2]) if n >= 4 else 0, f"ff-u={name}{int(u)}" + ("-pos" if ex.get("argpos") else ""),
                              f"option-type:use_low_rank={name}({u})", utype=ut, formcheck=True, **ex)
                    c["bcount"] += [f"flagforms:use_low_rank:{name}", f"flagforms:use_low_rank:{name}:{u}:via {e}" +
                                    ("-positional" if ex.get("argpos") or ex.get("aaform") == "pos" else "") + f":n={n}"]
    for n in (4, 5):
        vec = make_vector(pr.choice(["lowrank", "haar", "nearprod"]), n, pr, r)
        for s_ in STRATS:
            for cv, ct, name in ((0, "int", "int"), (0, "int64", "np.int64"), (0, "int32", "np.int32"), (1, "int", "int"), (1, "int32", "np.int32"),
                                 (2, "int64", "np.int64")):
                j += 1
                e, ex = ents[j % 5]
                c = g.add(e, n, "flagforms", vec, pr.choice([0.1, 0.3]), s_, pr.random() < 0.5, cv, f"ff-c={name}{cv}", f"option-type:max_combination_size={name}({cv})",
                          ctype=ct, formcheck=True, **ex)
                c["bcount"] += [f"flagforms:max_combination_size:{name}", f"flagforms:max_combination_size:{name}:{cv}:{s_}"]
    for n in (2, 3, 4):
        vec = make_vector(pr.choice(["nearprod", "groups", "haar"]), n, pr, r)
        for lv, lt, name in ((0, "int", "int"), (0.0, "float", "float"), (0.0, "float64", "np.float64"), (0.0, "float32", "np.float32"),
                             (0.25, "float32", "np.float32"), (0.25, "float", "float")):
            for i in range(2):
                j += 1
                e, ex = ents[j % 5]
                c = g.add(e, n, "flagforms", vec, lv, g.strat(), pr.random() < 0.4, 0, f"ff-l={name}{lv}", f"option-type:max_fidelity_loss={name}({lv})",
                          ltype=lt, formcheck=True, **ex)
                c["bcount"] += [f"flagforms:max_fidelity_loss:{name}", f"flagforms:max_fidelity_loss:{name}:{lv}"]


def _dv_scale(g):
    pr, r = g.pr, g.r
    # (a) exactly separable over interleaved groups, every factor heavy head + light tail.  Factors of <= 2 qubits through the
    #     circuit (tails 1e-3 .. 1e-6); the plan-level entry also gets 3-qubit factors.  Budgets 0 and 1e-13 (a factor 10 below the
    #     smallest internal cut loss 1e-12, far above the +-4e-16 rounding of an exact cut)
    for n in (3, 4, 5):
        for rep_i in range(2):
            for entries, maxf in ((("class", "static"), 2), (("aa",), 3)):
                qs = list(range(n))
                pr.shuffle(qs)
                groups, i = [], 0
                while i < n:
                    k = pr.randint(1, maxf)
                    groups.append(sorted(qs[i:i + k]))
                    i += k
                if len(groups) == 1:
                    groups = [groups[0][:1], groups[0][1:]]
                t = pr.choice([1e-3, 1e-4, 1e-5, 1e-6])
                vec = _interleave(n, groups, [_headtail(r, len(gr), t) for gr in groups])
                for li, l in enumerate((0.0, 1e-13)):
                    g.all_entries(n, "sep-headtail", vec, l, f"sht{t:g}", f"scale:separable-interleaved-headtail-factors:tail={t:g}",
                                  entries=entries, li=li, lighttail=True)
    # (b) one heavy qubit (x) light-tail qubits: amplitudes t^k
    for n in (2, 3, 4):
        t = pr.choice([1e-3, 1e-4, 1e-5])
        qs = [np.array([1.0, 0.0]) * np.exp(1j * r.random()) + np.array([0.0, 1.0]) * r.random() * 0.8]
        qs += [_headtail(r, 1, t) for _ in range(n - 1)]
        order = list(range(n))
        pr.shuffle(order)
        vec = _interleave(n, [[q] for q in order], [x / np.linalg.norm(x) for x in qs])
        for li, l in enumerate((0.0, 1e-13, 0.1)):
            g.all_entries(n, "heavy-x-light", vec, l, f"hxl{t:g}", f"scale:heavy-qubit-x-light-tail-qubits:tail={t:g}", li=li, lighttail=True)
    # (c) tiny entanglement across one cut: Schmidt coefficients (1, s), s = 1e-3 .. 1e-6 (rank cut 1e-7: factor >= 10), cutting
    #     loses s^2 = 1e-6 .. 1e-12; budgets 0, s^2/3, 3 s^2, 0.1.  Circuit at n = 2 (one CNOT, no two-qubit synthesis), plan for n <= 4
    for s_ in (1e-3, 1e-4, 1e-5, 1e-6):
        for n, cut in [(2, [pr.randrange(2)]), (3, [pr.randrange(3)]), (4, sorted(pr.sample(range(4), pr.choice([1, 2]))))]:
            vec = _almost_separable(n, cut, s_ * s_, r)
            for name, l in (("0", 0.0), ("third", s_ * s_ / 3), ("triple", 3 * s_ * s_), ("far-above", 0.1)):
                ents = ("class", "aa") if n == 2 else ("aa",)
                g.all_entries(n, "tinycut", vec, l, f"tc{s_:g}-{name}", f"scale:schmidt-coefficient={s_:g}:budget-{name}", entries=ents)
    # (d) uniform, GHZ, sparse, single amplitude, norm carried by one sub-tree
    for n in (2, 3, 4):
        ghz = np.zeros(2 ** n, dtype=complex)
        ghz[0], ghz[-1] = 1 / math.sqrt(2), pr.choice([1, -1, 1j]) / math.sqrt(2)
        sparse = np.zeros(2 ** n, dtype=complex)
        for p in pr.sample(range(2 ** n), 2):
            sparse[p] = r.normal() + 1j * r.normal()
        sparse = sparse / np.linalg.norm(sparse)
        single = np.zeros(2 ** n, dtype=complex)
        single[pr.randrange(2 ** n)] = 1.0
        sub = np.zeros(2 ** n, dtype=complex)
        half = 2 ** (n - 1)
        lo = pr.random() < 0.5
        sub[(0 if lo else half):(half if lo else 2 * half)] = _haar(r, n - 1)
        quarter = np.zeros(2 ** n, dtype=complex)
        if n >= 3:
            st = pr.randrange(4) * 2 ** (n - 2)
            quarter[st:st + 2 ** (n - 2)] = _haar(r, n - 2)
        uni = np.ones(2 ** n, dtype=complex) / math.sqrt(2 ** n)
        for name, vec in (("uniform", uni), ("ghz", ghz), ("sparse-2-nonzero", sparse), ("single-amplitude-1", single),
                          ("norm-in-one-half", sub), ("norm-in-one-quarter", quarter)):
            if not np.any(vec):
                continue
            for li, l in enumerate((0.0, pr.choice([0.1, 0.3, 0.6]))):
                g.all_entries(n, "scale-" + name, vec, l, "sc", f"scale:{name}", li=li)


def _dv_phases(g):
    pr, r = g.pr, g.r
    plus = [np.array([1, 1]) / math.sqrt(2), np.array([1, -1]) / math.sqrt(2), np.array([1, 1j]) / math.sqrt(2),
            np.array([1, -1j]) / math.sqrt(2)]
    for n in (2, 3, 4):
        real = np.abs(make_vector("real", n, pr, r)) + 0.02
        real = real / np.linalg.norm(real)
        groups = _random_groups(pr, n)
        sep = _interleave(n, groups, [_haar(r, len(gr)) for gr in groups])
        order = list(range(n))
        pr.shuffle(order)
        pm = _interleave(n, [[q] for q in order], [plus[(i + pr.randrange(4)) % 4] for i in range(n)])
        ent = np.array([pr.choice([1, -1, 1j, -1j]) for _ in range(2 ** n)], dtype=complex) / math.sqrt(2 ** n)
        hr = _haar(r, n)
        table = [("all-negative-reals", -real, "float64"), ("all-negative-reals", -real, None), ("purely-imaginary", 1j * real, None),
                 ("purely-imaginary-negative", -1j * real, "complex128"), ("global-phase--1:separable", -sep, None),
                 ("global-phase-i:separable", 1j * sep, None), ("global-phase--1:generic", -hr, None), ("global-phase-i:generic", 1j * hr, None),
                 ("product-of-plus-minus-iplus-iminus", pm, None), ("product-of-plus-minus:phase-i", 1j * pm, None),
                 ("entries-pm1-pmi", ent, None)]
        for name, vec, et in table:
            for li, l in enumerate((0.0, 1e-13 if "separable" in name or "product" in name else pr.choice([0.1, 0.3]))):
                kw = {"etype": et} if et else {}
                g.all_entries(n, "phase", vec, l, "ph", f"phase:{name}", li=li, **kw)


def _dv_call_forms(g):
    pr, r = g.pr, g.r
    fam = "call-form"
    D = DV_DEFAULTS

    def approximable(n):
        """a state on which the options change the plan: budget, strategy, max_combination_size and use_low_rank all matter"""
        return make_vector(pr.choice(["nearprod", "lowrank", "haar"]) if n >= 4 else pr.choice(["nearprod", "haar"]), n, pr, r)

    for n in (2, 3, 4):
        vec = approximable(n)
        nd = {"l": pr.choice([0.1, 0.3]), "s": pr.choice(["brute_force", "split", "canonical"]), "c": 1, "u": True}   # all non-default
        for e in ("class", "static"):
            # opt_params omitted / None / {}: every documented default
            for ok in ("omitted", "none", []):
                g.add(e, n, "callform", vec, D["l"], D["s"], D["u"], D["c"], f"cf-opt-{ok if ok else 'empty'}",
                      f"{fam}:opt_params-{ok if ok != [] else 'empty-dict'}", okeys=ok)
            # each key alone, non-default; the others at their documented default
            for key, eff in (("max_fidelity_loss", dict(l=nd["l"])), ("strategy", dict(s=nd["s"])), ("max_combination_size", dict(c=1)),
                             ("use_low_rank", dict(u=True)), ("iso_scheme", dict(iso="knill")), ("unitary_scheme", dict(uni="csd"))):
                ef = dict(D, **eff)
                g.add(e, n, "callform", vec, ef["l"], ef["s"], ef["u"], ef["c"], "cf-only-" + key, f"{fam}:only-{key}", okeys=[key],
                      iso=ef["iso"], uni=ef["uni"])
            # the four search keys (no schemes), and EVERY key non-default at once
            g.add(e, n, "callform", vec, nd["l"], nd["s"], nd["u"], nd["c"], "cf-search-keys", f"{fam}:search-keys-nondefault")
            g.add(e, n, "callform", vec, nd["l"], nd["s"], nd["u"], nd["c"], "cf-all-nondefault", f"{fam}:every-key-nondefault",
                  okeys=DV_OPT_KEYS + ["iso_scheme", "unitary_scheme"], iso="knill", uni="csd")
            g.add(e, n, "callform", vec, 0.0, "greedy", False, 0, "cf-all-default-values", f"{fam}:every-key-at-default-value",
                  okeys=DV_OPT_KEYS + ["iso_scheme", "unitary_scheme"], iso="ccd", uni="qsd")
        # static helper: every qubit-argument form, host wider than needed, registers in random order, plan-changing options
        for qk in ("int", "tuple", "qubit", "slices", "mixed", "register", "omitted", "none"):
            s = pr.choice(["brute_force", "split", "greedy", "canonical"])
            g.add("static", n, "callform", vec, nd["l"], s, True, pr.choice([0, 1]), "cf-q-" + qk, f"{fam}:static-qubits-{qk}",
                  host=_dv_host(pr, n, qk))
            g.add("static", n, "callform", vec, 0.0, "greedy", False, 0, "cf-q-" + qk + "-noopt", f"{fam}:static-qubits-{qk}:opt_params-omitted",
                  host=_dv_host(pr, n, qk), okeys="omitted")
        g.add("static", n, "callform", vec, nd["l"], "brute_force", True, 0, "cf-q-bf", f"{fam}:static-brute_force-low_rank-lossy",
              host=_dv_host(pr, n, "int", extra=2))
        # label, copy before the definition exists (both orders), inverse, appended twice, to_gate / to_instruction of the definition
        g.add("class", n, "callform", vec, nd["l"], nd["s"], nd["u"], nd["c"], "cf-label", f"{fam}:label", label=True)
        g.add("class", n, "callform", vec, 0.0, "greedy", False, 0, "cf-label-noopt", f"{fam}:label:opt_params-omitted", label=True, okeys="omitted")
        for which in (0, 1):
            g.add("dv-copy", n, "callform", vec, nd["l"], g.strat(), pr.random() < 0.5, 0, f"cf-copy{which}", f"{fam}:copy-before-definition",
                  which=which)
        g.add("dv-inverse", n, "callform", vec, pr.choice([0.0, nd["l"]]), g.strat(), pr.random() < 0.5, 0, "cf-inverse", f"{fam}:inverse",
              label=pr.random() < 0.5)
        hn = 2 * n + 1
        perm = pr.sample(range(hn), 2 * n)
        g.add("dv-twice", n, "callform", vec, pr.choice([0.0, nd["l"]]), g.strat(), pr.random() < 0.5, 0, "cf-twice", f"{fam}:gate-appended-twice",
              host_n=hn, place=[perm[:n], perm[n:]])
        g.add("dv-togate", n, "callform", vec, pr.choice([0.0, nd["l"]]), g.strat(), pr.random() < 0.5, 0, "cf-togate",
              f"{fam}:definition.to_gate/to_instruction", place=[pr.sample(range(n + 2), n)])
        # the SAME dict object for two constructions, contents replaced in between; the SAME state object for two budgets
        vec2 = approximable(n)
        oth_opts = [{"max_fidelity_loss": 0.0}, {"max_fidelity_loss": 0.5, "strategy": "canonical"},
                    {"strategy": "split", "use_low_rank": True, "max_fidelity_loss": 0.2, "max_combination_size": 1}]
        for which in (0, 1):
            g.add("dv-reuse", n, "callform", vec, nd["l"], nd["s"], nd["u"], nd["c"], f"cf-reuse-dict{which}", f"{fam}:same-dict-object-reused",
                  which=which, share_dict=True, other={"vec": _pairs(vec2), "opt": pr.choice(oth_opts)})
            g.add("dv-reuse", n, "callform", vec, pr.choice([0.0, 0.3]), g.strat(), False, 0, f"cf-reuse-array{which}",
                  f"{fam}:same-state-object-reused", which=which, share_array=True, etype=pr.choice(["complex128", "list-complex"]), other={"vec": _pairs(vec), "opt": {"max_fidelity_loss": 0.6}})
        # adaptive_approximation: positional / keyword / mixed / defaults
        for af in ("pos", "kw", "kw-shuffled", "mixed"):
            g.add("aa", n, "callform", vec, nd["l"], g.strat(), pr.random() < 0.5, pr.choice([0, 1]), "cf-aa-" + af, f"{fam}:aa-{af}", aaform=af)
        g.add("aa", n, "callform", vec, nd["l"], "greedy", False, 0, "cf-aa-defaults", f"{fam}:aa-defaults", aaform="defaults")
        g.add("aa", n, "callform", vec, nd["l"], nd["s"], False, 0, "cf-aa-defaults-kw", f"{fam}:aa-defaults-kw", aaform="defaults-kw")


def _lr_block(r, dim, spec):
    spec = np.asarray(spec, dtype=float)
    spec = spec / np.linalg.norm(spec)
    qa, _ = np.linalg.qr(r.normal(size=(dim, dim)) + 1j * r.normal(size=(dim, dim)))
    qb, _ = np.linalg.qr(r.normal(size=(dim, dim)) + 1j * r.normal(size=(dim, dim)))
    return ((qa * spec) @ qb).reshape(-1), spec


def _dv_sizes(g):
    pr, r = g.pr, g.r
    # n = 1: nothing to split; every entry point, option form and strategy
    for vec, et in ((np.array([0.6, 0.8j]), None), (np.array([0, -1]), "list-int"), (np.array([-0.6, 0.8]), "float64"),
                    (_haar(r, 1), "tuple")):
        for l in (0.0, 0.5):
            kw = {"etype": et} if et else {}
            g.all_entries(1, "n1", vec, l, "n1", "size:n=1", **kw)
    g.add("class", 1, "n1", _haar(r, 1), 0.0, "greedy", False, 0, "n1-noopt", "size:n=1", okeys="omitted")
    g.add("static", 1, "n1", _haar(r, 1), 0.0, "greedy", False, 0, "n1-noopt", "size:n=1", okeys="omitted", host=_dv_host(pr, 1, "omitted"))
    g.add("dv-inverse", 1, "n1", _haar(r, 1), 0.0, "greedy", False, 0, "n1-inv", "size:n=1")
    # n = 5: three interleaved groups (1 + 2 + 2 qubits) -> plans with 3+ factors of 1 / 2 qubits, every entry point
    for _ in range(2):
        qs = list(range(5))
        pr.shuffle(qs)
        groups = [sorted(qs[:1]), sorted(qs[1:3]), sorted(qs[3:])]
        vec = _interleave(5, groups, [_haar(r, len(gr)) for gr in groups])
        for li, l in enumerate((0.0, 1e-13, 0.2)):
            g.all_entries(5, "groups122", vec, l, "g122", "size:n=5:groups-1+2+2", li=li)
    # a 3-qubit factor next to a 2-qubit factor
    qs = list(range(5))
    pr.shuffle(qs)
    groups = [sorted(qs[:3]), sorted(qs[3:])]
    vec = _interleave(5, groups, [_haar(r, 3), _haar(r, 2)])
    g.all_entries(5, "groups32", vec, 1e-13, "g32", "size:n=5:groups-3+2")
    # rank 4 inside a factor: 6 qubits, Schmidt spectrum 4 heavy + 4 light across 3|3, use_low_rank, budget above the truncation
    spec = [0.7, 0.5, 0.4, 0.3, 0.05, 0.04, 0.03, 0.02]
    vec, sp = _lr_block(r, 8, spec)
    tr = float((sp[4:] ** 2).sum())
    for e, s in (("class", "split"), ("static", "canonical"), ("aa", "brute_force")):
        g.add(e, 6, "rank4", vec, 1.3 * tr, s, True, pr.choice([0, 3]), "rank4", "size:rank-4-leaf:n=6")
    # rank-2 leaf FOLLOWED by further factors (n = 8: A on 4 qubits almost rank 2, two almost-product pairs, 2% noise), every
    # strategy; for greedy / brute_force the branch that wins depends on the state: pre-screened with the real search
    from qclib.state_preparation.util import baa
    spec2 = np.array([0.8, 0.59, 0.08, 0.05])
    eps = 0.02

    def lrf_state(r=r):
        a, sp2 = _lr_block(r, 4, spec2)
        st = [a, _almost_separable(2, [0], 1e-3, r), _almost_separable(2, [0], 1e-3, r)]
        v8 = _interleave(8, [[0, 1, 2, 3], [4, 5], [6, 7]], st) + eps * _haar(r, 8)
        return v8 / np.linalg.norm(v8), 1.3 * float((sp2[2:] ** 2).sum()) + 1.5 * eps ** 2 + 2e-3

    def followed(v8, l, s):
        nd = baa.adaptive_approximation(list(v8), l, s, 0, True)
        lr = [j for j, p in enumerate(nd.partitions) if p is not None]
        return bool(lr) and lr[0] < len(nd.qubits) - 1

    picked = {}
    for s, tries in (("canonical", 1), ("split", 1), ("greedy", 10)):
        for _ in range(tries):
            v8, l8 = lrf_state()
            picked[s] = (v8, l8)
            if tries == 1 or followed(v8, l8, s):
                break
    for s, (v8, l8) in picked.items():
        g.add("class", 8, "lrfollow", v8, l8, s, True, 0, "lrf", "size:lowrank-leaf-followed:" + s)
        g.add("aa", 8, "lrfollow", v8, l8, s, True, 0, "lrf", "size:lowrank-leaf-followed:" + s, aaform=pr.choice(["kw", "mixed"]))
    # brute_force (0.9 s per search; which of its equivalent branches wins depends on rounding, about every second state gives such
    # a plan): three fixed states found with the real search, re-screened in the worker (see _pick_alt)
    fixed = [lrf_state(np.random.default_rng(1000 + k)) for k in (0, 2, 4)]
    g.add("class", 8, "lrfollow", fixed[0][0], fixed[0][1], "brute_force", True, 0, "lrf", "size:lowrank-leaf-followed:brute_force",
          alts=[_pairs(x[0]) for x in fixed])
    v8, l8 = picked["split"]
    g.add("static", 8, "lrfollow", v8, l8, "split", True, 0, "lrf-static", "size:lowrank-leaf-followed:static-host",
          host=_dv_host(pr, 8, "int", extra=1), okeys=["use_low_rank", "strategy", "max_fidelity_loss"])
    v8, l8 = picked["canonical"]
    g.add("static", 8, "lrfollow", v8, l8, "canonical", True, 0, "lrf-static", "size:lowrank-leaf-followed:static-host",
          host=_dv_host(pr, 8, "qubit", extra=1), okeys=DV_OPT_KEYS + ["iso_scheme", "unitary_scheme"], iso="knill", uni="csd")
    g.add("dv-copy", 8, "lrfollow", v8, l8, "canonical", True, 0, "lrf-copy", "size:lowrank-leaf-followed:copy", which=1)
    g.add("dv-reuse", 8, "lrfollow", v8, l8, "canonical", True, 0, "lrf-reuse", "size:lowrank-leaf-followed:same-dict-object-reused", which=1,
          share_dict=True, other={"vec": _pairs(make_vector("haar", 3, pr, r)), "opt": {"max_fidelity_loss": 0.0}})


# a 4-qubit state that is a product over the interleaved groups (0,2) x (1,3) (found by the seeded generator, VERIF_SEED=15): the
# exact LowRankInitialize circuit has 6 CNOTs although lowrank.cnot_count estimates 8; with l = 0.05, strategy 'canonical',
# use_low_rank the plan (rank 2 on the whole register, "saves" 1 by the estimates) costs 7 CNOTs
DV_CX_PROBE = [[0.01269865880774607, -0.052050725174500885], [-0.03595337540829466, -0.06055509573396811], [0.14223209531555506, -0.05487207401327842], [0.08308094208311449, -0.18235142965065435], [0.04116050329157823, -0.0869602102351024], [-0.017234672804356997, -0.060461449201365494], [0.2700191759676326, -0.04507571881319191], [0.113264854804252, -0.13846647597078968], [0.05869366956456632, 0.2832947389172], [0.3156917444305084, 0.21202092213263626], [0.09696178832791819, -0.13124371561917303], [-0.02967500259097034, -0.21242252763480862], [0.0007809285035203922, 0.5195184927543163], [0.22417857179968406, 0.25494509510950913], [0.21801308725199356, -0.19577938388223134], [0.02279089616243125, -0.19011653963279207]]


def _dv_probes(g):
    """LAST in the case list (so that the first violation reported is never one of these while anything else fails):
    the excluded band made visible (fixed inputs, independent of the seed; see the header: baa:dense-a2-precision,
    baa:ucgate-kernel-raises)"""
    for n, cut, s_, sd in DV_A2_PROBES:
        vec = _almost_separable(n, cut, s_ * s_, np.random.default_rng(sd))
        g.add("class", n, "a2probe", vec, 0.0, "greedy", False, 0, f"a2p{s_:g}", f"scale:a2probe:schmidt-coefficient={s_:g}", a2class=True,
              fixed_tag=f"cut={','.join(map(str, cut))}:s={s_:g}:rng={sd}")
    hx = [float.fromhex(x) for x in DV_UCG_PROBE.split()]
    vec = np.array([complex(a, b) for a, b in zip(hx[0::2], hx[1::2])])
    g.add("class", 5, "ucgprobe", vec, 0.0, "canonical", True, 0, "ucgp", "scale:ucgprobe:tail=1e-4", a2class=True, fixed_tag="literal")
    vec = np.array([complex(a, b) for a, b in DV_CX_PROBE])
    g.add("class", 4, "cxprobe", vec, 0.05, "canonical", True, 0, "cxp", "scale:cxprobe:interleaved-product", do_cx=True,
          fixed_tag="literal")


def gen_diversity_cases(ctx):
    g = _DvGen(ctx)
    _dv_elem_types(g)
    _dv_option_types(g)
    _dv_flag_forms(g)
    _dv_scale(g)
    _dv_phases(g)
    _dv_call_forms(g)
    _dv_sizes(g)
    _dv_probes(g)
    return g.cases



# ---------------------------------------------------------------------------------------------
# pure helpers of baa.py, tied exhaustively
# ---------------------------------------------------------------------------------------------

def tie_helpers(ctx, nmax):
    from qclib.state_preparation.util import baa
    pr = ctx.rng
    regs = []
    for m in range(1, nmax + 1):
        regs.append(tuple(range(m)))
        for _ in range(3):
            regs.append(tuple(sorted(pr.sample(range(nmax + 3), m))))
    for reg in regs:
        for k in range(0, len(reg) + 1):
            ctx.tie({"op": "combs", "kind": "split", "reg": list(reg), "k": k},
                    ["c" + _nums(cmb) for cmb in baa._split_combinations(reg, k)])
            ctx.tie({"op": "combs", "kind": "all", "reg": list(reg), "k": k},
                    ["c" + _nums(cmb) for cmb in baa._all_combinations(reg, k)])
            ctx.count("helpers:combs")


def tie_local_partition(ctx, nmax):
    """The global->local index map, observed at the call of schmidt_decomposition."""
    from qclib.state_preparation.util import baa
    pr = ctx.rng
    for m in range(2, nmax + 1):
        for _ in range(6):
            reg = tuple(sorted(pr.sample(range(nmax + 4), m)))
            part = tuple(sorted(pr.sample(reg, pr.randint(1, m // 2))))
            seen = {}
            orig = baa.schmidt_decomposition

            def spy(state_vector, partition, *a, **k):
                seen["lp"] = [int(x) for x in partition]
                return orig(state_vector, partition, *a, **k)
            baa.schmidt_decomposition = spy
            try:
                baa._reduce_entanglement(np.ones(2 ** m) / math.sqrt(2 ** m), reg, part, False)
            except Exception as e:     # the real code raised on a valid register / partition
                ctx.fail(f"baa:local-partition:raises:reg={list(reg)}:part={list(part)}",
                         f"_reduce_entanglement(uniform, {reg}, {part}) raised {type(e).__name__}: {e}",
                         {"call": "baa._reduce_entanglement", "register": list(reg), "partition": list(part)})
                continue
            finally:
                baa.schmidt_decomposition = orig
            ctx.tie({"op": "local", "reg": list(reg), "part": list(part)}, ["lp" + _nums(seen["lp"])])
            ctx.count("helpers:local-partition")


def tie_index(ctx, nmax):
    """Assembly index map of the model (localIndex) against basis-state factors pushed through the
    real `compose(gate, qubits[::-1])` + `reverse_bits()` pattern of _define_initialize."""
    from qiskit import QuantumCircuit
    from qiskit.quantum_info import Statevector
    pr = ctx.rng
    for n in range(1, nmax + 1):
        for _ in range(3):
            groups = _random_groups(pr, n, 1) if n > 1 else [[0]]
            groups = [sorted(g) if pr.random() < 0.5 else g for g in groups]
            # for every global index I: prepare factor j in the little-endian basis state x_j and find where it lands
            table = [[0] * (2 ** n) for _ in groups]
            for xs in itertools.product(*[range(2 ** len(g)) for g in groups]):
                circ = QuantumCircuit(n)
                for g, x in zip(groups, xs):
                    sub = QuantumCircuit(len(g))
                    for k in range(len(g)):
                        if (x >> k) & 1:
                            sub.x(k)
                    circ.compose(sub, g[::-1], inplace=True)
                big = int(np.argmax(np.abs(Statevector(circ.reverse_bits()).data)))
                for j, x in enumerate(xs):
                    table[j][big] = x
            ctx.tie({"op": "index", "n": n, "regs": groups}, ["ix" + _nums(t) for t in table])
            ctx.count("helpers:assembly-index")


# ---------------------------------------------------------------------------------------------
# driver
# ---------------------------------------------------------------------------------------------

def compare(op, impl, model):
    import framework
    if op.get("op") == "baa":
        ex = [l for l in model if l.startswith("exact ")]
        model = [l for l in model if not l.startswith("exact ")]
        if op.get("nowires"):      # adaptive_approximation called directly: there is no definition whose wires could be read
            model = [l for l in model if not l.startswith("wires")]
        if _CTX is not None:
            _CTX.count("tie:exact-arithmetic-same-plan" if ex == ["exact 1"] else "tie:exact-arithmetic-differs(rounding-borderline)")
        d = framework.diff_lines(impl, model, tol=1e-12)
        return d
    return framework.diff_lines(impl, model)


def _execute(ctx, cases, workers=None):
    import concurrent.futures as cf
    import multiprocessing as mp
    workers = workers or min(14, max(1, (os.cpu_count() or 2) - 2))
    if len(cases) < 8:
        results = [run_case(c) for c in cases]
    else:
        with cf.ProcessPoolExecutor(max_workers=workers, mp_context=mp.get_context("fork")) as ex:
            results = list(ex.map(run_case, cases, chunksize=8))
    for c, res in zip(cases, results):
        for a in res["anomalies"]:
            ctx.notes.append(("" if a.startswith("known root cause") else "harness anomaly: ") + a)
        if res["op"] is not None:
            op = res["op"]
            label = op.pop("label")
            ctx.tie(op, res["impl"], label=label)
        for nm in res["counts"] + c.get("bcount", []):
            ctx.count(nm)
        ctx.count(f"n={c['n']}")
        ctx.count(f"strategy:{c['s']}")
        for key, ok, detail, nontrivial, rep in res["checks"]:
            if ok:
                ctx.ok(key, nontrivial=nontrivial and c["n"] >= 2,
                       sample={"kind": c["kind"], "n": c["n"], "l": c["l"], "s": c["s"], "u": c["u"], "c": c["c"]})
            else:
                ctx.fail(key, detail, dict(rep, check=key))


def run(ctx):
    global _CTX
    _CTX = ctx
    import qiskit  # noqa: F401  (import before forking)
    import qclib.state_preparation  # noqa: F401
    ctx.notes.append("vectors keep Schmidt coefficients outside (1e-12, 1e-3): the band around the 1e-7 rank threshold and "
                     "the band where a zero-loss decision would depend on rounding are excluded")
    ctx.notes.append("boundary cases (gen_boundary_cases): budgets a hair below / at / above the loss of the candidate that wins at that "
                     "budget and of the fully separated plan (losses taken from a pre-pass of the real code), almost separable states "
                     "(non-leading Schmidt weight 1e-5..1e-4, coefficient >= 3e-3) at budget 0 and around the tiny loss, exactly "
                     "separable 9/10-qubit layouts whose plan keeps a remaining block straddling qubit 8 (l = 0 and 1e-12), "
                     "max_combination_size below/at/above half, max_fidelity_loss at and just outside [0,1], n = 13/14/15 around the "
                     "randomized-SVD switch, and 24 'svcut' cases with one Schmidt coefficient at 3.3e-8 / 3e-7 (amplitudes to 3e-6 there: "
                     "qiskit's two-qubit synthesis rounds blocks within fidelity 1e-9 of a special class, K-C07-1 / K-C01-1)")
    ctx.notes.append("input-diversity cases (gen_diversity_cases, both tiers): element types, option types, scale structure, sign / phase "
                     "structure, call forms and sizes n = 1..8 for BaaLowRankInitialize(...).definition, the static initialize(...) on permuted "
                     "qubit lists of wider multi-register hosts, and adaptive_approximation called directly; table at the head of that section")
    if ctx.quick:
        tie_helpers(ctx, 6)
        tie_local_partition(ctx, 6)
        tie_index(ctx, 4)
        cases = gen_cases(ctx, 5, 24, 6)
        cases += gen_cases(ctx, 6, 8, 6, nmin=6)
        cases += gen_entry_cases(ctx)
        cases += gen_boundary_cases(ctx)
        cases += gen_diversity_cases(ctx)
    else:
        tie_helpers(ctx, 8)
        tie_local_partition(ctx, 8)
        tie_index(ctx, 5)
        cases = gen_cases(ctx, 6, None, 5, reps=2)
        cases += gen_cases(ctx, 7, 8, 10 ** 9, nmin=7)
        cases += gen_entry_cases(ctx)
        cases += gen_boundary_cases(ctx)
        cases += gen_diversity_cases(ctx)
    _execute(ctx, cases)


def search(ctx, hints):
    global _CTX
    _CTX = ctx
    cases = gen_cases(ctx, 6, 16, 5)
    cases += gen_diversity_cases(ctx)
    _execute(ctx, cases)


def replay(ctx, payload):
    global _CTX
    _CTX = ctx
    r = payload["replay"]
    if "case" in r:            # input-diversity case: the case dictionary itself (element-type tag, call form, host layout, ...)
        _execute(ctx, [r["case"]])
        return
    opt = r["opt"]
    c = {"n": r["n"], "kind": r.get("kind", "replay"), "vec": r["vector"], "l": opt["max_fidelity_loss"],
         "s": opt["strategy"], "u": opt["use_low_rank"], "c": opt["max_combination_size"], "tag": r.get("tag", "replay"),
         "do_cx": bool(r.get("do_cx", False)) or "cx_baa" in r, "straddle": bool(r.get("straddle", False))}
    c.update({k: r[k] for k in ("form", "iso", "uni", "qubits", "rsvd_seed", "ref_form", "tol") if k in r})
    _execute(ctx, [c])
