"""C08 — bounded approximation: BaaLowRankInitialize / util/baa.py (search logic, plan, assembly)."""
import itertools
import math
import os
import struct
import numpy as np

CLAIMED = True
TECHNIQUE = ("Lean 4 model of the BAA search as a state machine over an abstract numerical oracle (Schmidt losses/ranks and CNOT "
             "estimates are inputs); theorems by induction over the construction (budget invariant over any ordered field, "
             "qubit-partition invariant, assembly index permutation, three-key choice, CNOT telescoping); the executable model is "
             "run on the oracle answers RECORDED from the real code and its whole search tree, call sequence, plan and wire map "
             "are diffed; Statevector/transpile oracle on the real circuits")
LEVEL_TEXT = ("Proved for the model, for EVERY oracle (numerics abstract), every n, strategy, max_combination_size, use_low_rank, "
              "budget and recursion budget, by induction over the construction of the search tree: every reachable node and the "
              "node returned have total loss <= max_loss, equal to 1 - prod(1 - l_i) along the path, in [0,1] for oracle losses in "
              "[0,1] (C08_budget, C08_budget_result; any linearly ordered commutative ring); the registers of every reachable / "
              "returned node partition {0..n-1}, each strictly increasing, recorded partitions valid, and the local partition "
              "handed to the Schmidt code is the position of each global qubit in its register (C08_partition_of_qubits, "
              "C08_partition_of_result, C08_local_partition); compose(gate, qubits[::-1]) + reverse_bits reads factor j at the "
              "axis values of the index at qubits_j in listed order, for all n and all registers (C08_assembly); _search_best "
              "returns a member that no member beats in the three-key order and never fails on a non-empty list "
              "(C08_search_best, C08_search_best_some); with budget 0 only zero-loss steps are taken "
              "(C08_zero_loss_only_exact_splits) and, given exact zero-loss oracle answers (the conclusion of C09_compose) and "
              "exact factor preparation, the assembled state IS the input at every index, for arbitrarily interleaved registers "
              "(C08_zero_loss for split/canonical/brute_force and every early exit; C08_zero_loss_partial for greedy under the "
              "hypothesis that its candidates are proper subsets); total_saved_cnots is the sum of node savings = estimate(whole) - "
              "sum of factor estimates, 0 at the root and > 0 elsewhere (C08_saved_nonneg), hence never more CNOTs than exact "
              "low-rank preparation GIVEN C10 (C08_cnots_conditional); nested approximations multiply overlaps "
              "(C08_true_loss_nested_partial: the algebraic core of the n<=3 true-loss claim). Added: the candidates of "
              "_greedy_combinations are non-empty strictly increasing lists of at most max_k qubits of the register, for every oracle "
              "whose answer without low rank starts with the rank-1 separation (C08_greedy_candidates), hence exactness at zero loss "
              "for ALL FOUR strategies (C08_zero_loss_all, supersedes C08_zero_loss_partial); every returned plan is reached in at most "
              "n-1 approximations and for n<=3 at most one register of any reachable plan has more than one qubit - every plan is a "
              "nesting of at most two splits with single-qubit siblings (C08_plan_nesting_n3); the rank-1 truncation has overlap "
              "conj(s0), true loss 1-|s0|^2, and two nested truncations have true loss = accounted loss 1-(1-l2)(1-l1) "
              "(C08_rank1_loss); combined for n<=3 in C08_true_loss_n3_partial (missing: identification of the model's plan tensor "
              "with the bipartition-matrix form under the interleaved index maps). Tie: the executable model is run, "
              "in IEEE doubles and in exact rationals, on the oracle answers recorded from the real adaptive_approximation "
              "(_reduce_entanglement keyed by the local partition actually passed to schmidt_decomposition, cnot_count) and the "
              "whole pre-run and search trees (every node: vectors, qubits, ranks, partitions, losses, saved CNOTs), the sequence "
              "of _reduce_entanglement calls, the early-exit decision, the returned plan and the wire map of the real definition "
              "are diffed, for 11 vector families x 4 strategies (+ an unknown strategy string) x use_low_rank x "
              "max_combination_size x 7 budgets (+ out-of-range budgets) on n<=6 quick / n<=7 thorough; the pure helpers "
              "(_split/_all_combinations, the local index map, the assembly index map through real qiskit compose/reverse_bits) "
              "are diffed exhaustively on small ranges. Tested only: Statevector of the real definition vs input at zero loss "
              "(1e-7), vs the independently computed plan tensor (all l), plan loss <= l, true loss = accounted loss <= l for "
              "n<=3, transpiled cx count <= that of LowRankInitialize.")
LEVEL_NOTE = ("Trusted: Lean kernel (standard axioms); the numerics are parameters of the model: np.linalg.svd / "
              "schmidt_decomposition / low_rank_approximation (losses 1 - sum s_i^2 in [0,1], exact factorisation at zero loss: "
              "hypotheses ExactSplits, validated by the Statevector oracle), lowrank.cnot_count (C10), LowRankInitialize preparing "
              "its vector exactly (C07/C01), qiskit compose / reverse_bits / Statevector / transpile; IEEE doubles vs exact "
              "arithmetic (the driver runs both; runs where they choose different plans are counted as rounding-borderline); the "
              "hand model agrees with baa.py only on the inputs explored; the recursion budget 2n+2 of the model is not proved "
              "sufficient (the driver prints a truncation flag that the tie compares with 0).")
LEAN_TARGETS = ["QclibModel.Props.C08"]
DRIVER = "Drivers/C08.lean"
THEOREMS = ["Qclib.C08_assembly", "Qclib.C08_partition_of_qubits", "Qclib.C08_partition_of_result",
            "Qclib.C08_local_partition", "Qclib.C08_budget", "Qclib.C08_budget_result", "Qclib.C08_search_best",
            "Qclib.C08_search_best_some", "Qclib.C08_zero_loss_only_exact_splits", "Qclib.C08_zero_loss_partial",
            "Qclib.C08_zero_loss", "Qclib.C08_saved_nonneg", "Qclib.C08_cnots_conditional",
            "Qclib.C08_true_loss_nested_partial", "Qclib.C08_greedy_candidates", "Qclib.C08_zero_loss_all",
            "Qclib.C08_plan_nesting_n3", "Qclib.C08_rank1_loss", "Qclib.C08_true_loss_n3_partial", "Qclib.C08_true_loss_n3_le", "Qclib.C08_lowrank_answer"]
TRUSTED = [
    "np.linalg.svd via schmidt_decomposition/low_rank_approximation: fidelity losses 1 - sum(s_i^2) in [0,1]; at zero loss the vector is the "
    "one-term Schmidt composition of svd_u[:,0], svd_v[0,:] (hypothesis ExactSplits of C08_zero_loss; conclusion of C09_compose; validated by the "
    "Statevector oracle each run)",
    "lowrank.cnot_count equals the CNOT count of the circuits built (C10; hypothesis of C08_cnots_conditional; compared via transpile each run)",
    "LowRankInitialize(vector, partition, lr) prepares its vector exactly (C07/C01) and qiskit compose / reverse_bits / Statevector / transpile",
    "IEEE-754 doubles vs exact arithmetic: the model is run in both; decisions that differ are counted (rounding-borderline), not hidden",
]
ASSUMPTIONS = ["exact arithmetic in the theorems; implementation compared to 1e-7 on amplitudes, 1e-12 on losses",
               "generated vectors keep Schmidt coefficients outside (1e-12, 1e-3), except 24 deliberately placed 'svcut' cases with one "
               "coefficient a factor 3 below / above the 1e-7 rank cut (3.3e-8, 3e-7), compared to 3e-6 on amplitudes",
               "n >= 2 (a one-qubit input never reaches the search)"]
RULE = ("tie: (vector, max_fidelity_loss, strategy, max_combination_size, use_low_rank) on which the real adaptive_approximation "
        "was executed with _reduce_entanglement / schmidt_decomposition / cnot_count recorded and the model replayed; oracle: the "
        "same calls, Statevector of the real definition vs input / plan tensor / budget / true loss / cx counts; non-trivial = "
        "n>=2; distinct = distinct (vector family, n, options)")

UNREACHED_JUSTIFIED = {
    "qclib/state_preparation/util/baa.py:349->350": "dead: svd_s is cut to 2**ceil(log2(effective rank)) entries, so every low_rank <= len/2 "
                                                    "< effective rank and low_rank_approximation returns exactly low_rank",
    "qclib/state_preparation/util/baa.py:Node.__str__": "debug printing, not used by the initializer",
    "qclib/entanglement.py:_get_iota,generalized_cross_product,meyer_wallach_entanglement,geometric_entanglement": "entanglement measures, not "
                                                    "used by BAA / LowRankInitialize (C09 covers schmidt_*; the measures are outside C08)",
    "qclib/entanglement.py:qb_approximation": "unused alternative to randomized_svd",
}

LOSSES = [0.0, 1e-3, 0.05, 0.1, 0.3, 0.5, 1.0]
STRATS = ["greedy", "brute_force", "split", "canonical"]
TOL = 1e-7
_CTX = None


# ---------------------------------------------------------------------------------------------
# recording the real run (add-only wrappers installed from here, /repo is never edited)
# ---------------------------------------------------------------------------------------------

def _bits(x):
    return struct.unpack("<Q", struct.pack("<d", float(x)))[0]


def enc_loss(x):
    x = float(x)
    num, den = x.as_integer_ratio()
    return {"b": _bits(x), "n": num, "d": den}


class Recorder:
    """Wraps the module-level functions of qclib.state_preparation.util.baa for the duration of one
    call: records every answer of `_reduce_entanglement` (keyed by the vector and by the *local
    partition actually handed to schmidt_decomposition*), every `cnot_count` answer, every node at
    creation and the calls made while each node was expanded."""

    NAMES = ["_reduce_entanglement", "schmidt_decomposition", "schmidt_cnots", "_create_node",
             "_build_approximation_tree"]

    def __init__(self):
        from qclib.state_preparation.util import baa
        self.baa = baa
        self.vecs = {}
        self.table = {}
        self.cn = {}
        self.roots = []
        self.stack = []
        self.depth = 0
        self.info_of = {}
        self.keep = []
        self.sentinel = 900000
        self.cur_lp = None
        self.anomalies = []
        self.bcounts = set()
        self.order_sensitive = set()
        self.lri_calls = []
        self.orig = {}

    def vid(self, v):
        a = np.ascontiguousarray(np.asarray(v, dtype=complex).reshape(-1))
        return self.vecs.setdefault(a.tobytes(), len(self.vecs))

    def fresh(self):
        self.sentinel += 1
        return self.sentinel

    def rec_of(self, nd):
        return [(self.vid(v), tuple(int(x) for x in q), int(r), None if p is None else tuple(int(x) for x in p))
                for v, q, r, p in zip(nd.vectors, nd.qubits, nd.ranks, nd.partitions)]

    def __enter__(self):
        baa = self.baa
        for nm in self.NAMES:
            self.orig[nm] = getattr(baa, nm)
        o = self.orig
        R = self

        def w_schmidt(state_vector, partition, *a, **k):
            R.cur_lp = [int(x) for x in partition]
            return o["schmidt_decomposition"](state_vector, partition, *a, **k)

        def w_reduce(state_vector, register, partition, use_low_rank=False):
            R.cur_lp = None
            infos = o["_reduce_entanglement"](state_vector, register, partition, use_low_rank)
            if use_low_rank:                    # `range(0, max_ebits + 1)`, max_ebits = log2(len(svd_s)) - 1 (baa.py:340-342)
                R.bcounts.add(f"boundary:low-rank-candidates:{min(len(infos), 3)}(3=more)")
            v = R.vid(state_vector)
            lp = R.cur_lp if R.cur_lp is not None else [-1]
            key = (v, tuple(lp), bool(use_low_rank))
            rec = R.table.get(key)
            if rec is None:
                rec = {"v": v, "lp": list(lp), "u": bool(use_low_rank),
                       # vv / vu name svd_v.T[:, 0] / svd_u[:, 0] of the answer itself (what the model's
                       # SvdInfo.vecV / vecU stand for); va is learnt when _create_node builds the state
                       "infos": [dict(enc_loss(e.fidelity_loss), r=int(e.rank), vv=R.vid(np.asarray(e.svd_v).T[:, 0]),
                                      vu=R.vid(np.asarray(e.svd_u)[:, 0]), va=R.fresh()) for e in infos]}
                R.table[key] = rec
            elif [(d["r"], d["b"]) for d in rec["infos"]] != [(int(e.rank), _bits(e.fidelity_loss)) for e in infos]:
                R.anomalies.append(f"non-deterministic _reduce_entanglement for key {key}")
            for e, d in zip(infos, rec["infos"]):
                R.info_of[id(e)] = d
                R.keep.append(e)
            if R.stack:
                R.stack[-1].append((v, bool(use_low_rank), tuple(int(x) for x in register),
                                    tuple(int(x) for x in partition)))
            return infos

        def w_cnots(state_vector, *a, **k):
            c = o["schmidt_cnots"](state_vector, *a, **k)
            low_rank = k.get("low_rank", a[0] if a else 0)
            partition = k.get("partition", None)
            key = (R.vid(state_vector), None if partition is None else tuple(int(x) for x in partition), int(low_rank))
            if R.cn.setdefault(key, int(c)) != int(c):
                R.anomalies.append(f"non-deterministic cnot_count for key {key}")
            return c

        def w_create(parent, e_info):
            new = o["_create_node"](parent, e_info)
            sc = int(new.total_saved_cnots)     # `new_node.total_saved_cnots > 0` (baa.py:252)
            R.bcounts.add("boundary:total_saved_cnots:" + ("<0" if sc < 0 else "=0" if sc == 0 else "=1" if sc == 1 else ">1"))
            if e_info.rank == 1 and max(e_info.register) >= 8:
                # baa.py:387-389 sorts the remaining register; iterating the bare set would give another order here
                rest = tuple(set(e_info.register).difference(e_info.partition))
                if rest != tuple(sorted(rest)):
                    R.order_sensitive.add(tuple(sorted(rest)))
            if e_info.rank == 1:                # `len(partition) == 1` (baa.py:394,399)
                R.bcounts.add(f"boundary:split-sizes:{min(len(e_info.partition), 3)}|"
                              f"{min(len(e_info.register) - len(e_info.partition), 3)}(3=more)")
            d = R.info_of.get(id(e_info))
            if d is not None and e_info.rank != 1:
                d["va"] = R.vid(new.vectors[-1])
            new._rec = R.rec_of(new)
            return new

        def w_build(node, *a, **k):
            if R.depth == 0:
                R.roots.append(node)
                node._rec = R.rec_of(node)
            node._queries = []
            R.stack.append(node._queries)
            R.depth += 1
            try:
                return o["_build_approximation_tree"](node, *a, **k)
            finally:
                R.depth -= 1
                R.stack.pop()

        import qclib.state_preparation.baa_lowrank as bl
        R.bl = bl
        R.orig_lri = bl.LowRankInitialize

        def w_lri(params, *a, **k):
            # the options each factor of the plan is handed (snapshot at call time + the instance, whose attributes are read
            # again after the whole definition has been assembled)
            opts = k.get("opt_params", a[1] if len(a) > 1 else None)
            inst = R.orig_lri(params, *a, **k)
            R.lri_calls.append((np.array(params, dtype=complex).reshape(-1), None if opts is None else dict(opts), inst))
            return inst
        bl.LowRankInitialize = w_lri
        baa._reduce_entanglement = w_reduce
        baa.schmidt_decomposition = w_schmidt
        baa.schmidt_cnots = w_cnots
        baa._create_node = w_create
        baa._build_approximation_tree = w_build
        return self

    def __exit__(self, *exc):
        for nm, f in self.orig.items():
            setattr(self.baa, nm, f)
        self.bl.LowRankInitialize = self.orig_lri
        return False


def _nums(xs):
    return "".join(" " + str(int(x)) for x in xs)


def entry_line(tag, e):
    v, q, r, p = e
    return f"{tag}e {v} {r} {len(q)}{_nums(q)}" + (" -1" if p is None else f" {len(p)}{_nums(p)}")


def node_lines(tag, head, nd, rec):
    out = [f"{tag}{head} {int(nd.node_saved_cnots)} {int(nd.total_saved_cnots)} {len(rec)} ; "
           f"{float(nd.node_fidelity_loss)!r} {float(nd.total_fidelity_loss)!r}"]
    out += [entry_line(tag, e) for e in rec]
    return out


def tree_lines(tag, root):
    out = []

    def rec(nd, depth):
        out.extend(node_lines(tag, f"node {depth} {int(len(nd.nodes) == 0)} 0", nd, nd._rec))
        for (v, u, reg, part) in getattr(nd, "_queries", []):
            out.append(f"{tag}q {v} {int(u)} {len(reg)}{_nums(reg)} {len(part)}{_nums(part)}")
        for c in nd.nodes:
            rec(c, depth + 1)

    rec(root, 0)
    return out


# ---------------------------------------------------------------------------------------------
# one case: real run (recorded) -> tie op + impl lines + oracle verdicts
# ---------------------------------------------------------------------------------------------

def plan_tensor(n, vectors, qubits):
    """Independent of numpy's axis functions: amplitude at I = product of the factor amplitudes at
    the index whose bits are the bits of I at the factor's qubits (qubit q = bit n-1-q), in the
    listed order, most significant first."""
    idx = np.arange(2 ** n)
    out = np.ones(2 ** n, dtype=complex)
    for v, qs in zip(vectors, qubits):
        x = np.zeros(2 ** n, dtype=int)
        for q in qs:
            x = 2 * x + ((idx >> (n - 1 - q)) & 1)
        out = out * np.asarray(v, dtype=complex)[x]
    return out


def cx_count(circ):
    from qiskit import transpile
    return int(transpile(circ, basis_gates=["u", "cx"], optimization_level=0).count_ops().get("cx", 0))


def case_key(check, c):
    return f"baa:{check}:{c['kind']}:n={c['n']}:s={c['s']}:u={int(c['u'])}:c={c['c']}:l={c['l']}:{c['tag']}"


def run_case(c):
    """Executed in a worker process.  Returns dict(op, impl, checks=[(key, ok, detail, nontrivial)],
    counts=[...], anomalies=[...])."""
    from qiskit.quantum_info import Statevector
    from qclib.state_preparation import BaaLowRankInitialize, LowRankInitialize
    n = c["n"]
    v = np.array([complex(a, b) for a, b in c["vec"]])
    opt = {"max_fidelity_loss": c["l"], "strategy": c["s"], "max_combination_size": c["c"], "use_low_rank": c["u"]}
    res = {"checks": [], "counts": [], "anomalies": [], "op": None, "impl": None}
    tol = float(c.get("tol", TOL))
    rep = {"call": "BaaLowRankInitialize(vector, opt_params=opt).definition", "vector": c["vec"], "opt": opt,
           "kind": c["kind"], "n": n, "tag": c["tag"], "do_cx": c.get("do_cx", False), "ref_form": c.get("ref_form", 0),
           "straddle": bool(c.get("straddle", False))}
    form = c.get("form", "opt")
    rep.update({k: c[k] for k in ("form", "iso", "uni", "qubits", "rsvd_seed", "tol") if k in c})
    static_qubits = None
    host = None
    if n >= 14:
        # schmidt_decomposition switches to randomized_svd (module-level unseeded generator): seed it so
        # that the run is a function of VERIF_SEED (module state only, /repo untouched)
        import qclib.entanglement as _ent
        _ent._rng = np.random.default_rng(c.get("rsvd_seed", 0))
    try:
        with Recorder() as R:
            if form == "none":            # opt_params=None: every option at its default
                gate = BaaLowRankInitialize(list(v))
            elif form == "empty":         # opt_params={}: every .get() is None
                gate = BaaLowRankInitialize(list(v), opt_params={})
            elif form == "label":
                gate = BaaLowRankInitialize(list(v), label="psi", opt_params=opt)
            elif form == "ndarray":       # params as ndarray instead of list
                gate = BaaLowRankInitialize(v, opt_params=opt)
            elif form == "schemes":       # iso_scheme / unitary_scheme handed down to LowRankInitialize
                gate = BaaLowRankInitialize(list(v), opt_params=dict(opt, iso_scheme=c["iso"], unitary_scheme=c["uni"]))
            elif form == "static":        # static entry point, qubits=None
                from qiskit import QuantumCircuit
                host = QuantumCircuit(n)
                BaaLowRankInitialize.initialize(host, list(v), opt_params=opt)
                gate = host.data[0].operation
                static_qubits = list(range(n))
            elif form == "static-qubits":  # static entry point, explicit (permuted) qubit list on a wider circuit
                from qiskit import QuantumCircuit
                host = QuantumCircuit(n + 1)
                static_qubits = list(c["qubits"])
                BaaLowRankInitialize.initialize(host, list(v), qubits=static_qubits, opt_params=opt)
                gate = host.data[0].operation
            else:
                gate = BaaLowRankInitialize(list(v), opt_params=opt)
            defn = gate.definition
    except Exception as e:  # qclib raised on a valid input
        res["checks"].append((case_key("raises", c), False, f"{type(e).__name__}: {e}", True, rep))
        return res
    node = gate.node
    if form != "opt":
        res["counts"].append("branch:call-form:" + form)
    if n >= 14:
        res["counts"].append("branch:schmidt:randomized-svd(n>=14)")
    res["anomalies"] = R.anomalies
    # ---- tie ----
    early = c["s"] != "canonical" and len(R.roots) == 1
    impl = []
    if c["s"] != "canonical":
        impl += tree_lines("pre:", R.roots[0])
    impl.append(f"early {int(early)}")
    if not early:
        impl += tree_lines("", R.roots[-1])
    impl += node_lines("", "ret", node, R.rec_of(node))
    for inst in defn.data:
        impl.append("wires" + _nums(defn.find_bit(q).index for q in inst.qubits))
    res["impl"] = impl
    res["op"] = {"op": "baa", "n": n, "root": R.vid(v), "strategy": c["s"], "maxK": c["c"], "ulr": bool(c["u"]),
                 "maxLoss": enc_loss(c["l"]), "schmidt": list(R.table.values()),
                 "cnots": [{"v": k[0], "p": None if k[1] is None else list(k[1]), "lr": k[2], "c": cc}
                           for k, cc in R.cn.items()],
                 "label": case_key("tie", c)}
    res["counts"].append("early" if early else "search")
    res["counts"].append(f"plan:{len(node.qubits)}-factors")
    if any(r > 1 for r in node.ranks):
        res["counts"].append("plan:has-lowrank-factor")
    res["counts"] += sorted(R.bcounts)
    if c.get("straddle"):
        # a final factor of 2-4 qubits whose qubits, iterated as a CPython set, do NOT come out ascending: the plan is
        # only right because _create_node sorts the remaining register
        if any(tuple(q) in R.order_sensitive for q in node.qubits):
            res["counts"].append("boundary:final-block-set-order-differs-from-sorted")
        elif R.order_sensitive:
            res["counts"].append("boundary:inner-register-set-order-differs-from-sorted")
        else:
            res["counts"].append("boundary:set-order-ascending-throughout(insensitive)")
    # ---- the options every factor of the plan was handed (baa_lowrank.py:139-149): ITS OWN rank / bipartition or none ----
    exp_iso = c["iso"] if form == "schemes" else "ccd"
    exp_uni = c["uni"] if form == "schemes" else "qsd"
    probs = []
    if len(R.lri_calls) != len(node.vectors):
        probs.append(f"{len(R.lri_calls)} LowRankInitialize calls for {len(node.vectors)} factors")
    for j, ((pv, opts, inst), fv, rank, part) in enumerate(zip(R.lri_calls, node.vectors, node.ranks, node.partitions)):
        opts = opts or {}
        fv = np.asarray(fv, dtype=complex).reshape(-1)
        if pv.shape != fv.shape or np.abs(pv - fv).max() > 0:
            probs.append(f"factor {j}: another vector was handed over")
        want_p = None if part is None else [int(x) for x in part]
        for tag, got_p, got_lr in (("at the call", opts.get("partition"), opts.get("lr")),
                                   ("on the gate after assembly", inst.partition, inst.low_rank)):
            got_p = None if got_p is None else [int(x) for x in got_p]
            if got_p != want_p:
                probs.append(f"factor {j} (qubits {node.qubits[j]}): partition {got_p} {tag}, plan says {want_p}")
            ok_lr = (got_lr == rank) or (part is None and got_lr in (None, 0))
            if not ok_lr:
                probs.append(f"factor {j} (qubits {node.qubits[j]}): lr {got_lr} {tag}, plan rank {rank}")
        if (opts.get("iso_scheme") or "ccd") != exp_iso or (opts.get("unitary_scheme") or "qsd") != exp_uni \
                or inst.isometry_scheme != exp_iso or inst.unitary_scheme != exp_uni:
            probs.append(f"factor {j}: schemes {opts.get('iso_scheme')}/{opts.get('unitary_scheme')} at the call, "
                         f"{inst.isometry_scheme}/{inst.unitary_scheme} on the gate, expected {exp_iso}/{exp_uni}")
    res["checks"].append((case_key("factor-options", c), not probs, "; ".join(probs[:4]) + f" [plan qubits={node.qubits} "
                          f"ranks={node.ranks} partitions={node.partitions}]", True, rep))
    lr_pos = [j for j, p in enumerate(node.partitions) if p is not None]
    if lr_pos:
        after = [len(q) for q in node.qubits[lr_pos[0] + 1:]]
        before = [len(q) for q in node.qubits[:lr_pos[-1]]]
        if any(k >= 2 for k in after):
            res["counts"].append("boundary:plan:lowrank-leaf-BEFORE-multiqubit-factor")
        if any(k >= 2 for k in before):
            res["counts"].append("boundary:plan:lowrank-leaf-AFTER-multiqubit-factor")
        if len(lr_pos) >= 2:
            res["counts"].append("boundary:plan:two-lowrank-leaves")
    # ---- oracle ----
    l_eff = c["l"] if 0 <= c["l"] <= 1 else 0.0
    try:
        sv = np.asarray(Statevector(defn).data)
    except Exception as e:
        # the factors' own definitions are built lazily, while the circuit is simulated: qclib (or the qiskit kernel under it)
        # raised on a valid input
        why = _classify_raise(node)
        res["checks"].append((case_key("raises" + (":" + why if why else ""), c), False,
                              f"simulating the definition raised {type(e).__name__}: {e}; plan qubits={node.qubits} ranks={node.ranks}"
                              + (" -- a Lemma-2 pair (isometry.py:_unitary) whose squares are subnormal gave a non-unitary 2x2 matrix"
                                 if why else ""), True, rep))
        return res
    plan = plan_tensor(n, node.vectors, node.qubits)
    err_plan = float(np.abs(sv - plan).max())
    res["checks"].append((case_key("plan", c), err_plan <= tol, f"max|Statevector - plan tensor| = {err_plan:.3e}; "
                          f"qubits={node.qubits} ranks={node.ranks} partitions={node.partitions}", True, rep))
    # Node.state_vector() / Node.num_qubits(): the library's own reading of the plan
    try:
        nsv = np.asarray(node.state_vector(), dtype=complex).reshape(-1)
        err_nsv = float(np.abs(nsv - plan).max()) if nsv.shape == plan.shape else float("inf")
        okn = err_nsv <= tol and node.num_qubits() == n
        res["checks"].append((case_key("node-state-vector", c), okn,
                              f"max|node.state_vector() - plan tensor| = {err_nsv:.3e}; num_qubits()={node.num_qubits()} "
                              f"qubits={node.qubits}", True, rep))
    except Exception as e:
        if len(node.vectors) == 1 and isinstance(node.vectors[0], list):
            # unsplit root whose vector is still the caller's Python list: tensorly's kronecker wants ndarrays.  A defect of
            # the reporting helper only (the initializer never calls Node.state_vector) - counted, reported, not a C08 failure
            res["counts"].append("out-of-scope:Node.state_vector-raises-on-unsplit-list-root")
        else:
            res["checks"].append((case_key("node-state-vector", c), False,
                                  f"node.state_vector() raised {type(e).__name__}: {e}", True, rep))
    if host is not None:
        # the appended instruction sits on the requested wires and the host circuit prepares the state there
        wires = [host.find_bit(q).index for q in host.data[0].qubits]
        hv = np.asarray(Statevector(host).data)
        want = np.zeros(2 ** host.num_qubits, dtype=complex)
        for x in range(2 ** n):
            big = 0
            for k in range(n):
                if (x >> k) & 1:
                    big |= 1 << static_qubits[k]
            want[big] = sv[x]
        err_h = float(np.abs(hv - want).max())
        res["checks"].append((case_key("static-wiring", c), wires == static_qubits and err_h <= TOL,
                              f"initialize(...) appended on wires {wires} (asked {static_qubits}); host state error {err_h:.3e}",
                              True, rep))
    cover = sorted(q for qs in node.qubits for q in qs)
    res["checks"].append((case_key("cover", c), cover == list(range(n)) and all(list(q) == sorted(q) for q in node.qubits),
                          f"plan qubits {node.qubits}", True, rep))
    if l_eff == 0.0:
        err0 = float(np.abs(sv - v).max())
        res["checks"].append((case_key("exact0", c), err0 <= tol, f"max|Statevector - input| = {err0:.3e} at zero loss; "
                              f"plan qubits={node.qubits} loss={node.total_fidelity_loss}", True, rep))
    if c.get("straddle") and 0.0 < l_eff <= 1e-12:
        # exactly separable input (every cut that is not a union of groups loses > 1e-3): a budget of 1e-12 admits only the
        # exact splits, so the circuit must still prepare the input
        err0 = float(np.abs(sv - v).max())
        res["checks"].append((case_key("exact-separable", c), err0 <= tol, f"max|Statevector - input| = {err0:.3e} at budget "
                              f"{l_eff!r} on an exactly separable state; plan qubits={node.qubits} loss={node.total_fidelity_loss}",
                              True, rep))
    tl = float(node.total_fidelity_loss)
    res["checks"].append((case_key("budget", c), tl <= l_eff + 1e-12, f"plan loss {tl!r} > allowed {l_eff!r}", True, rep))
    prod = 1.0
    for x in _losses_on_path(R, node):
        prod *= (1.0 - x)
    res["checks"].append((case_key("loss-accounting", c), abs((1.0 - prod) - tl) <= 1e-12,
                          f"total loss {tl!r} vs 1-prod(1-l_i) {1.0 - prod!r}", True, rep))
    if n <= 3:
        true_loss = 1.0 - abs(np.vdot(v, sv)) ** 2
        res["checks"].append((case_key("trueloss", c), true_loss <= l_eff + 1e-9,
                              f"true loss {true_loss!r} > allowed {l_eff!r} (plan loss {tl!r})", True, rep))
        res["checks"].append((case_key("trueloss-eq", c), abs(true_loss - tl) <= 1e-9,
                              f"true loss {true_loss!r} vs accounted {tl!r}", True, rep))
    if c.get("do_cx"):
        cb = cx_count(defn)
        # reference: exact low-rank preparation, built through the different entry forms of lowrank.py
        ref_form = c.get("ref_form", 0) % 4
        if ref_form == 0:
            ref = LowRankInitialize(list(v)).definition
        elif ref_form == 1:
            ref = LowRankInitialize(list(v), opt_params={}).definition           # schemes default inside the else-branch
        elif ref_form == 2:
            ref = LowRankInitialize(list(v), label="ref", opt_params={"lr": 0}).definition
        else:
            from qiskit import QuantumCircuit
            ref = QuantumCircuit(n)
            LowRankInitialize.initialize(ref, list(v), qubits=None if (c.get("ref_form", 0) // 4) % 2 == 0 else list(range(n)))
        res["counts"].append(f"branch:lowrank-ref-form:{ref_form}")
        err_ref = float(np.abs(np.asarray(Statevector(ref).data) - v).max())
        res["checks"].append((case_key("lowrank-ref-exact", c), err_ref <= TOL,
                              f"reference LowRankInitialize (entry form {ref_form}) error {err_ref:.3e}", True, rep))
        cl = cx_count(ref)
        res["counts"].append("cx:compared")
        res["checks"].append((case_key("cx", c), cb <= cl, f"BAA circuit {cb} cx > LowRankInitialize {cl} cx "
                              f"(plan saved {node.total_saved_cnots})", True, dict(rep, cx_baa=cb, cx_lowrank=cl)))
    return res


def _classify_raise(node):
    """Failure path only: rebuild every factor of the plan with a spy on qclib.isometry._unitary (Lemma 2).  Returns
    'subnormal-pair' when a pair of amplitudes of norm < 1e-150 (squares subnormal: np.linalg.norm is then off by several
    percent) produced a 2x2 matrix that is not unitary, else ''."""
    import qclib.isometry as qi
    from qiskit.quantum_info import Statevector
    from qclib.state_preparation import LowRankInitialize
    seen = []
    orig = qi._unitary

    def spy(iso, basis=0):
        out = orig(iso, basis)
        nrm = float(np.linalg.norm(np.asarray(iso, dtype=complex)))
        dev = float(np.abs(out @ out.conj().T - np.eye(2)).max())
        if dev > 1e-9:
            seen.append((nrm, dev))
        return out
    qi._unitary = spy
    try:
        for vec, rank, part in zip(node.vectors, node.ranks, node.partitions):
            try:
                Statevector(LowRankInitialize(vec, opt_params={"partition": part, "lr": rank}).definition)
            except Exception:
                pass
    finally:
        qi._unitary = orig
    return "subnormal-pair" if any(0.0 < nrm < 1e-150 for nrm, _ in seen) else ""


def _losses_on_path(R, node):
    """node losses from the root to `node` (found by walking the recorded tree)."""
    for root in R.roots:
        path = _find(root, node, [])
        if path is not None:
            return path
    return [float(node.total_fidelity_loss)]


def _find(cur, target, acc):
    acc = acc + [float(cur.node_fidelity_loss)]
    if cur is target:
        return acc
    for ch in cur.nodes:
        r = _find(ch, target, acc)
        if r is not None:
            return r
    return None


# ---------------------------------------------------------------------------------------------
# inputs
# ---------------------------------------------------------------------------------------------

def _haar(r, m):
    v = r.normal(size=2 ** m) + 1j * r.normal(size=2 ** m)
    return v / np.linalg.norm(v)


def _interleave(n, groups, states):
    """Tensor product of `states[j]` living on the qubits `groups[j]` (qubit q = axis q)."""
    flat = [q for g in groups for q in g]
    t = np.array([1.0 + 0j])
    for s in states:
        t = np.kron(t, s)
    t = t.reshape((2,) * n)
    return np.transpose(t, axes=[flat.index(q) for q in range(n)]).reshape(-1)


def _random_groups(pr, n, min_groups=2):
    qs = list(range(n))
    pr.shuffle(qs)
    k = pr.randint(min_groups, max(min_groups, n - 1)) if n > 2 else 2
    k = min(k, n)
    cuts = sorted(pr.sample(range(1, n), k - 1))
    groups = [qs[a:b] for a, b in zip([0] + cuts, cuts + [n])]
    for g in groups:          # shuffled qubit order inside the groups as well
        pr.shuffle(g)
    return groups


def make_vector(kind, n, pr, r):
    """pr: random.Random, r: numpy Generator.  All generated vectors keep every Schmidt coefficient
    either exactly 0 (to rounding, < 1e-12) or > 1e-3: the band (1e-12, 1e-3) around the code's 1e-7
    rank threshold is excluded."""
    if kind == "haar":
        return _haar(r, n)
    if kind == "real":
        v = r.normal(size=2 ** n)
        return v / np.linalg.norm(v)
    if kind == "nonneg":
        v = r.random(2 ** n) + 0.05
        return v / np.linalg.norm(v)
    if kind == "basis":
        v = np.zeros(2 ** n, dtype=complex)
        v[pr.randrange(2 ** n)] = pr.choice([1, -1, 1j, -1j])
        return v
    if kind == "uniform":
        return np.ones(2 ** n, dtype=complex) / math.sqrt(2 ** n)
    if kind == "product":        # fully separable, random single-qubit states, shuffled order
        qs = list(range(n))
        pr.shuffle(qs)
        return _interleave(n, [[q] for q in qs], [_haar(r, 1) for _ in qs])
    if kind == "groups":         # exactly separable across randomly interleaved groups
        groups = _random_groups(pr, n)
        return _interleave(n, groups, [_haar(r, len(g)) for g in groups])
    if kind == "ghzmix":         # GHZ on a random subset (>=2 qubits) x product on the rest
        qs = list(range(n))
        pr.shuffle(qs)
        m = pr.randint(2, n)
        ghz = np.zeros(2 ** m, dtype=complex)
        ghz[0] = ghz[-1] = 1 / math.sqrt(2)
        groups = [qs[:m]] + [[q] for q in qs[m:]]
        return _interleave(n, groups, [ghz] + [_haar(r, 1) for _ in qs[m:]])
    if kind == "w":
        v = np.zeros(2 ** n, dtype=complex)
        for q in range(n):
            v[1 << q] = 1 / math.sqrt(n)
        return v
    if kind == "lowrank":        # Schmidt rank 2 across a random bipartition (n >= 4), else haar
        if n < 4:
            return _haar(r, n)
        qs = list(range(n))
        pr.shuffle(qs)
        k = pr.randint(2, n - 2)
        a, b = qs[:k], qs[k:]
        u0, u1 = _orth2(r, len(a))
        w0, w1 = _orth2(r, len(b))
        c0 = math.sqrt(pr.uniform(0.55, 0.9))
        c1 = math.sqrt(1 - c0 ** 2)
        return c0 * _interleave(n, [a, b], [u0, w0]) + c1 * _interleave(n, [a, b], [u1, w1])
    if kind == "nearprod":       # product state + sizeable perturbation: small but not tiny losses
        qs = list(range(n))
        pr.shuffle(qs)
        p = _interleave(n, [[q] for q in qs], [_haar(r, 1) for _ in qs])
        v = p + pr.choice([0.05, 0.15, 0.3]) * _haar(r, n)
        return v / np.linalg.norm(v)
    raise ValueError(kind)


def _orth2(r, m):
    a = _haar(r, m)
    b = _haar(r, m)
    b = b - np.vdot(a, b) * a
    return a, b / np.linalg.norm(b)


KINDS = ["haar", "real", "nonneg", "basis", "uniform", "product", "groups", "ghzmix", "w", "lowrank", "nearprod"]


def gen_cases(ctx, nmax, per_vec, cx_every, nmin=2, kinds=KINDS, reps=1):
    pr = ctx.rng
    r = ctx.nprng()
    cases = []
    combos_all = [(l, s, u) for l in LOSSES for s in STRATS for u in (False, True)]
    count = 0
    for n in range(nmin, nmax + 1):
        for kind in kinds:
            for rep_i in range(reps):
                v = make_vector(kind, n, pr, r)
                vec = [[float(z.real), float(z.imag)] for z in np.asarray(v, dtype=complex)]
                combos = list(combos_all) if per_vec is None else pr.sample(combos_all, min(per_vec, len(combos_all)))
                # zero loss with every strategy is always included (the "exact at zero loss" sentence)
                for s in STRATS:
                    u = pr.random() < 0.5
                    if (0.0, s, u) not in combos:
                        combos.append((0.0, s, u))
                for (l, s, u) in combos:
                    c = pr.choice([0, 0, 1, 2, 3]) if n >= 4 else pr.choice([0, 0, 1])
                    count += 1
                    cases.append({"n": n, "kind": kind, "vec": vec, "l": l, "s": s, "u": u, "c": c,
                                  "tag": f"{rep_i}", "do_cx": (count % cx_every == 0) and n <= 6,
                                  "ref_form": count // cx_every})
                # option edge cases: ignored max_fidelity_loss, unknown strategy string
                if rep_i == 0:
                    cases.append({"n": n, "kind": kind, "vec": vec, "l": pr.choice([-0.25, 1.5]), "s": pr.choice(STRATS),
                                  "u": False, "c": 0, "tag": "badl", "do_cx": False})
                    cases.append({"n": n, "kind": kind, "vec": vec, "l": pr.choice(LOSSES), "s": "single_split",
                                  "u": pr.random() < 0.5, "c": 0, "tag": "unk", "do_cx": False})
    return cases


def gen_entry_cases(ctx):
    """Call forms and option plumbing of baa_lowrank.py that the (vector, options) grid never takes:
    opt_params None / {} (all defaults), a label, ndarray params, iso/unitary schemes handed down, the
    static `initialize` with qubits=None and with an explicit permuted qubit list; and two n=14 states, the
    smallest size at which schmidt_decomposition('auto', rank=1) switches to randomized_svd (cheap:
    product-like plans, the whole vector is never prepared as one factor)."""
    pr = ctx.rng
    r = ctx.nprng()
    cases = []

    def vec_of(v):
        return [[float(z.real), float(z.imag)] for z in np.asarray(v, dtype=complex)]

    def add(n, kind, form, l, s, u, c, **extra):
        v = make_vector(kind, n, pr, r)
        cases.append(dict({"n": n, "kind": kind, "vec": vec_of(v), "l": l, "s": s, "u": u, "c": c,
                           "tag": "form-" + form, "form": form, "do_cx": False}, **extra))

    for n, kind in [(2, "haar"), (3, "groups"), (4, "ghzmix"), (4, "haar")]:
        add(n, kind, "none", 0.0, "greedy", False, 0)
        add(n, kind, "empty", 0.0, "greedy", False, 0)
    for n, kind in [(3, "nearprod"), (4, "groups")]:
        add(n, kind, "label", pr.choice(LOSSES), pr.choice(STRATS), pr.random() < 0.5, 0)
        add(n, kind, "ndarray", pr.choice(LOSSES), pr.choice(STRATS), pr.random() < 0.5, 0)
    for n, kind in [(2, "real"), (3, "ghzmix"), (4, "lowrank"), (5, "groups")]:
        add(n, kind, "static", pr.choice([0.0, 0.1]), pr.choice(STRATS), pr.random() < 0.5, 0)
        qs = pr.sample(range(n + 1), n)
        add(n, kind, "static-qubits", pr.choice([0.0, 0.1]), pr.choice(STRATS), pr.random() < 0.5, 0, qubits=qs)
    for n, kind, l in [(4, "haar", 0.0), (5, "haar", 0.0), (5, "lowrank", 0.05), (6, "groups", 0.0)]:
        iso, uni = pr.choice([("knill", "qsd"), ("knill", "csd"), ("ccd", "csd")])
        add(n, kind, "schemes", l, pr.choice(STRATS), True, 0, iso=iso, uni=uni)
    # n = 14: randomized SVD inside the canonical pre-run / canonical search
    add(14, "product", "opt", 0.05, pr.choice(["greedy", "brute_force", "split"]), False, 0, rsvd_seed=pr.randrange(2 ** 31))
    cases[-1]["tag"] = "n14"
    add(14, "ghzmix", "opt", 1.0, "canonical", False, 0, rsvd_seed=pr.randrange(2 ** 31))
    cases[-1]["tag"] = "n14"
    return cases


# ---------------------------------------------------------------------------------------------
# boundary-value cases (inputs placed AT and next to the thresholds of the anchored code)
# ---------------------------------------------------------------------------------------------

def _pairs(v):
    return [[float(z.real), float(z.imag)] for z in np.asarray(v, dtype=complex)]


def _real_loss(pairs, l, s, c=0, u=False):
    """total_fidelity_loss of the plan the REAL adaptive_approximation returns (pre-pass: the budgets of the
    ladder below are placed relative to losses the code itself computes, never relative to a re-implementation)."""
    from qclib.state_preparation.util import baa
    return float(baa.adaptive_approximation([complex(a, b) for a, b in pairs], l, s, c, u).total_fidelity_loss)


def _almost_separable(n, cut, w, r):
    """sqrt(1-w) a0 (x) b0 + sqrt(w) a1 (x) b1 with a on the qubits `cut`, b on the others (both pairs
    orthonormal, haar): Schmidt weights (1-w, w) across the cut, generic across every other cut."""
    rest = [q for q in range(n) if q not in cut]
    a0, a1 = _orth2(r, len(cut))
    b0, b1 = _orth2(r, len(rest))
    return (math.sqrt(1 - w) * _interleave(n, [list(cut), rest], [a0, b0])
            + math.sqrt(w) * _interleave(n, [list(cut), rest], [a1, b1]))


# budgets relative to a loss T that a candidate of the search really has:  `loss <= max_fidelity_loss` (baa.py:250)
LADDER = [("below-rel-1e-5", lambda t: t * (1 - 1e-5)), ("below-2e-5", lambda t: t - 2e-5), ("below-5e-5", lambda t: t - 5e-5),
          ("at", lambda t: t), ("above-rel-1e-5", lambda t: t * (1 + 1e-5))]

# exactly separable 9/10-qubit layouts whose search leaves a FINAL block of 2-4 qubits that contains qubit 8 or 9
# together with a lower qubit (baa.py:387-389: the remaining register must come out ascending; CPython iterates
# small-int sets in ascending order only while every member is < 8)
STRADDLE_LAYOUTS = [
    # pre-screened with the recording wrapper on the real _create_node (Recorder.order_sensitive): with the strategy named, the
    # returned plan contains a block that was the REMAINING side of a split of a 3-4 qubit register and whose bare set order
    # is not ascending.  split / brute_force, max_combination_size 0:
    (9, [[0, 2, 4, 6], [1, 3], [5, 8], [7]]),
    (10, [[0, 2, 4, 6], [1], [3, 5], [7, 9], [8]]),
    (10, [[6], [0, 1, 2, 3], [4, 9], [7], [5, 8]]),
    (9, [[2, 4], [1], [0, 3, 6, 7], [5, 8]]),
    (9, [[3, 4, 5, 7], [0, 1], [2], [6, 8]]),
    (10, [[3, 4], [8], [0, 1, 2, 6, 7], [5, 9]]),
    # split / brute_force, max_combination_size 2:
    (9, [[2], [3], [1, 4], [5], [0], [6, 7, 8]]),
    (9, [[2, 4, 5], [0, 1, 3, 6], [7, 8]]),
    (9, [[0, 3, 6], [1, 2, 4, 5], [7, 8]]),
    # canonical (prefix splits), max_combination_size 0 resp. 2:
    (9, [[0, 1, 2, 3], [4, 5], [6], [7, 8]]),
    (9, [[0, 1], [2, 3], [4, 5], [6], [7, 8]]),
    # (greedy: 480 random exactly separable layouts x 4 sizes and 48 random states x 3 lossy budgets never left such a block:
    #  its pick rule - most CNOTs saved, baa.py:311 - prefers an approximate single-qubit removal to the exact sibling; greedy
    #  runs on all layouts below all the same)
]


def gen_boundary_cases(ctx):
    pr = ctx.rng
    r = ctx.nprng()
    cases = []

    def add(n, kind, pairs, l, s, u, c, tag, counts, **extra):
        cases.append(dict({"n": n, "kind": kind, "vec": pairs, "l": float(l), "s": s, "u": bool(u), "c": int(c), "tag": tag,
                           "do_cx": False, "bcount": list(counts)}, **extra))

    def ladder(n, kind, pairs, s, u, c, t, tag, what):
        for name, f in LADDER:
            l = f(t)
            if 0.0 < l <= 1.0:
                add(n, kind, pairs, l, s, u, c, f"{tag}-{name}", [f"boundary:{what}:{name}"])

    # --- (1) budget a hair below / at / above the loss of the candidate that wins at that budget -------------
    vecs = [(2, "haar"), (2, "real"), (3, "haar"), (3, "real"), (3, "nearprod"), (3, "w"), (4, "haar"), (4, "nearprod"),
            (4, "lowrank"), (5, "nearprod")]
    if not ctx.quick:
        vecs += [(3, "haar"), (4, "real"), (5, "haar"), (5, "lowrank"), (6, "nearprod")]
    for vi, (n, kind) in enumerate(vecs):
        pairs = _pairs(make_vector(kind, n, pr, r))
        p_loss = _real_loss(pairs, 1.0, "canonical")
        for s in STRATS:
            u = pr.random() < 0.5
            c = pr.choice([0, 0, 1, n // 2])
            seen = []
            for frac in (0.3, 0.6, 0.95):
                t = _real_loss(pairs, frac * p_loss, s, c, u)
                if t > 1e-6 and all(abs(t - x) > 1e-3 for x in seen) and len(seen) < 2:
                    seen.append(t)
                    ladder(n, kind, pairs, s, u, c, t, f"bnd{vi}-T{len(seen)}", "budget-vs-candidate-loss")
        # early exit `max_fidelity_loss >= product_state_node.total_fidelity_loss` (baa.py:92)
        if p_loss > 1e-6:
            s = pr.choice(["greedy", "brute_force", "split"])
            for name, l in (("below", p_loss * (1 - 1e-5)), ("at", p_loss), ("above", min(1.0, p_loss * (1 + 1e-5)))):
                add(n, kind, pairs, l, s, pr.random() < 0.5, 0, f"bnd{vi}-P-{name}", [f"boundary:budget-vs-product-loss:{name}"])

    # --- (2) almost separable across one cut, budget 0 and budgets around the tiny loss ----------------------
    cuts = [(2, [0]), (2, [1]), (3, [0]), (3, [1]), (3, [2]), (4, [1]), (4, [0, 1]), (4, [0, 2]), (4, [1, 3]), (5, [2]), (5, [0, 3])]
    for ci, (n, cut) in enumerate(cuts):
        for w in ([1e-5, 3e-5, 9e-5] if n <= 3 else [pr.choice([1e-5, 3e-5, 9e-5])]):
            pairs = _pairs(_almost_separable(n, cut, w, r))
            kind = "almostsep"
            tag = f"asep{ci}-w{w:g}"
            for s in STRATS:
                add(n, kind, pairs, 0.0, s, pr.random() < 0.5, pr.choice([0, 0, len(cut)]), tag + "-l0",
                    ["boundary:budget0-vs-schmidt-weight-1e-5..1e-4"])
            s = pr.choice(STRATS)
            u = pr.random() < 0.5
            t = _real_loss(pairs, 3 * w, s, 0, u)
            if 0.0 < t <= 3 * w:
                for name, l in (("third", t / 3), ("below-rel-1e-5", t * (1 - 1e-5)), ("at", t), ("triple", 3 * t)):
                    add(n, kind, pairs, l, s, u, 0, f"{tag}-{name}", [f"boundary:tiny-budget-vs-tiny-loss:{name}"])

    # --- (3) n = 9, 10: exactly separable, interleaved, a final block straddling qubit 8 ---------------------
    layouts = list(STRADDLE_LAYOUTS)
    for _ in range(2 if ctx.quick else 8):          # random layouts around a set-order-sensitive block
        n = pr.choice([9, 10])
        blocks = [b for b in ([5, 8], [7, 8], [6, 8], [3, 9], [7, 9], [6, 7, 8], [5, 7, 8], [6, 8, 9], [4, 7, 9], [5, 6, 7, 8])
                  if max(b) < n]
        blk = pr.choice(blocks)
        others = [q for q in range(n) if q not in blk]
        pr.shuffle(others)
        groups, i = [], 0
        while i < len(others):
            k = pr.choice([1, 2, 2, 3, 4])
            groups.append(sorted(others[i:i + k]))
            i += k
        layouts.append((n, groups + [blk]))
    for li, (n, groups) in enumerate(layouts):
        pairs = _pairs(_interleave(n, groups, [_haar(r, len(g)) for g in groups]))
        combos = [("split", 0), ("split", 2), ("canonical", 0), ("canonical", 2), ("greedy", 0), ("greedy", 2), ("brute_force", 2)]
        if n == 9:
            combos.append(("brute_force", 0))
        # l = 0 AND l = 1e-12: the SVD loss of an exactly separable cut comes out as +-4e-16, so at l = 0 the split is taken
        # only when the rounding happens to be <= 0; at 1e-12 it is always taken (no other cut of these states is below 1e-3)
        for s, c in combos:
            for l in (0.0, 1e-12):
                add(n, "straddle8", pairs, l, s, False, c, f"lay{li}", [f"boundary:register-straddles-qubit-8:n={n}"], straddle=True)
        add(n, "straddle8", pairs, 1e-12, pr.choice(["split", "greedy"]), True, 0, f"lay{li}-u",
            [f"boundary:register-straddles-qubit-8:n={n}"], straddle=True)

    # --- (3b) a rank>1 leaf next to untouched multi-qubit factors (baa_lowrank.py:139-149: one option dictionary per factor) ---
    #     product of A (4 qubits, almost Schmidt rank 2 across its first two qubits: truncation loss t), a single qubit D and
    #     one or two generic blocks, in several factor orders and interleaved; use_low_rank, budget just above t
    spec = np.array([0.8, 0.59, 0.08, 0.05])
    spec = spec / np.linalg.norm(spec)
    trunc = float(spec[2] ** 2 + spec[3] ** 2)

    def block_a():
        qa, _ = np.linalg.qr(r.normal(size=(4, 4)) + 1j * r.normal(size=(4, 4)))
        qb, _ = np.linalg.qr(r.normal(size=(4, 4)) + 1j * r.normal(size=(4, 4)))
        return ((qa * spec) @ qb).reshape(-1)

    shapes = [(7, "ADC", {"C": 2}), (7, "CAD", {"C": 2}), (8, "ADC", {"C": 3}), (8, "DAC", {"C": 3}), (8, "CDA", {"C": 3}),
              (8, "AB", {}), (9, "ADC", {"C": 4}), (9, "DAC", {"C": 4}), (9, "CAD", {"C": 4}), (9, "ADCE", {"C": 2, "E": 2})]
    if not ctx.quick:
        shapes += [(9, "ACD", {"C": 4}), (9, "CADE", {"C": 2, "E": 2}), (9, "ADB", {})]
    for si, (n, order, sizes) in enumerate(shapes):
        size = dict({"A": 4, "B": 4, "D": 1}, **sizes)
        for variant in ("kron", "interleaved"):
            qs = list(range(n))
            if variant == "interleaved":
                pr.shuffle(qs)
            groups, pos = [], 0
            for b in order:
                groups.append(sorted(qs[pos:pos + size[b]]))
                pos += size[b]
            states = [block_a() if b in "AB" else _haar(r, size[b]) for b in order]
            # with use_low_rank an EXACTLY separable cut yields no candidate at all (one singular value: max_ebits = -1,
            # baa.py:340-342), so the product is perturbed by 2% noise; the cuts then cost ~eps^2 = 4e-4 in total
            eps = 0.02
            vec = _interleave(n, groups, states)
            vec = vec + eps * _haar(r, n)
            vec = vec / np.linalg.norm(vec)
            pairs = _pairs(vec)
            n_lr = sum(b in "AB" for b in order)
            # max_combination_size 0 only: with 2 the pair-sized candidates never isolate the 4-qubit block.  (At n = 7 the
            # plans found keep A exact: a 2-qubit register processed first leaves max_k = 1 for A, baa.py:216.)
            combos = [("greedy", 0), ("split", 0)]
            if n <= 8 or (variant == "kron" and order in ("ADC", "DAC")):
                combos.append(("brute_force", 0))
            for s, cc in combos:
                l = 1.0 - (1.0 - 1.3 * trunc) ** n_lr + 1.5 * eps ** 2       # just above the truncation loss of the block(s)
                add(n, "lrleaf", pairs, l, s, True, cc, f"lrleaf{si}-{order}-{variant[0]}", [f"boundary:lowrank-leaf-family:n={n}"])
    # --- (4) max_combination_size below / at / above len(register)//2  (baa.py:216) ---------------------------
    for n in range(2, 7):
        for c in sorted({max(0, n // 2 - 1), n // 2, n // 2 + 1}):
            kind = pr.choice(["haar", "nearprod", "groups", "lowrank"])
            pairs = _pairs(make_vector(kind, n, pr, r))
            for s in STRATS:
                rel = "below" if c < n // 2 else ("at" if c == n // 2 else "above")
                add(n, kind, pairs, pr.choice([0.0, 0.1, 0.3]), s, pr.random() < 0.5, c, f"maxk-{rel}", [f"boundary:max_k-vs-half:{rel}"])

    # --- (5) max_fidelity_loss at and just outside [0, 1]  (baa_lowrank.py:57) --------------------------------
    for n, kind in [(3, "haar"), (4, "nearprod")]:
        pairs = _pairs(make_vector(kind, n, pr, r))
        for name, l in (("-1e-9", -1e-9), ("0", 0.0), ("+1e-9", 1e-9), ("1-1e-9", 1 - 1e-9), ("1", 1.0), ("1+1e-9", 1 + 1e-9)):
            add(n, kind, pairs, l, pr.choice(STRATS), pr.random() < 0.5, 0, "lrange" + name, ["boundary:max_fidelity_loss-range:" + name])

    # --- (6) a Schmidt coefficient a factor 3 below / above the 1e-7 rank cut (entanglement.py:_effective_rank) --
    for n, cut in [(3, [1]), (4, [0, 2]), (4, [3])]:
        for name, coef in (("3.3e-8", 3.3e-8), ("3e-7", 3e-7)):
            pairs = _pairs(_almost_separable(n, cut, coef ** 2, r))
            # amplitudes compared to 3e-6 here (everywhere else 1e-7): a coefficient s in (1e-7, 3e-5) puts a two-qubit block of
            # the exact low-rank preparation within fidelity 1e-9 of a special Weyl class, which qiskit's two-qubit synthesis
            # then rounds (error ~s; known findings K-C07-1 / K-C01-1, not the subject of C08).  What is evaluated at the rank
            # cut is the plan: search tree (tie), cover, budget, loss accounting.
            for u in (False, True):
                for l in (0.0, 1e-3):
                    add(n, "svcut", pairs, l, pr.choice(STRATS), u, 0, "sv" + name, ["boundary:schmidt-coefficient-vs-1e-7:" + name],
                        tol=3e-6)

    # --- (7) randomized-SVD switch `rank == 1 and n_qubits >= 14 and len(partition) > round(n/2.5)` -------------
    #     n = 13 / 14 / 15, partition size at / below the bound, rank 1 / 0; cheap product-like states
    for n, c, u, name in [(13, 0, False, "n=13"), (14, 0, False, "n=14"), (15, 0, False, "n=15"), (14, 6, False, "n=14:len=6"),
                          (15, 6, False, "n=15:len=6"), (14, 0, True, "n=14:rank=0")]:
        kind = pr.choice(["product", "ghzmix"])
        pairs = _pairs(make_vector(kind, n, pr, r))
        add(n, kind, pairs, pr.choice([0.0, 0.05, 1.0]), "canonical", u, c, "rsvd-" + name, ["boundary:randomized-svd-switch:" + name],
            rsvd_seed=pr.randrange(2 ** 31))
    return cases


# ---------------------------------------------------------------------------------------------
# pure helpers of baa.py, tied exhaustively
# ---------------------------------------------------------------------------------------------

def tie_helpers(ctx, nmax):
    from qclib.state_preparation.util import baa
    pr = ctx.rng
    regs = []
    for m in range(1, nmax + 1):
        regs.append(tuple(range(m)))
        for _ in range(3):
            regs.append(tuple(sorted(pr.sample(range(nmax + 3), m))))
    for reg in regs:
        for k in range(0, len(reg) + 1):
            ctx.tie({"op": "combs", "kind": "split", "reg": list(reg), "k": k},
                    ["c" + _nums(cmb) for cmb in baa._split_combinations(reg, k)])
            ctx.tie({"op": "combs", "kind": "all", "reg": list(reg), "k": k},
                    ["c" + _nums(cmb) for cmb in baa._all_combinations(reg, k)])
            ctx.count("helpers:combs")


def tie_local_partition(ctx, nmax):
    """The global->local index map, observed at the call of schmidt_decomposition."""
    from qclib.state_preparation.util import baa
    pr = ctx.rng
    for m in range(2, nmax + 1):
        for _ in range(6):
            reg = tuple(sorted(pr.sample(range(nmax + 4), m)))
            part = tuple(sorted(pr.sample(reg, pr.randint(1, m // 2))))
            seen = {}
            orig = baa.schmidt_decomposition

            def spy(state_vector, partition, *a, **k):
                seen["lp"] = [int(x) for x in partition]
                return orig(state_vector, partition, *a, **k)
            baa.schmidt_decomposition = spy
            try:
                baa._reduce_entanglement(np.ones(2 ** m) / math.sqrt(2 ** m), reg, part, False)
            except Exception as e:     # the real code raised on a valid register / partition
                ctx.fail(f"baa:local-partition:raises:reg={list(reg)}:part={list(part)}",
                         f"_reduce_entanglement(uniform, {reg}, {part}) raised {type(e).__name__}: {e}",
                         {"call": "baa._reduce_entanglement", "register": list(reg), "partition": list(part)})
                continue
            finally:
                baa.schmidt_decomposition = orig
            ctx.tie({"op": "local", "reg": list(reg), "part": list(part)}, ["lp" + _nums(seen["lp"])])
            ctx.count("helpers:local-partition")


def tie_index(ctx, nmax):
    """Assembly index map of the model (localIndex) against basis-state factors pushed through the
    real `compose(gate, qubits[::-1])` + `reverse_bits()` pattern of _define_initialize."""
    from qiskit import QuantumCircuit
    from qiskit.quantum_info import Statevector
    pr = ctx.rng
    for n in range(1, nmax + 1):
        for _ in range(3):
            groups = _random_groups(pr, n, 1) if n > 1 else [[0]]
            groups = [sorted(g) if pr.random() < 0.5 else g for g in groups]
            # for every global index I: prepare factor j in the little-endian basis state x_j and find where it lands
            table = [[0] * (2 ** n) for _ in groups]
            for xs in itertools.product(*[range(2 ** len(g)) for g in groups]):
                circ = QuantumCircuit(n)
                for g, x in zip(groups, xs):
                    sub = QuantumCircuit(len(g))
                    for k in range(len(g)):
                        if (x >> k) & 1:
                            sub.x(k)
                    circ.compose(sub, g[::-1], inplace=True)
                big = int(np.argmax(np.abs(Statevector(circ.reverse_bits()).data)))
                for j, x in enumerate(xs):
                    table[j][big] = x
            ctx.tie({"op": "index", "n": n, "regs": groups}, ["ix" + _nums(t) for t in table])
            ctx.count("helpers:assembly-index")


# ---------------------------------------------------------------------------------------------
# driver
# ---------------------------------------------------------------------------------------------

def compare(op, impl, model):
    import framework
    if op.get("op") == "baa":
        ex = [l for l in model if l.startswith("exact ")]
        model = [l for l in model if not l.startswith("exact ")]
        if _CTX is not None:
            _CTX.count("tie:exact-arithmetic-same-plan" if ex == ["exact 1"] else "tie:exact-arithmetic-differs(rounding-borderline)")
        d = framework.diff_lines(impl, model, tol=1e-12)
        return d
    return framework.diff_lines(impl, model)


def _execute(ctx, cases, workers=None):
    import concurrent.futures as cf
    import multiprocessing as mp
    workers = workers or min(14, max(1, (os.cpu_count() or 2) - 2))
    if len(cases) < 8:
        results = [run_case(c) for c in cases]
    else:
        with cf.ProcessPoolExecutor(max_workers=workers, mp_context=mp.get_context("fork")) as ex:
            results = list(ex.map(run_case, cases, chunksize=8))
    for c, res in zip(cases, results):
        for a in res["anomalies"]:
            ctx.notes.append("harness anomaly: " + a)
        if res["op"] is not None:
            op = res["op"]
            label = op.pop("label")
            ctx.tie(op, res["impl"], label=label)
        for nm in res["counts"] + c.get("bcount", []):
            ctx.count(nm)
        ctx.count(f"n={c['n']}")
        ctx.count(f"strategy:{c['s']}")
        for key, ok, detail, nontrivial, rep in res["checks"]:
            if ok:
                ctx.ok(key, nontrivial=nontrivial and c["n"] >= 2,
                       sample={"kind": c["kind"], "n": c["n"], "l": c["l"], "s": c["s"], "u": c["u"], "c": c["c"]})
            else:
                ctx.fail(key, detail, dict(rep, check=key))


def run(ctx):
    global _CTX
    _CTX = ctx
    import qiskit  # noqa: F401  (import before forking)
    import qclib.state_preparation  # noqa: F401
    ctx.notes.append("vectors keep Schmidt coefficients outside (1e-12, 1e-3): the band around the 1e-7 rank threshold and "
                     "the band where a zero-loss decision would depend on rounding are excluded")
    ctx.notes.append("boundary cases (gen_boundary_cases): budgets a hair below / at / above the loss of the candidate that wins at that "
                     "budget and of the fully separated plan (losses taken from a pre-pass of the real code), almost separable states "
                     "(non-leading Schmidt weight 1e-5..1e-4, coefficient >= 3e-3) at budget 0 and around the tiny loss, exactly "
                     "separable 9/10-qubit layouts whose plan keeps a remaining block straddling qubit 8 (l = 0 and 1e-12), "
                     "max_combination_size below/at/above half, max_fidelity_loss at and just outside [0,1], n = 13/14/15 around the "
                     "randomized-SVD switch, and 24 'svcut' cases with one Schmidt coefficient at 3.3e-8 / 3e-7 (amplitudes to 3e-6 there: "
                     "qiskit's two-qubit synthesis rounds blocks within fidelity 1e-9 of a special class, K-C07-1 / K-C01-1)")
    if ctx.quick:
        tie_helpers(ctx, 6)
        tie_local_partition(ctx, 6)
        tie_index(ctx, 4)
        cases = gen_cases(ctx, 5, 24, 6)
        cases += gen_cases(ctx, 6, 8, 6, nmin=6)
        cases += gen_entry_cases(ctx)
        cases += gen_boundary_cases(ctx)
    else:
        tie_helpers(ctx, 8)
        tie_local_partition(ctx, 8)
        tie_index(ctx, 5)
        cases = gen_cases(ctx, 6, None, 5, reps=2)
        cases += gen_cases(ctx, 7, 8, 10 ** 9, nmin=7)
        cases += gen_entry_cases(ctx)
        cases += gen_boundary_cases(ctx)
    _execute(ctx, cases)


def search(ctx, hints):
    global _CTX
    _CTX = ctx
    cases = gen_cases(ctx, 6, 16, 5)
    _execute(ctx, cases)


def replay(ctx, payload):
    global _CTX
    _CTX = ctx
    r = payload["replay"]
    opt = r["opt"]
    c = {"n": r["n"], "kind": r.get("kind", "replay"), "vec": r["vector"], "l": opt["max_fidelity_loss"],
         "s": opt["strategy"], "u": opt["use_low_rank"], "c": opt["max_combination_size"], "tag": r.get("tag", "replay"),
         "do_cx": bool(r.get("do_cx", False)) or "cx_baa" in r, "straddle": bool(r.get("straddle", False))}
    c.update({k: r[k] for k in ("form", "iso", "uni", "qubits", "rsvd_seed", "ref_form", "tol") if k in r})
    _execute(ctx, [c])
