"""C06 — sparse state preparation (merge.py, pivot.py, cvoqram.py)."""
import hashlib
import itertools
import math

import numpy as np

CLAIMED = True
TECHNIQUE = ("Lean 4 proofs (induction over string length / dictionary / search) of the classical bookkeeping and the amplitude "
             "recurrences of the three sparse initializers; executable models tied to merge.py / pivot.py / cvoqram.py by diffing "
             "tracked dictionaries, selections, angles and gate lists; Statevector oracle incl. zeros elsewhere and ancilla cleanliness")
LEVEL_TEXT = ("Proved for all sizes (induction, no samples): the string tracking of X/CX is the reversible action of the emitted gate "
              "(C06_track); _bit_string_search terminates (C06_search_terminates); for every dictionary of m>=2 distinct n-bit keys "
              "_select_strings succeeds, its result is the unique key matching dif_values on dif_qubits, and after _preprocess_states "
              "(one injective relabelling of all keys) the multi-controlled merge's controls hold exactly on the chosen pair "
              "(C06_merge_select); the merge rotation (complex and real branch) and the CVO-QRAM rotation load the exact amplitudes, "
              "norm recurrence included (C06_merge_rot, C06_cvo_amp); Hamming-sorted distinct patterns never fire an earlier branch "
              "(C06_cvo_order); WHOLE CIRCUIT of CvoqramInitialize (C06_cvo_total): for every n, both layouts and every mcg_method, the model "
              "circuit (x(flag), flip-flop, controlled U(alpha,beta,-beta) as ideal multi-controlled gate resp. the rccx compute/cu/uncompute "
              "ladder with qiskit's relative-phase matrix, flip-flop back) maps |0..0> to sum_k x_k|p_k>|flag 0>|anc 0> exactly (global phase, "
              "zeros elsewhere, ancillas clean), by induction over the patterns, complex or real amplitudes; the rccx matrix used there is "
              "derived from qiskit's h/t/cx/tdg definition (C06_rccx_matrix); WHOLE CIRCUIT of MergeInitialize (C06_merge_total, _unit): for every "
              "dictionary of m>=2 distinct n-bit keys (complex, or non-negative real amplitudes) mergeInit succeeds and the reversed "
              "circuit maps ||a||.|0..0> to sum_k a_k|k> exactly (global phase, zeros elsewhere), by induction over the loop passes. WHOLE CIRCUIT of PivotInitialize (C06_pivot_total, C06_pivot_total_aux): pivotInit succeeds for every dictionary of m>=2 (aux: m>=3) distinct "
              "keys (pigeonhole for _get_index_zero, strictly decreasing count of keys outside the low block: C06_pivot_progress; _next_state = "
              "evaluation of the emitted gates on ALL keys and injective: C06_pivot_step) and, given the C01 hypothesis for the dense hand-off of "
              "that call, dense initializer + pivot gates in inverse order with reverse_bits prepare the dictionary exactly (zeros elsewhere; aux: "
              "rccx ladder with true phases, auxiliaries returned clean). The older C06_pivot_step_partial is kept (subsumed). Tie: all dictionaries with n<=3 (every subset, 2/4 orders) and random ones to n<=7, all 7 variants. Oracle: "
              "Statevector of the real definitions vs the embedded dictionary (global phase, zeros elsewhere, auxiliaries in |0>).")
LEVEL_NOTE = ("Trusted: Lean kernel (standard axioms); hand models <-> code only on explored inputs; multi-controlled back-ends (Ldmcu, Mcg, "
              "LdMcSpecialUnitary, qiskit .control()/mcx v-chain-dirty), rccx, LowRankInitialize are opaque primitives (C04/C05/C01, checked "
              "numerically here through the oracle); float vs exact reals.")
LEAN_TARGETS = ["QclibModel.Props.C06"]
THEOREMS = [
    "Qclib.C06_track", "Qclib.C06_search_terminates", "Qclib.C06_merge_select", "Qclib.C06_merge_rot",
    "Qclib.C06_pivot_step_partial", "Qclib.C06_cvo_order", "Qclib.C06_cvo_amp",
    "Qclib.C06_cvo_total", "Qclib.C06_rccx_matrix", "Qclib.C06_merge_total", "Qclib.C06_merge_total_unit",
    "Qclib.C06_pivot_step", "Qclib.C06_pivot_progress", "Qclib.C06_pivot_total", "Qclib.C06_pivot_total_aux",
]
TRUSTED = [
    "multi-controlled one-qubit gates (Ldmcu, Mcg, LdMcSpecialUnitary, qiskit ControlledGate, mcx v-chain-dirty, ccx) act as "
    "'apply the 2x2 iff all controls are 1' (properties C04/C05; exercised by the Statevector oracle of this check)",
    "qiskit rccx is an involution that computes AND on a clean target up to a phase that its second application cancels",
    "LowRankInitialize prepares the dense vector it is given (property C01)",
    "CPython iterates a set of small non-negative integers in increasing order (bit_search_space of merge.py); tied on every case",
    "float: angles/matrices compared to 1e-9 (1e-6 for the ill-conditioned last CVO-QRAM rotation)",
]
ASSUMPTIONS = ["exact real/complex arithmetic in the theorems; implementation compared to 1e-7 (oracle) / 1e-9 (tie)",
               "all listed amplitudes are non-zero (generic generators keep |a| >= 0.02; the light-tail families go down to 1e-6)"]
RULE = ("branch coverage: key sets pre-screened with the recording wrappers so that every operand-kind combination reaching "
        "merge's _compute_angles (complex/complex, float/complex, complex/float, float/float), every pivot MCX back-end / ladder "
        "length and every CVO control count is exercised with complex and negative-real amplitudes (histogram in branch_histogram); "
        "tie: (initializer, options, ordered dictionary) whose trace (selections, tracked dictionaries after every step, angles, dense "
        "hand-off vector, flattened gate list with opaque multi-controlled gates) was diffed against the Lean model; oracle: "
        "Statevector(definition) vs embedded dictionary on the full register; distinct = different (variant, ordered keys, amplitude kind); "
        "non-trivial = m >= 2; input-diversity section (_diversity_*): element types (int / float / complex / numpy 32- and 64-bit "
        "scalars, signed zeros), heavy head + 1e-3..1e-6 tail in every load position, exact phases +-1 +-i, global phases, repeated "
        "values, dictionary orders, n = 1..3 size ladders, and every entry form (partial / None-valued / shared opt_params, copies, "
        "gate appended twice, static initialize with every option on permuted wires as ints / Qubit objects / tuple / positional), "
        "each through tie and oracle, counters diversity:*")
DRIVER = "Drivers/C06.lean"

TOL = 1e-7
OPK = {"cc": "complex/complex", "fc": "float/complex", "cf": "complex/float", "ff": "float/float"}
# key sets on which merge's `_compute_angles` receives (complex, float): a still-unmerged entry first, a merged norm second
MERGE_FIXED = [["0000", "0001", "0010", "0100", "1100", "1101", "1110"]]
BUILD_LIMIT_S = 20      # a construction that runs longer than this is reported as non-terminating


class Hang(Exception):
    pass


class time_limit:
    """SIGALRM guard around calls into qclib (an altered loop condition must not hang the check)."""

    def __init__(self, seconds):
        self.seconds = seconds

    def __enter__(self):
        import signal

        def handler(signum, frame):
            raise Hang(f"no result after {self.seconds}s")
        self.old = signal.signal(signal.SIGALRM, handler)
        signal.setitimer(signal.ITIMER_REAL, self.seconds)

    def __exit__(self, *a):
        import signal
        signal.setitimer(signal.ITIMER_REAL, 0)
        signal.signal(signal.SIGALRM, self.old)
        return False

VARIANTS = [("merge", {}), ("pivot", {"aux": False}), ("pivot", {"aux": True}),
            ("cvo", {"aux": True, "method": "linear"}), ("cvo", {"aux": False, "method": "linear"}),
            ("cvo", {"aux": False, "method": "qiskit"}), ("cvo", {"aux": False, "method": "barenco"})]
# with auxiliaries the mcg_method is ignored by the code path; still exercised by the oracle
ORACLE_EXTRA = [("cvo", {"aux": True, "method": "qiskit"}), ("cvo", {"aux": True, "method": "barenco"})]


def vname(alg, opts):
    if alg == "merge":
        return "merge"
    if alg == "pivot":
        return "pivot.aux" if opts["aux"] else "pivot"
    return f"cvo.{'aux' if opts['aux'] else 'noaux'}.{opts['method']}"


def _tname(a):
    """name of the exact Python / numpy type of an amplitude ('int', 'float', 'complex', 'np.float32', ...)"""
    t = type(a)
    return t.__name__ if t in (int, float, complex, bool) else "np." + t.__name__


def _cast(v, tname):
    """the value `v` as an object of the named scalar type (harness side; the ideal is computed from the result)"""
    z = complex(v)
    if tname == "complex":
        return complex(z)
    if tname == "float":
        return float(z.real)
    if tname == "int":
        return int(round(z.real))
    npt = getattr(np, tname.split(".", 1)[1])
    if np.issubdtype(npt, np.complexfloating):
        return npt(z)
    if np.issubdtype(npt, np.integer):
        return npt(int(round(z.real)))
    return npt(z.real)


def enc_amps(amps):
    """JSON form (replay payloads) that keeps the Python type of each amplitude: [re, im] = complex, [re] = float,
    [re, im, typename] = any other scalar type (int, numpy scalars); signed zeros survive the JSON round trip"""
    out = []
    for a in amps:
        if type(a) is complex:
            out.append([float(a.real), float(a.imag)])
        elif type(a) is float:
            out.append([float(a)])
        else:
            out.append([float(np.real(a)), float(np.imag(a)), _tname(a)])
    return out


def dec_amps(xs):
    return [_cast(complex(x[0], x[1]), x[2]) if len(x) == 3 else complex(x[0], x[1]) if len(x) == 2 else float(x[0])
            for x in xs]


def dhash(keys, amps):
    h = hashlib.sha1((",".join(keys) + "|" + ",".join(f"{float(np.real(a)):.6f}{float(np.imag(a)):+.6f}" for a in amps)).encode()).hexdigest()[:8]
    return h


# ----------------------------------------------------------------------------------------------
# generators
# ----------------------------------------------------------------------------------------------

def amplitudes(ctx, m, kind):
    """unit vector of m non-zero amplitudes, |a_i| >= 0.02·(1/sqrt m)-ish (kept away from 0)"""
    r = ctx.rng
    if kind == "tail":
        # heavy head, light tail: one or two amplitudes carry almost all the norm, the others are 1e-4..1e-3 in
        # modulus (complex / negative) - the mass still to be loaded after the head is tiny but NOT zero, which is
        # the boundary of `(norm - phase) < 0` in util._compute_matrix_angles and of the merge angle formulas;
        # half of the time the light entries come last (CVO-QRAM loads in dictionary order)
        h = 1 if m <= 2 else r.choice([1, 2])
        head = [complex(r.uniform(0.5, 1.0) * r.choice([-1, 1]), r.uniform(-0.5, 0.5)) for _ in range(h)]
        tail = [complex(r.uniform(1e-4, 1e-3) * r.choice([-1, 1]), r.uniform(1e-4, 1e-3) * r.choice([-1, 0, 1]))
                for _ in range(m - h)]
        v = head + tail
        if r.random() < 0.5:
            r.shuffle(v)
        nrm = math.sqrt(sum(abs(z) ** 2 for z in v))
        return [complex(z.real / nrm + 0.0, z.imag / nrm + 0.0) for z in v]
    while True:
        if kind == "pos":
            v = [complex(r.uniform(0.2, 1.0), 0.0) for _ in range(m)]
        elif kind == "signed":
            v = [complex(r.choice([-1, 1]) * r.uniform(0.2, 1.0), 0.0) for _ in range(m)]
        elif kind == "neg":
            v = [complex(-r.uniform(0.2, 1.0), 0.0) for _ in range(m)]
        elif kind == "uniform":
            v = [complex(1.0, 0.0)] * m
        elif kind in ("fpos", "fsigned", "fneg", "fmixed"):
            # Python floats (not complex) as dictionary values; fmixed: some entries float, some complex in the same
            # dictionary (the base class converts them with complex(.) in validate_parameter)
            sg = {"fpos": [1], "fneg": [-1], "fsigned": [-1, 1], "fmixed": [-1, 1]}[kind]
            v = [r.choice(sg) * r.uniform(0.2, 1.0) for _ in range(m)]
            if kind == "fsigned" and m >= 2:
                v[0], v[1] = -abs(v[0]), abs(v[1])
            if kind == "fmixed":
                v = [x if i % 2 == 0 else complex(r.gauss(0, 1), r.gauss(0, 1)) for i, x in enumerate(v)]
            nrm = math.sqrt(sum(abs(z) ** 2 for z in v))
            v = [z / nrm if isinstance(z, complex) else float(z / nrm) for z in v]
            if min(abs(z) for z in v) >= 0.02 / math.sqrt(m) * 3:
                return v
            continue
        else:
            v = [complex(r.gauss(0, 1), r.gauss(0, 1)) for _ in range(m)]
            if kind == "mixed":   # some exactly real, some exactly imaginary, some negative real
                v = [z if i % 4 == 0 else complex(z.real, 0.0) if i % 4 == 1 else complex(0.0, z.imag) if i % 4 == 2
                     else complex(-abs(z), 0.0) for i, z in enumerate(v)]
        nrm = math.sqrt(sum(abs(z) ** 2 for z in v))
        v = [complex(z.real / nrm + 0.0, z.imag / nrm + 0.0) for z in v]     # + 0.0 removes negative zeros
        if min(abs(z) for z in v) >= 0.02 / math.sqrt(m) * 3:
            return v


def all_keys(n):
    return [format(i, f"0{n}b") for i in range(2 ** n)]


def hamming_sorted(ctx, keys):
    ks = list(keys)
    ctx.rng.shuffle(ks)
    ks.sort(key=lambda s: s.count("1"))
    return ks


def order_for(ctx, alg, keys):
    if alg == "cvo":
        return hamming_sorted(ctx, keys)
    ks = list(keys)
    ctx.rng.shuffle(ks)
    return ks


def valid(alg, opts, m):
    if m < 2:
        return False
    if alg == "pivot" and opts["aux"] and m < 3:
        return False
    return True


# ----------------------------------------------------------------------------------------------
# real code
# ----------------------------------------------------------------------------------------------

DEFAULT_OPTS = {"merge": {}, "pivot": {"aux": False}, "cvo": {"aux": True, "method": "linear"}}
FORMS = ("none", "empty", "label", "static", "static-qubits")


# entry forms added by the input-diversity pass (see _diversity_calls); every one is rebuilt by `build` from
# (alg, effective options, dictionary, form, wires) so that a replay payload only has to carry these
OPTION_FORMS = ("partial", "nonevals", "extra-key", "reuse-first", "reuse-second")      # need opt_params (not merge)
OBJECT_FORMS = ("copy-before-def", "orig-after-copy", "copy-after-def", "odict", "twice")
STATIC_FORMS = ("static-qubits", "static-desc", "static-qobj", "static-pos", "static-tuple")
OPT_DEFAULTS = {"pivot": {"aux": False}, "cvo": {"with_aux": True, "mcg_method": "linear"}}
# flag-form pass: the boolean option (`aux` of pivot, `with_aux` of CVO-QRAM) handed over as numpy.bool_ / int 1 / 0 through
# the constructor (opt_params by keyword / positionally) and the static initialize (keyword / positionally, permuted wires)
FLAG_TYPES = {"npbool": np.bool_, "int": int}
FLAG_FORMS = tuple(f"flag:{t}:{e}" for t in FLAG_TYPES for e in ("ctor", "ctor-pos", "static", "static-pos"))


def _opt_dict(alg, opts):
    """the FULL opt_params dictionary that requests the effective options `opts`"""
    if alg == "pivot":
        return {"aux": opts["aux"]}
    if alg == "cvo":
        return {"with_aux": opts["aux"], "mcg_method": opts["method"]}
    return None


def _other_opts(alg, opts):
    """different (valid) option contents, written into a shared opt_params object before / after the observed construction"""
    if alg == "pivot":
        return {"aux": not opts["aux"]}
    return {"with_aux": not opts["aux"], "mcg_method": {"linear": "barenco", "qiskit": "linear", "barenco": "qiskit"}[opts["method"]]}


def build(alg, opts, d, form="opt", wires=None, width=None):
    """form: how the gate is requested.  'opt' = explicit options (the bulk of the cases); 'none' / 'empty' = opt_params None / {}
    (only meaningful when `opts` are the class defaults); 'label'; 'static' / 'static-qubits' = the class's static
    `initialize(q_circuit, state, qubits)` on a host circuit (returns the host circuit's only instruction).
    Diversity forms (opts = the EFFECTIVE options the call is documented to select):
      'partial'         opt_params holds only the keys that differ from the documented defaults (possibly {})
      'nonevals'        keys at their default are present with value None
      'extra-key'       full dictionary plus an unrelated key
      'reuse-first'     ONE opt_params object used for two constructions, contents changed after the observed (first) one
      'reuse-second'    ... contents changed before the observed (second) one
      'copy-before-def' gate.copy() taken before any definition exists; the copy is observed
      'orig-after-copy' the original is observed after a copy was taken
      'copy-after-def'  copy taken after the definition was built; the copy is observed
      'odict'           the dictionary is a collections.OrderedDict
      'twice'           the same gate object appended on two disjoint, permuted wire lists of one host (wires = [w1, w2])
      'static-qubits'   static initialize(host, d, qubits=[permuted ints], opt_params=...) on a wider host
      'static-desc'     the same with a strictly descending wire list
      'static-qobj'     qubits are Qubit objects of a host made of two registers
      'static-pos'      every argument positional
      'static-tuple'    qubits given as a tuple"""
    from qiskit import QuantumCircuit, QuantumRegister
    if alg == "merge":
        from qclib.state_preparation.merge import MergeInitialize as cls
        kw = {}
    elif alg == "pivot":
        from qclib.state_preparation.pivot import PivotInitialize as cls
        kw = {"opt_params": {"aux": opts["aux"]}}
    else:
        from qclib.state_preparation.cvoqram import CvoqramInitialize as cls
        kw = {"opt_params": {"with_aux": opts["aux"], "mcg_method": opts["method"]}}
    if form in ("none", "empty"):
        assert opts == DEFAULT_OPTS[alg]
        if alg != "merge":
            kw = {"opt_params": None if form == "none" else {}}
    if form == "label":
        return cls(dict(d), label="psi", **kw)
    if form in FLAG_FORMS:
        assert alg != "merge"
        _, tname, entry = form.split(":")
        flag = FLAG_TYPES[tname](opts["aux"])
        assert type(flag) is not bool and bool(flag) == opts["aux"]
        op = {"aux": flag} if alg == "pivot" else {"with_aux": flag, "mcg_method": opts["method"]}
        if entry == "ctor":
            return cls(dict(d), opt_params=op)
        if entry == "ctor-pos":
            return cls(dict(d), None, op)
        hw = max(width + 1, max(wires) + 1)
        host = QuantumCircuit(hw)
        if entry == "static":
            cls.initialize(host, dict(d), qubits=list(wires), opt_params=op)
        else:
            cls.initialize(host, dict(d), list(wires), op)
        gate = host.data[0].operation
        gate._c06_host, gate._c06_places = host, [list(wires)]
        return gate
    if form in OPTION_FORMS:
        assert alg != "merge"
        full, dflt = _opt_dict(alg, opts), OPT_DEFAULTS[alg]
        if form == "partial":
            return cls(dict(d), opt_params={k: v for k, v in full.items() if v != dflt[k]})
        if form == "nonevals":
            return cls(dict(d), opt_params={k: (None if v == dflt[k] else v) for k, v in full.items()})
        if form == "extra-key":
            return cls(dict(d), opt_params=dict(full, unused_option=1))
        other = _other_opts(alg, opts)
        if form == "reuse-first":
            shared = dict(full)
            gate = cls(dict(d), opt_params=shared)
            shared.update(other)
            cls(dict(d), opt_params=shared)
            return gate                      # its definition is built only now, after the shared object changed
        shared = dict(other)
        cls(dict(d), opt_params=shared)
        shared.update(full)
        return cls(dict(d), opt_params=shared)
    if form == "copy-before-def":
        return cls(dict(d), **kw).copy()
    if form == "orig-after-copy":
        gate = cls(dict(d), **kw)
        gate.copy()
        return gate
    if form == "copy-after-def":
        gate = cls(dict(d), **kw)
        assert gate.definition is not None
        return gate.copy()
    if form == "odict":
        import collections
        return cls(collections.OrderedDict(d), **kw)
    if form == "twice":
        host = QuantumCircuit(max(max(w) for w in wires) + 1)
        gate = cls(dict(d), **kw)
        for w in wires:
            host.append(gate, list(w))
        gate._c06_host, gate._c06_places = host, [list(w) for w in wires]
        return gate
    if form == "static" or form in STATIC_FORMS:
        if form == "static":
            host = QuantumCircuit(width)
            cls.initialize(host, dict(d), **kw)
            places = [list(range(width))]
        else:
            hw = max(width + 1, max(wires) + 1)
            if form == "static-qobj":
                a = max(1, hw // 3)
                host = QuantumCircuit(QuantumRegister(a, "ra"), QuantumRegister(hw - a, "rb"))
                cls.initialize(host, dict(d), qubits=[host.qubits[i] for i in wires], **kw)
            elif form == "static-pos":
                host = QuantumCircuit(hw)
                cls.initialize(host, dict(d), list(wires), *kw.values())
            elif form == "static-tuple":
                host = QuantumCircuit(hw)
                cls.initialize(host, dict(d), qubits=tuple(wires), **kw)
            else:
                host = QuantumCircuit(hw)
                cls.initialize(host, dict(d), qubits=list(wires), **kw)
            places = [list(wires)]
        gate = host.data[0].operation
        gate._c06_host, gate._c06_places = host, places
        return gate
    return cls(dict(d), **kw)


def layout(alg, opts, n, m):
    """(total width, function key -> basis index of the full register, data mask)"""
    if alg == "merge":
        return n, (lambda k: sum(1 << i for i, c in enumerate(k) if c == "1"))
    if alg == "pivot":
        if opts["aux"]:
            t = int(math.ceil(math.log2(m)))
            return n + t - 1, (lambda k: int(k, 2) << (t - 1))
        return n, (lambda k: int(k, 2))
    if opts["aux"]:
        return 2 * n, (lambda k: int(k, 2) << n)
    return n + 1, (lambda k: int(k, 2) << 1)


def _hangs(ctx):
    if not hasattr(ctx, "c06_hangs"):
        ctx.c06_hangs = {}
    return ctx.c06_hangs


def payload(alg, opts, keys, amps, extra=None):
    p = {"call": vname(alg, opts), "alg": alg, "opts": opts, "keys": list(keys),
         "amps": enc_amps(amps)}
    if extra:
        p.update(extra)
    return p


def oracle_case(ctx, alg, opts, keys, amps, kind, form="opt", wires=None, allow_m1=False):
    """Statevector(definition) vs the dictionary embedded in the full register (auxiliaries |0>)."""
    from qiskit.quantum_info import Statevector
    n, m = len(keys[0]), len(keys)
    name = vname(alg, opts)
    tag = f"n={n}:m={m}:{kind}:{dhash(keys, amps)}" + ("" if form == "opt" else f":form={form}")
    fextra = None if form == "opt" else {"form": form, "wires": wires}

    def pl(alg, opts, keys, amps, extra=None):     # replay must rebuild the same entry form
        return payload(alg, opts, keys, amps, dict(extra or {}, **(fextra or {})))
    d = dict(zip(keys, amps))
    if _hangs(ctx).get(name, 0) >= 2:     # circuit breaker: already reported twice as non-terminating
        return
    try:
        with time_limit(BUILD_LIMIT_S):
            gate = build(alg, opts, d, form, wires, layout(alg, opts, n, m)[0])
            circ = gate.definition
    except Hang as e:
        ctx.fail(f"{name}:hangs:{tag}", f"construction does not terminate ({e})", pl(alg, opts, keys, amps))
        _hangs(ctx)[name] = _hangs(ctx).get(name, 0) + 1
        return
    except Exception as e:  # construction must not fail on a valid input
        ctx.fail(f"{name}:raises:{type(e).__name__}:{tag}", f"construction raised {type(e).__name__}: {e}",
                 pl(alg, opts, keys, amps))
        return
    width, idx = layout(alg, opts, n, m)
    if circ.num_qubits != width:
        ctx.fail(f"{name}:width:{tag}", f"definition has {circ.num_qubits} qubits, expected {width}", pl(alg, opts, keys, amps))
        return
    sv = np.asarray(Statevector(circ).data)
    exp = np.zeros(2 ** width, dtype=complex)
    for k, a in d.items():
        exp[idx(k)] = a
    err = np.abs(sv - exp)
    worst = float(err.max())
    if form != "opt":
        ctx.count(f"branch:entry-form:{name}:{form}")
    host = getattr(gate, "_c06_host", None)
    if host is not None and worst <= TOL:
        # every instruction sits on the requested wires and the host circuit carries the (product) state there
        places = gate._c06_places
        got = [[host.find_bit(q).index for q in inst.qubits] for inst in host.data]
        hv = np.asarray(Statevector(host).data)
        hexp = np.zeros(2 ** host.num_qubits, dtype=complex)
        nz = [int(i) for i in np.nonzero(exp)[0]]
        for combo in itertools.product(nz, repeat=len(places)):
            pos, amp = 0, 1.0 + 0.0j
            for i, ws in zip(combo, places):
                pos |= sum(((i >> b) & 1) << ws[b] for b in range(width))
                amp *= exp[i]
            hexp[pos] = amp
        herr = float(np.abs(hv - hexp).max())
        if got != places or herr > TOL:
            ctx.fail(f"{name}:static-wiring:{tag}", f"gate appended on wires {got} (asked {places}); host state error {herr:.3e}",
                     pl(alg, opts, keys, amps))
            return
    if worst <= TOL and width <= 8 and hasattr(gate, "_define"):
        # second build of the definition on the SAME object (the cached definition dropped and requested again, as a
        # copy / parameter re-assignment does): it must load the same dictionary (state kept on the object between
        # builds, e.g. a running norm that is not reset, shows only here -- seeded change C06i)
        try:
            with time_limit(BUILD_LIMIT_S):
                gate._define()
                sv2 = np.asarray(Statevector(gate.definition).data)
            err2 = float(np.abs(sv2 - exp).max()) if sv2.shape == exp.shape else float("inf")
        except Exception as e:
            err2 = float("inf")
            ctx.count(f"rebuild-raises:{type(e).__name__}")
        ctx.count(f"branch:rebuild:{name}")
        if err2 > TOL:
            ctx.fail(f"{name}:rebuild:{tag}", f"the second build of the definition on the same gate object deviates from the "
                     f"dictionary by {err2:.3e} (the first build was exact: {worst:.3e})",
                     pl(alg, opts, keys, amps, {"rebuild": True, "err_second_build": err2}))
            return
    if worst <= TOL:
        ctx.ok(f"{name}:{tag}", nontrivial=m >= 2,
               sample={"variant": name, "n": n, "m": m, "kind": kind, "keys": keys[:6], "worst_abs_err": worst})
        ctx.count(f"oracle:{name}")
        return
    if alg == "pivot" and worst <= 1e-3:
        # Known precision limit of qiskit's A.2 pass in the dense hand-off (LowRankInitialize -> qclib.unitary.unitary(...,
        # apply_a2=True); findings K-C01-1 / K-C07-1): if the SAME construction with `qclib.unitary._apply_a2` replaced by the
        # identity meets the tolerance, the deviation belongs to that pass and not to the pivot bookkeeping.
        err2 = _recheck_without_a2(alg, opts, d, form, wires, width, exp)
        if err2 is not None and err2 <= TOL:
            ctx.count("a2-precision:pivot dense hand-off")
            ctx.fail(f"pivot:dense-a2-precision:n={n}:m={m}:{kind}" + (":aux" if opts["aux"] else ""),
                     f"worst abs err {worst:.3e} on the full register; with qclib.unitary._apply_a2 bypassed the error is "
                     f"{err2:.3e}: precision limit of qiskit's A.2 pass inside the dense LowRankInitialize hand-off",
                     pl(alg, opts, keys, amps, {"worst_abs_err": worst, "err_without_a2": err2}))
            return
    # classify, most specific first
    listed = np.array([idx(k) for k in keys])
    mask_listed = np.zeros(2 ** width, dtype=bool)
    mask_listed[listed] = True
    data_idx = set(idx(k) for k in all_keys(n))
    mask_data = np.array([i in data_idx for i in range(2 ** width)])
    ov = np.vdot(exp, sv)
    if abs(abs(ov) - 1) <= 1e-6 and np.abs(sv - ov / abs(ov) * exp).max() <= 1e-6:
        what, det = "global-phase", f"state correct up to the phase {ov / abs(ov):.6f}"
    elif float((np.abs(sv[~mask_data]) ** 2).sum()) > 1e-12:
        what, det = "ancilla-dirty", f"probability {float((np.abs(sv[~mask_data]) ** 2).sum()):.3e} with an auxiliary qubit not in |0>"
    elif err[mask_listed].max() <= TOL:
        what, det = "zeros-elsewhere", f"amplitude {err[~mask_listed].max():.3e} on an unlisted basis state"
    else:
        i = int(np.argmax(err * mask_listed))
        what, det = "listed-amplitude", f"basis {i:0{width}b}: got {sv[i]:.6f} expected {exp[i]:.6f}"
    ctx.fail(f"{name}:{what}:{tag}", f"{det}; worst abs err {worst:.3e}", pl(alg, opts, keys, amps, {"worst_abs_err": worst}))


def _recheck_without_a2(alg, opts, d, form, wires, width, exp):
    """same construction with `qclib.unitary._apply_a2` replaced by the identity (harness-side monkey patch)"""
    from unittest import mock
    from qiskit.quantum_info import Statevector
    import qclib.unitary as qu
    try:
        with mock.patch.object(qu, "_apply_a2", lambda circuit: circuit):
            with time_limit(BUILD_LIMIT_S):
                circ = build(alg, opts, d, form, wires, width).definition
            sv = np.asarray(Statevector(circ).data)
        return float(np.abs(sv - exp).max())
    except Exception:
        return None


def tie_case(ctx, alg, opts, keys, amps, form="opt", wires=None):
    """`form` != 'opt': the gate is requested through that entry form (see `build`) inside the recording wrappers; the model is
    still asked for (effective options, dictionary) - an entry form must not change what is built."""
    from props import c06_trace as T
    n = len(keys[0])
    d = dict(zip(keys, amps))
    make = None
    if form != "opt":
        def make():
            return build(alg, opts, d, form, wires, layout(alg, opts, n, len(keys))[0])
    # Initialize.validate_parameter turns every amplitude into a Python complex before the algorithms see it
    op = {"op": alg, "n": n, "keys": list(keys), "amps": [[float(a.real), float(a.imag)] for a in amps]}
    if _hangs(ctx).get(vname(alg, opts), 0) >= 2:
        return
    fsuffix = "" if form == "opt" else f":form={form}"
    fextra = None if form == "opt" else {"form": form, "wires": wires}
    try:
        with time_limit(BUILD_LIMIT_S):
            if alg == "merge":
                lines, _ = T.trace_merge(d, make=make)
            elif alg == "pivot":
                op["aux"] = opts["aux"]
                lines, _ = T.trace_pivot(d, opts["aux"], make=make)
            else:
                op["aux"] = opts["aux"]
                op["method"] = opts["method"]
                lines, _ = T.trace_cvo(d, opts["aux"], opts["method"], make=make)
    except Hang as e:
        ctx.fail(f"{vname(alg, opts)}:hangs:n={n}:m={len(keys)}:tie:{dhash(keys, amps)}" + fsuffix,
                 f"construction does not terminate ({e})", payload(alg, opts, keys, amps, fextra))
        _hangs(ctx)[vname(alg, opts)] = _hangs(ctx).get(vname(alg, opts), 0) + 1
        return
    except Exception as e:
        ctx.fail(f"{vname(alg, opts)}:raises:{type(e).__name__}:n={n}:m={len(keys)}:tie:{dhash(keys, amps)}" + fsuffix,
                 f"construction raised {type(e).__name__}: {e}", payload(alg, opts, keys, amps, fextra))
        return
    ctx.tie(op, lines, label=f"{vname(alg, opts)} n={n} keys={','.join(keys)}" + ("" if form == "opt" else f" form={form}")
            + ("" if all(type(a) is complex for a in amps) else " types=" + ",".join(sorted({_tname(a) for a in amps}))))
    ctx.count(f"tie:{vname(alg, opts)}")
    # coverage of the type- / order- / size-dependent branches actually taken by the real code
    if alg == "merge":
        for k in T.LAST["merge_kinds"]:
            ctx.count(f"branch:merge._compute_angles operands {OPK[k]}")
    elif alg == "cvo":
        for k in set(T.LAST["cvo_branches"]):
            ctx.count(f"branch:cvo._compute_matrix_angles {k}")
    toks = set()
    seen_gates = False
    for ln in lines:
        if ln.startswith("gates"):
            seen_gates = True
        elif seen_gates:
            toks.add(ln.split()[0].split("[")[0])
    for tk in toks - {"x", "cx", "lowrank"}:
        ctx.count(f"branch:{vname(alg, opts)} emits {tk}")


def string_ops_tie(ctx, nmax):
    """`_compute_op_x` / `_compute_op_cx` on every string and index (the functions C06_track is about)."""
    from qclib.state_preparation import merge as M
    for n in range(1, nmax + 1):
        for s in all_keys(n):
            for i in range(n):
                ctx.tie({"op": "opx", "s": s, "i": i}, ["1" + M._compute_op_x(s, i)])
                for t in range(n):
                    if t != i:
                        ctx.tie({"op": "opcx", "s": s, "c": i, "t": t}, ["1" + M._compute_op_cx(s, [i, t])])


# ----------------------------------------------------------------------------------------------
# comparison (custom tolerances; see c06_trace for the line format)
# ----------------------------------------------------------------------------------------------

def _close(a, b, tol, period=None):
    d = a - b
    if period:
        d = (d + period / 2) % period - period / 2
    return abs(d) <= tol


def _umat(th, ph, la, ga=0.0):
    c, sn = math.cos(th / 2), math.sin(th / 2)
    import cmath
    g = cmath.exp(1j * ga)
    return [g * c, -g * cmath.exp(1j * la) * sn, g * cmath.exp(1j * ph) * sn, g * cmath.exp(1j * (ph + la)) * c]


def cvo_effects(lines):
    """Well-conditioned form of a CVO-QRAM dump.  The k-th rotation acts on the flag branch, whose amplitude is sqrt(norm_k);
    what the circuit does to the state is `matrix * sqrt(norm_k)` (second column: the loaded amplitude x_k and the mass left on
    the flag, sqrt(norm_k - |x_k|^2)).  The angle itself is NOT well conditioned: alpha = 2 acos(sqrt((norm-|x|^2)/norm)) moves
    by ~sqrt(1e-16/norm) when norm - |x|^2 is rounding noise (last pattern, or a light tail: norm ~ 1e-7 gives 3e-5), while the
    state moves by ~1e-8.  So `load` lines become (norm, matrix*sqrt(norm)) and every rotation gate line (u2 / cu / mcu:*)
    becomes its 2x2 matrix times sqrt(norm_k) of the k-th load; both are then compared to the oracle's absolute tolerance."""
    from framework import parse_line
    norms, out, k = [], [], 0
    for ln in lines:
        name, wires, ps = parse_line(ln)
        if name == "load" and len(ps) == 4 and not any(isinstance(p, str) for p in ps):
            norms.append(ps[0])
            sq = math.sqrt(max(ps[0], 0.0))
            out.append(("load", wires, [ps[0]], [z * sq for z in _umat(ps[1], ps[2], ps[3])]))
        elif (name in ("u2", "cu") or name.startswith("mcu")) and not any(isinstance(p, str) for p in ps):
            sq = math.sqrt(max(norms[k], 0.0)) if k < len(norms) else 1.0
            k += 1
            mat = _umat(*ps) if name == "cu" else [complex(ps[2 * i], ps[2 * i + 1]) for i in range(4)] if len(ps) == 8 else None
            if mat is None:
                out.append((name, wires, ps, []))
            else:
                out.append((name, wires, [], [z * sq for z in mat]))
        else:
            out.append((name, wires, ps, []))
    return out


def compare_cvo(impl, model):
    a, b = cvo_effects(impl), cvo_effects(model)
    if len(a) != len(b):
        return f"length {len(a)} vs {len(b)}"
    for i, ((n1, w1, p1, m1), (n2, w2, p2, m2)) in enumerate(zip(a, b)):
        bad = n1 != n2 or w1 != w2 or len(p1) != len(p2) or len(m1) != len(m2)
        if not bad:
            bad = any((p != q) if (isinstance(p, str) or isinstance(q, str)) else not _close(p, q, 1e-9) for p, q in zip(p1, p2)) \
                or any(abs(x - y) > TOL for x, y in zip(m1, m2))
        if bad:
            return f"line {i}: impl={impl[i]!r} model={model[i]!r} (compared as matrix*sqrt(norm): {m1} vs {m2})"
    return None


def compare(op, impl, model):
    from framework import parse_line
    if op.get("op") == "cvo" and len(impl) == len(model):
        return compare_cvo(impl, model)
    if len(impl) != len(model):
        for i, (x, y) in enumerate(zip(impl, model)):
            if compare(op, [x], [y]):
                return f"length {len(impl)} vs {len(model)}; first diff at line {i}: impl={x!r} model={y!r}"
        return f"length {len(impl)} vs {len(model)} (common prefix equal); impl tail {impl[len(model):][:2]} model tail {model[len(impl):][:2]}"
    cvo = op.get("op") == "cvo"
    for i, (x, y) in enumerate(zip(impl, model)):
        nx, wx, px = parse_line(x)
        ny, wy, py = parse_line(y)
        bad = nx != ny or wx != wy or len(px) != len(py)
        if not bad:
            for j, (p, q) in enumerate(zip(px, py)):
                if isinstance(p, str) or isinstance(q, str):
                    ok = p == q
                elif nx == "ang":           # (theta, phi, lambda): phi, lambda are 2π-periodic in U
                    ok = _close(p, q, 1e-9, None if j == 0 else 2 * math.pi)
                elif nx == "load":          # (norm, alpha, beta, phi): the last rotation has norm - |x|^2 ~ 1e-16
                    ok = _close(p, q, 1e-9) if j == 0 else _close(p, q, 1e-6)
                elif cvo and (nx.startswith("mcu") or nx in ("cu", "u2")):
                    ok = _close(p, q, 1e-6)
                else:
                    ok = _close(p, q, 1e-9)
                if not ok:
                    bad = True
                    break
        if bad:
            return f"line {i}: impl={x!r} model={y!r}"
    return None


# ----------------------------------------------------------------------------------------------
# run
# ----------------------------------------------------------------------------------------------

KINDS = ["complex", "signed", "pos", "mixed", "uniform", "tail"]


def merge_operand_kinds(keys):
    """operand-kind pattern (one of cc/fc/cf/ff per merge step) that the REAL MergeInitialize produces on this key set;
    depends on the keys only (types flow: original entries are complex, merged entries are np.float64 norms)"""
    from props import c06_trace as T
    m = len(keys)
    try:
        with time_limit(BUILD_LIMIT_S):
            T.trace_merge({k: complex(1.0 / math.sqrt(m), 0.0) for k in keys})
    except Exception:
        return None
    return list(T.LAST["merge_kinds"])


def screened_merge_sets(ctx, per_kind, budget):
    """pre-screen random key sets (n = 4..6, m = 7..12) with the recording wrappers and keep `per_kind` sets for every
    operand-kind combination reaching `_compute_angles`; deterministic given the seed; the fixed examples come first"""
    keep = {k: [] for k in OPK}
    chosen = []

    def offer(keys):
        pat = merge_operand_kinds(keys)
        if not pat:
            return
        took = False
        for k in sorted(set(pat), key=lambda z: pat.count(z)):
            if len(keep[k]) < per_kind and not took:
                keep[k].append(keys)
                took = True
        if took:
            chosen.append((keys, pat))

    for keys in MERGE_FIXED:
        offer(list(keys))
    tried = 0
    while tried < budget and any(len(v) < per_kind for v in keep.values()):
        n = ctx.rng.randint(4, 6)
        m = ctx.rng.randint(7, 12)
        offer(ctx.rng.sample(all_keys(n), m))
        tried += 1
    for k, v in keep.items():
        ctx.count(f"screen:merge key sets kept for {OPK[k]}", len(v))
    ctx.count("screen:merge key sets screened", tried + len(MERGE_FIXED))
    missing = [OPK[k] for k, v in keep.items() if not v]
    if missing:
        ctx.notes.append(f"merge operand-kind screening found no key set for {missing} within {budget} tries")
    return chosen


def branch_coverage_cases(ctx, variants):
    """inputs chosen for the branch they reach (not for their size): see RULE"""
    quick = ctx.quick
    names = {vname(*v) for v in variants}
    # (a) merge: every operand-kind combination of _compute_angles, with complex / negative-real / mixed amplitudes
    if "merge" in names:
        for keys, pat in screened_merge_sets(ctx, 3 if quick else 8, 1500 if quick else 6000):
            for kind in ("complex", "neg", "mixed"):
                ks = list(keys)
                if kind != "complex":
                    ctx.rng.shuffle(ks)
                amps = amplitudes(ctx, len(ks), kind)
                tie_case(ctx, "merge", {}, ks, amps)
                oracle_case(ctx, "merge", {}, ks, amps, kind + ":ops=" + "".join(sorted(set(pat))))
    # (b) pivot: every multi-controlled-X back-end and ladder length: t = 1..5 controls, n below / above the
    #     `num_qubits >= 5 and control_size <= ceil(n/2)` switch, auxiliaries on (rccx ladder with >= 2 inner rungs needs m >= 9)
    for n, m in [(4, 2), (4, 3), (4, 6), (5, 2), (5, 3), (5, 6), (5, 9), (5, 13), (6, 9), (6, 11), (6, 17), (7, 9)]:
        if quick and (n, m) in ((6, 17), (7, 9)):
            continue
        for rep in range(1 if quick else 3):
            sub = ctx.rng.sample(all_keys(n), m)
            if not any(k[0] == "1" for k in sub):          # make sure at least one pivot step happens
                sub[0] = "1" + sub[0][1:] if ("1" + sub[0][1:]) not in sub else sub[0]
            for alg, opts in variants:
                if alg != "pivot" or not valid(alg, opts, m):
                    continue
                kind = ctx.rng.choice(["complex", "neg", "signed"])
                keys = order_for(ctx, alg, sub)
                amps = amplitudes(ctx, m, kind)
                tie_case(ctx, alg, opts, keys, amps)
                oracle_case(ctx, alg, opts, keys, amps, kind)
    # (c) cvoqram: 0 / 1 / >= 2 controls (u, cu, multi-controlled) incl. the all-zero pattern, every back-end,
    #     features with negative imaginary part (beta reflection) and negative reals
    for n, sub in [(3, ["000", "100", "011", "111"]), (4, ["0000", "0010", "1001", "0111", "1111"]),
                   (5, ["00000", "00001", "10000", "01100", "11010", "10111", "11111"])]:
        for alg, opts in variants + [v for v in ORACLE_EXTRA if vname(*v) not in names]:
            if alg != "cvo":
                continue
            for kind in ("complex", "neg"):
                keys = hamming_sorted(ctx, sub)
                amps = amplitudes(ctx, len(keys), kind)
                if (alg, opts) in variants:
                    tie_case(ctx, alg, opts, keys, amps)
                oracle_case(ctx, alg, opts, keys, amps, kind)


def light_tail_cases(ctx, variants):
    """heavy head / light tail (moduli 1e-4..1e-3): the mass still to load after a pattern is tiny but not zero — the boundary
    of `(norm - phase) < 0` in _compute_matrix_angles, of the merge angle formulas and of the dense hand-off"""
    quick = ctx.quick
    names = {vname(*v) for v in variants}
    allv = variants + [v for v in ORACLE_EXTRA if vname(*v) not in names and len(names) == len(VARIANTS)]
    fixed_amps = [0.8, 0.6, 1e-3, -8e-4j, (6 + 6j) * 1e-4]
    nrm = math.sqrt(sum(abs(z) ** 2 for z in fixed_amps))
    fixed_amps = [complex(z) / nrm for z in fixed_amps]
    fixed = [(["000", "001", "010", "101", "111"], fixed_amps), (["0000", "1000", "0011", "0110", "1011"], fixed_amps)]
    # probe of the known A.2 precision finding in the dense hand-off (printed as KNOWN-FINDING on every run)
    if "pivot" in names:
        oracle_case(ctx, "pivot", {"aux": False}, ["111", "011", "101", "010", "110"],
                    [complex(-0.9811270752758504, 0.19334498101681266), complex(0.0014714994735748213, 0.0009987776247828508),
                     complex(-0.00028438070518910507, -0.0016133040649595404), complex(-0.00026981911044454324, -0.0011689240981434645),
                     complex(-0.0003078969447938304, 0.0)], "tail-probe")
    for keys, amps in fixed:
        for alg, opts in allv:
            ks = list(keys)            # already Hamming-sorted: the heavy head is loaded first by CVO-QRAM
            if (alg, opts) in variants:
                tie_case(ctx, alg, opts, ks, amps)
            oracle_case(ctx, alg, opts, ks, amps, "tail-fixed")
    for n, m in [(2, 3), (3, 4), (3, 6), (4, 5), (4, 9), (5, 7)] + ([] if quick else [(5, 12), (6, 10), (6, 20)]):
        for rep in range(2 if quick else 4):
            sub = ctx.rng.sample(all_keys(n), m)
            for alg, opts in allv:
                if not valid(alg, opts, m):
                    continue
                keys = order_for(ctx, alg, sub)
                amps = amplitudes(ctx, m, "tail")
                if alg == "cvo" and rep % 2 == 0:      # head first, tail last in load order
                    amps = sorted(amps, key=lambda z: -abs(z))
                if (alg, opts) in variants:
                    tie_case(ctx, alg, opts, keys, amps)
                oracle_case(ctx, alg, opts, keys, amps, "tail")
                ctx.count(f"branch:light-tail:{vname(alg, opts)}")


def float_typed_cases(ctx, variants):
    """dictionaries whose values are Python floats (positive, negative, mixed signs) or a mixture of floats and complex.
    Observation recorded by the audit: Initialize.validate_parameter converts every value with complex(.), so the
    algorithms never see a float original (the float branch of util._compute_matrix_angles is probed directly below)."""
    quick = ctx.quick
    sizes = [(2, 3), (3, 5), (4, 6)] + ([] if quick else [(3, 8), (4, 11), (5, 9), (5, 20), (6, 12)])
    for n, m in sizes:
        for kind in ("fsigned", "fneg", "fmixed") if quick else ("fpos", "fsigned", "fneg", "fmixed"):
            sub = ctx.rng.sample(all_keys(n), m)
            for alg, opts in variants + [v for v in ORACLE_EXTRA if v not in variants][:1]:
                if not valid(alg, opts, m):
                    continue
                keys = order_for(ctx, alg, sub)
                amps = amplitudes(ctx, m, kind)
                if (alg, opts) in variants:
                    tie_case(ctx, alg, opts, keys, amps)
                oracle_case(ctx, alg, opts, keys, amps, kind)
                ctx.count(f"branch:amplitude-type:{kind}:{alg}")


def probe_matrix_angles(ctx):
    """util._compute_matrix_angles is documented for 'Complex or float' features.  Through CvoqramInitialize only the complex
    branch is reachable; the float branch and the clamp of verify_trigonometric_interval are probed on the function itself:
    U(alpha, beta, phi)|1> must be (x/sqrt(norm))|0> + sqrt((norm-|x|^2)/norm)|1>."""
    from qclib.util import _compute_matrix_angles
    from qiskit.circuit.library import UGate
    r = ctx.rng
    cases = []
    for _ in range(12):
        norm = r.uniform(0.05, 1.0)
        f = r.choice([-1, 1]) * r.uniform(0.05, 0.98) * math.sqrt(norm)
        cases += [("float", float(f), norm), ("np.float64", np.float64(f), norm),
                  ("complex", complex(f, r.uniform(-0.1, 0.1) * math.sqrt(norm)), norm)]
    for sgn in (1, -1):      # the last pattern: |x|^2 = remaining norm up to rounding, either side (clamps at +-1)
        for eps in (0.0, 1e-13, -1e-13):
            norm = r.uniform(0.05, 1.0)
            cases.append(("float:last", float(sgn * math.sqrt(norm) * (1 + eps)), norm))
    for tname, x, norm in cases:
        key = f"util._compute_matrix_angles:{tname}"
        try:
            a, b, p = _compute_matrix_angles(x, norm)
            col = UGate(float(a), float(b), float(p)).to_matrix()[:, 1]
        except Exception as e:
            ctx.fail(key + ":raises", f"{type(e).__name__}: {e}", {"call": "util._compute_matrix_angles", "feature": repr(x), "norm": norm})
            continue
        want0 = complex(x) / math.sqrt(norm)
        want1 = math.sqrt(max(norm - abs(x) ** 2, 0.0) / norm)
        err = max(abs(col[0] - want0), abs(col[1] - want1))
        ctx.count(f"branch:util._compute_matrix_angles direct {tname}" + (":clamped" if abs(want0) > 1 else ""))
        if err > 1e-6:
            ctx.fail(key + f":x={x!r}:norm={norm!r}", f"U(alpha,beta,phi)|1> = {col}, expected ({want0}, {want1})",
                     {"call": "util._compute_matrix_angles", "feature": repr(x), "norm": norm})
        else:
            ctx.ok(key, nontrivial=True)


def entry_form_cases(ctx, variants):
    """entry paths of merge.py / pivot.py / cvoqram.py outside the (options, dictionary) grid: opt_params None and {} (class
    defaults), a label, the static `initialize` with qubits=None and with an explicit permuted wire list on a wider host"""
    names = {vname(*v) for v in variants}
    for alg in ("merge", "pivot", "cvo"):
        opts = DEFAULT_OPTS[alg]
        if vname(alg, opts) not in names:
            continue
        for form in FORMS:
            for n, m in [(2, 3), (3, 4)]:
                sub = ctx.rng.sample(all_keys(n), m)
                keys = order_for(ctx, alg, sub)
                kind = ctx.rng.choice(["complex", "signed", "fsigned"])
                amps = amplitudes(ctx, m, kind)
                wires = None
                if form == "static-qubits":
                    w = layout(alg, opts, n, m)[0]
                    wires = ctx.rng.sample(range(w + 1), w)
                oracle_case(ctx, alg, opts, keys, amps, kind, form=form, wires=wires)
        # the non-default options through the static entry point as well
        for alg2, opts2 in variants:
            if alg2 == alg and opts2 != opts:
                n, m = 3, 5
                keys = order_for(ctx, alg2, ctx.rng.sample(all_keys(n), m))
                oracle_case(ctx, alg2, opts2, keys, amplitudes(ctx, m, "complex"), "complex", form="static")


# ----------------------------------------------------------------------------------------------
# boundary-value pass: sizes next to every size comparison of pivot.py / cvoqram.py / merge.py
# ----------------------------------------------------------------------------------------------
#   pivot.py    target_size t = ceil(log2 m); `non_zero <= 2`; aux width max(t - 1, 0); the rccx ladder `range(2, t)`;
#               back-end switch `num_qubits >= 5 and control_size <= ceil(num_qubits / 2)` (both conjuncts, the other true);
#               `dirty_anc[:control_size - 2]`
#               -> m = 2^j - 1, 2^j, 2^j + 1 (j = 1..4) at n = 4, 5, 6, 7: t below / at / above ceil(n/2) for n >= 5, and
#                  the same t at n = 4 (first conjunct false); with auxiliaries t = 2..5 (ladder of 0..3 inner rungs)
#   cvoqram.py  len(control) == 0 / == 1 / else; `_mcuvchain` inner loop over lst_ctrl[2:] (0, 1, 2 rungs);
#               `k < len(params) - 1` (single pattern m = 1: first = last)
#               -> one pattern of every weight 0..n (m = 1), and chains of weights 0,1,2,3(,4) for n = 2..5, every variant
#   merge.py    `while len(b_strings) > 1` with m = 1 (zero passes: prepared up to the phase of the amplitude), 2, 3;
#               `if not dif_qubits` (plain U / controlled): m = 2 (never controlled), m = 3 (both)

def _keys_with_pivot(ctx, n, m):
    """m distinct n-bit keys with at least one key outside the low block (so that a pivot step, i.e. the MCX, happens)."""
    sub = ctx.rng.sample(all_keys(n), m)
    t = max(int(math.ceil(math.log2(m))), 1)
    if n > t and not any(k[:n - t] != "0" * (n - t) for k in sub):
        cand = [k for k in all_keys(n) if k[:n - t] != "0" * (n - t) and k not in sub]
        sub[0] = ctx.rng.choice(cand)
    return sub


def boundary_cases(ctx, variants):
    names = {vname(*v) for v in variants}
    # ---- pivot
    grid = {4: [2, 3, 4, 5, 7, 8, 9], 5: [2, 3, 4, 5, 7, 8, 9, 15, 16, 17], 6: [4, 5, 8, 9, 16, 17], 7: [7, 8, 9, 16, 17, 33]}
    for n, ms in grid.items():
        for m in ms:
            t = max(int(math.ceil(math.log2(m))), 1)
            for alg, opts in variants:
                if alg != "pivot" or not valid(alg, opts, m):
                    continue
                if opts["aux"] and n + t - 1 > 10:
                    continue
                sub = _keys_with_pivot(ctx, n, m)
                kind = ("complex", "signed", "neg")[(n + m) % 3]
                keys = order_for(ctx, alg, sub)
                amps = amplitudes(ctx, m, kind)
                if opts["aux"]:
                    ctx.count(f"boundary:pivot.aux ladder t={t}")
                else:
                    lim = int(math.ceil(n / 2))
                    ctx.count(f"boundary:pivot switch n{'>=5' if n >= 5 else '<5'} t-limit={t - lim:+d}")
                tie_case(ctx, alg, opts, keys, amps)
                oracle_case(ctx, alg, opts, keys, amps, kind + ":bv")
    # ---- cvoqram
    allv = variants + [v for v in ORACLE_EXTRA if vname(*v) not in names]
    for n in (2, 3, 4, 5):
        chains = []
        for w in range(n + 1):           # one pattern of every weight: m = 1
            ones = ctx.rng.sample(range(n), w)
            chains.append(["".join("1" if i in ones else "0" for i in range(n))])
        full = [c[0] for c in chains]    # weights 0, 1, .., n in one dictionary
        chains.append(full)
        chains.append(full[1:])          # no all-zero pattern: the first rotation is controlled
        chains.append(full[2:] if n >= 3 else full[1:])
        for keys in chains:
            if not keys:
                continue
            for alg, opts in allv:
                if alg != "cvo":
                    continue
                kind = "complex" if len(keys) % 2 else "neg"
                amps = amplitudes(ctx, len(keys), kind)
                ctx.count("boundary:cvo single pattern" if len(keys) == 1 else "boundary:cvo weight chain")
                if (alg, opts) in variants:
                    tie_case(ctx, alg, opts, keys, amps)
                oracle_case(ctx, alg, opts, keys, amps, kind + ":bv", allow_m1=True)
    # ---- merge
    if "merge" in names:
        for n in (2, 3, 4):
            for key in ("0" * n, "1" * n, "0" * (n - 1) + "1", "1" + "0" * (n - 1)):
                for amp in (complex(1.0, 0.0), complex(-1.0, 0.0), complex(0.6, -0.8)):
                    ctx.count("boundary:merge m=1 (up to phase)")
                    merge_single(ctx, key, amp)


def merge_single(ctx, key, amp):
    """MergeInitialize on a single basis state: zero passes of the main loop, only the X gates; the property claims the
    state up to the phase of the amplitude."""
    from qiskit.quantum_info import Statevector
    from qclib.state_preparation.merge import MergeInitialize
    n = len(key)
    tag = f"merge:m=1:n={n}:key={key}:amp={float(np.real(amp)):g}{float(np.imag(amp)):+g}j" + ("" if type(amp) is complex else f":{_tname(amp)}")
    rep = payload("merge", {}, [key], [amp], {"single": True})
    try:
        with time_limit(BUILD_LIMIT_S):
            circ = MergeInitialize({key: amp}).definition
    except Exception as e:
        ctx.fail(tag + ":raises:" + type(e).__name__, f"construction raised {type(e).__name__}: {e}", rep)
        return
    sv = np.asarray(Statevector(circ).data)
    i = sum(1 << j for j, c in enumerate(key) if c == "1")
    rest = np.delete(sv, i)
    if circ.num_qubits != n or abs(abs(sv[i]) - 1) > TOL or (len(rest) and np.abs(rest).max() > TOL):
        ctx.fail(tag, f"not the basis state |{key}> up to a phase: amplitude there {sv[i]:.6f}, largest other "
                      f"{np.abs(rest).max() if len(rest) else 0:.3e}", rep)
    else:
        ctx.ok(tag, nontrivial=False)



# ----------------------------------------------------------------------------------------------
# input-diversity pass: the FORM of otherwise ordinary valid inputs
# ----------------------------------------------------------------------------------------------
#   (1) element types   python int (m = 1: the only normalised integer dictionaries are a single basis state with value 1 / -1),
#                       float, complex, numpy float32 / float64 / complex64 / complex128 / int64 scalars, one type per entry mixed
#                       in one dictionary, complex values with -0.0 components.  float32 / complex64 values are dyadic rationals
#                       with sum of squares EXACTLY one (a float32-rounded generic vector is only normalised to ~6e-8, which
#                       is not a valid input at the oracle's 1e-7).
#   (2) scale           heavy head + light tail 1e-3 .. 1e-6 (head first / last / mixed in LOAD order), a single heavy
#                       amplitude, all-equal moduli, exactly repeated values
#   (3) sign / phase    per-entry phases exactly +-1, +-i; all negative; purely imaginary (signed / all +i / all -i); global phase -1, i
#   (4) call forms      see `build`: partial / None-valued / over-full / shared-and-mutated opt_params objects, copies, the same
#                       gate appended twice, static initialize with EVERY option combination on permuted / descending wire
#                       lists of a wider host, as ints / Qubit objects / tuple / positional
#   (5) sizes / orders  n = 1, 2, 3 with m = 1 (where defined), 2, 3, 4, 5, 2^n; key sets of one Hamming weight, with 0..0 and
#                       1..1; dictionary orders ascending / descending / shuffled (CVO: the same inside each weight class);
#                       pivot sizes m = 3, 4, 5, 8, 9 (ceil(log2 m) below / at / above n/2; v-chain with 2, 3, 4 controls)
#   Every case: oracle (Statevector vs the dictionary embedded by the harness from the ORIGINAL values) and, for the seven
#   modelled variants, the tie (the model gets complex(value); an input form must not change what is built).

def _div_variants(variants):
    names = {vname(*v) for v in variants}
    return variants + [v for v in ORACLE_EXTRA if vname(*v) not in names and len(names) == len(VARIANTS)]


def _div_case(ctx, variants, alg, opts, keys, amps, name, form="opt", wires=None):
    m = len(keys)
    if m == 1:
        # a single basis state: merge promises it up to the phase, CVO-QRAM exactly; pivot is not defined for m = 1
        if alg == "merge" and form == "opt":
            ctx.count(f"diversity:{name}:merge:m=1")
            merge_single(ctx, keys[0], amps[0])
        elif alg == "cvo":
            ctx.count(f"diversity:{name}:cvo:m=1")
            if (alg, opts) in variants:
                tie_case(ctx, alg, opts, keys, amps, form, wires)
            oracle_case(ctx, alg, opts, keys, amps, "div:" + name, form=form, wires=wires, allow_m1=True)
        return
    if not valid(alg, opts, m):
        return
    ctx.count(f"diversity:{name}:{alg}")
    if (alg, opts) in variants:
        tie_case(ctx, alg, opts, keys, amps, form, wires)
    oracle_case(ctx, alg, opts, keys, amps, "div:" + name, form=form, wires=wires)


def _ordered(ctx, alg, keys, how):
    """dictionary insertion order: 'asc' / 'desc' (as binary numbers) / 'shuffled' / 'weight-desc'; CVO-QRAM needs non-decreasing
    Hamming weight, so there the requested order is kept inside each weight class (stable sort)"""
    ks = sorted(keys)
    if how == "desc":
        ks.reverse()
    elif how == "shuffled":
        ctx.rng.shuffle(ks)
    elif how == "weight-desc":
        ks.sort(key=lambda k: -k.count("1"))
    if alg == "cvo":
        ks.sort(key=lambda k: k.count("1"))
    return ks


def _unit(v):
    nrm = math.sqrt(sum(abs(z) ** 2 for z in v))
    return [complex(z) / nrm for z in v]


def _dyadic_reals(ctx, length):
    """`length` >= 4 positive dyadic rationals a_i / 2^k with sum of squares exactly 1 (exact in float32)"""
    r = ctx.rng
    if length == 4:
        return [0.5] * 4                       # 4^k is a sum of four positive squares in one way only
    for k in (4, 5, 6):
        total = 4 ** k
        hi = max(2, int(1.6 * math.sqrt(total / length)))
        for _ in range(400):
            head = [r.randint(1, hi) for _ in range(length - 2)]
            rest = total - sum(a * a for a in head)
            for a in range(1, math.isqrt(max(rest, 0)) + 1):
                b = math.isqrt(rest - a * a)
                if b >= 1 and a * a + b * b == rest:
                    v = head + [a, b]
                    r.shuffle(v)
                    return [x / 2 ** k for x in v]
    raise RuntimeError(f"no dyadic unit vector of length {length}")


def _dyadic_amps(ctx, m, cplx):
    """m non-zero amplitudes (python float / complex), components dyadic, norm exactly 1; real vectors need m >= 4"""
    r = ctx.rng
    if not cplx:
        return [r.choice([-1, 1]) * x for x in _dyadic_reals(ctx, m)]
    length = min(2 * m, max(4, m + r.randint(1, m)))
    comp = [r.choice([-1, 1]) * x for x in _dyadic_reals(ctx, length)]
    two = length - m                           # this many amplitudes get a real AND an imaginary component
    out = [complex(comp[2 * i], comp[2 * i + 1]) for i in range(two)]
    for x in comp[2 * two:]:
        out.append(complex(x, 0.0) if r.random() < 0.5 else complex(0.0, x))
    r.shuffle(out)
    return out


TYPE_FORMS = ("float", "complex", "np.float64", "np.complex128", "np.float32", "np.complex64", "mixed-types", "negzero",
              "array-items")


def _typed_amps(ctx, m, tform):
    """amplitudes of one element-type form, or None where the form has no valid normalised instance of that size"""
    r = ctx.rng
    if tform in ("float", "np.float64"):
        v = amplitudes(ctx, m, "fsigned" if m >= 2 else "fneg")
        if m == 2 and r.random() < 0.5:
            v = [0.6, -0.8] if r.random() < 0.5 else [-0.8, -0.6]
        return [_cast(x, tform) for x in v]
    if tform in ("complex", "np.complex128"):
        v = amplitudes(ctx, m, r.choice(["complex", "mixed", "neg"]))
        return [_cast(x, tform) for x in v]
    if tform == "np.float32":
        return [np.float32(x) for x in _dyadic_amps(ctx, m, False)] if m >= 4 else None
    if tform == "np.complex64":
        return [np.complex64(x) for x in _dyadic_amps(ctx, m, True)] if m >= 2 else None
    if tform == "mixed-types":
        if m < 2:
            return None
        names = ["np.complex64", "float", "np.float32", "complex", "np.float64", "np.complex128"]
        v = _dyadic_amps(ctx, m, True)
        out = []
        for i, z in enumerate(v):
            t = names[i % len(names)]
            if z.imag != 0.0 and t in ("float", "np.float32", "np.float64"):
                t = "np.complex64" if i % 2 else "complex"
            out.append(_cast(z, t))
        return out
    if tform == "negzero":
        # exactly-zero components carried as -0.0: negative and positive reals with imaginary part -0.0, imaginary values with
        # real part -0.0 (`imag < 0` is False for -0.0, log / arccos see a signed zero)
        mod = [abs(x) for x in amplitudes(ctx, m, "fpos")]
        pats = [lambda x: complex(-x, -0.0), lambda x: complex(x, -0.0), lambda x: complex(-0.0, x), lambda x: complex(-0.0, -x)]
        return [pats[i % 4](x) for i, x in enumerate(mod)]
    if tform == "array-items":
        # the values are the items of a numpy array (what `dict(zip(keys, vector))` gives): numpy scalars of the array's dtype
        pick = r.randrange(3)
        if pick == 0 and m >= 4:
            return list(np.array(_dyadic_amps(ctx, m, False), dtype=np.float32))
        if pick == 1:
            return list(np.array([float(np.real(x)) for x in amplitudes(ctx, m, "fsigned" if m >= 2 else "fneg")], dtype=np.float64))
        return list(np.array(amplitudes(ctx, m, "signed" if pick == 0 else "complex"), dtype=np.complex128))
    raise ValueError(tform)


def _diversity_types(ctx, variants):
    allv = _div_variants(variants)
    for tform in TYPE_FORMS:
        for n, m in ((1, 2), (2, 3), (2, 4), (3, 5), (4, 6)):
            for alg, opts in allv:
                amps = _typed_amps(ctx, m, tform)
                if amps is None:
                    continue
                keys = order_for(ctx, alg, ctx.rng.sample(all_keys(n), m))
                _div_case(ctx, variants, alg, opts, keys, amps, f"type:{tform}")
    # integers: the only normalised all-integer dictionary is one basis state with value 1 or -1
    for tname in ("int", "np.int64", "np.int32", "float", "np.float32", "np.complex64"):
        for key in ("1", "00", "10", "011", "111"):
            for val in (1, -1):
                amp = _cast(val, tname)
                for alg, opts in allv:
                    _div_case(ctx, variants, alg, opts, [key], [amp], f"type:{tname}:single")


def _tail_amps(m, heads, arrangement):
    """heavy head (0.8, 0.6 / a single 1) and a light tail of moduli 1e-3 .. 1e-6 with phases 1, -1, i, -i, e^{0.7i};
    arrangement in dictionary (= CVO load) order: head first, head last, or interleaved"""
    import cmath
    mags = [1e-3, 1e-4, 1e-5, 1e-6]
    nt = m - heads
    mags = mags[-nt:] if nt <= 4 else [mags[i % 4] for i in range(nt)]
    phs = [1, -1, 1j, -1j, cmath.exp(0.7j)]
    tail = [mags[i] * phs[i % 5] for i in range(nt)]
    head = [0.8, -0.6][:heads] if heads == 2 else [-1.0]
    if arrangement == "head-first":
        v = head + tail
    elif arrangement == "head-last":
        v = tail[::-1] + head
    else:
        v, h, t = [], list(head), list(tail)
        while h or t:
            if t:
                v.append(t.pop(0))
            if h:
                v.append(h.pop(0))
    return _unit(v)


def _scale_phase_structures(ctx, m):
    """(name, amplitudes) for the scale / sign / phase families at size m >= 2"""
    r = ctx.rng
    rt = 1.0 / math.sqrt(m)
    mod = [abs(x) for x in amplitudes(ctx, m, "fpos")]
    phs = [(1, -1, 1j, -1j)[i % 4] for i in range(m)]
    r.shuffle(phs)
    out = [("equal-phases+-1+-i", [complex(p) * rt for p in phs]),
           ("equal-all-neg", [complex(-rt, 0.0)] * m),
           ("equal-all+i", [complex(0.0, rt)] * m),
           ("equal-all-i", [complex(0.0, -rt)] * m),
           ("gphase-1", [complex(-x, 0.0) for x in mod]),
           ("gphase+i", [complex(0.0, x) for x in mod]),
           ("imag-signed", [complex(0.0, x * (-1) ** i) for i, x in enumerate(mod)]),
           ("phases+-1+-i", [complex(p) * x for p, x in zip(phs, mod)])]
    if m >= 3:
        ka, kb = (m + 1) // 2, m // 2
        a = r.uniform(0.3, 0.9) / math.sqrt(ka)
        b = -math.sqrt((1.0 - ka * a * a) / kb)
        out.append(("repeated-values", [complex(a if i % 2 == 0 else b, 0.0) for i in range(m)]))
        for arr in ("head-first", "head-last", "mixed"):
            out.append((f"tail-1e-6:{arr}", _tail_amps(m, 2 if m >= 3 else 1, arr)))
        out.append(("single-heavy:first", _tail_amps(m, 1, "head-first")))
        out.append(("single-heavy:last", _tail_amps(m, 1, "head-last")))
    return out


def _diversity_scale_phase(ctx, variants):
    allv = _div_variants(variants)
    sizes = [(1, 2), (2, 3), (3, 4), (3, 6), (4, 5)]
    for si, (n, m) in enumerate(sizes):
        for name, amps in _scale_phase_structures(ctx, m):
            if name.startswith(("tail", "single-heavy")) or si % 2 == 0 or not ctx.quick:
                sub = ctx.rng.sample(all_keys(n), m)
                for alg, opts in allv:
                    # the amplitudes stay attached to the positions of the (ordered) key list: load order = list order
                    _div_case(ctx, variants, alg, opts, order_for(ctx, alg, sub), list(amps), f"scale:{name}")


def _diversity_orders(ctx, variants):
    """dictionary insertion orders and key-set shapes"""
    allv = _div_variants(variants)
    r = ctx.rng
    sets = [("n=1:dense", ["0", "1"]),
            ("n=2:dense", all_keys(2)),
            ("n=3:dense", all_keys(3)),
            ("n=2:00+11", ["00", "11"]),
            ("n=3:000+111+1", ["000", "111", r.choice(["001", "010", "100", "011", "101", "110"])]),
            ("n=4:0000+1111+3", ["0000", "1111"] + r.sample([k for k in all_keys(4) if k not in ("0000", "1111")], 3)),
            ("n=3:weight1", ["001", "010", "100"]),
            ("n=4:weight2", r.sample([k for k in all_keys(4) if k.count("1") == 2], 5)),
            ("n=4:weight3", [k for k in all_keys(4) if k.count("1") == 3]),
            ("n=5:weight2+3", r.sample([k for k in all_keys(5) if k.count("1") in (2, 3)], 6))]
    for sname, keys in sets:
        for how in ("asc", "desc", "shuffled", "weight-desc"):
            kind = r.choice(["complex", "signed", "neg"])
            for alg, opts in allv:
                if how == "weight-desc" and alg == "cvo":
                    continue
                ks = _ordered(ctx, alg, keys, how)
                _div_case(ctx, variants, alg, opts, ks, amplitudes(ctx, len(ks), kind), f"order:{how}:{sname}")


def _perm_wires(ctx, width, host, descending=False):
    """`width` distinct wires of a `host`-qubit circuit, never in ascending order"""
    while True:
        ws = ctx.rng.sample(range(host), width)
        if descending:
            ws.sort(reverse=True)
        if ws != sorted(ws) or width == 1:
            return ws


def _diversity_calls(ctx, variants):
    allv = _div_variants(variants)
    r = ctx.rng
    for alg, opts in allv:
        forms = list(OBJECT_FORMS) + list(STATIC_FORMS) + (list(OPTION_FORMS) if alg != "merge" else [])
        for form in forms:
            for n, m in ((2, 3), (3, 5)):
                if form == "twice" and (n, m) != (2, 3):
                    continue
                if not valid(alg, opts, m):
                    continue
                width = layout(alg, opts, n, m)[0]
                wires = None
                if form == "twice":
                    pool = r.sample(range(2 * width + 1), 2 * width)
                    wires = [pool[:width], pool[width:]]
                    if wires[0] == sorted(wires[0]):
                        wires[0].reverse()
                elif form in STATIC_FORMS:
                    wires = _perm_wires(ctx, width, width + r.choice([1, 2]), descending=(form == "static-desc"))
                kind = r.choice(["complex", "neg", "fsigned"])
                keys = order_for(ctx, alg, r.sample(all_keys(n), m))
                _div_case(ctx, variants, alg, opts, keys, amplitudes(ctx, m, kind), f"call:{form}", form=form, wires=wires)


def _diversity_flag_forms(ctx, variants):
    """flag-form pass.  Options of the entry points (constructor `opt_params`, static `initialize(q_circuit, state, qubits,
    opt_params)`): pivot `aux` (default False; five `if self.aux:` sites), CVO-QRAM `with_aux` (default True; three sites) and
    `mcg_method` (a string: no boolean / falsy / second form; every value x with_aux is in VARIANTS + ORACLE_EXTRA); merge has
    no option.  True and False each as numpy.bool_ and int (the Python singletons are all the other cases), through the four
    entry forms, at sizes on both sides of the thresholds of the code paths the flag selects: pivot m = 2 (no-aux only), 3, 4,
    5 (t = ceil(log2 m) = 1, 2, 3: the aux v-chain has t - 1 qubits), n = 2, 3, 4; CVO-QRAM patterns with 0, 1, 2 and >= 3 ones
    (u / cu / multi-controlled branch of _load_superposition, v-chain with n - 1 work qubits), n = 2, 3, 4.
    Oracle: the property's own (Statevector of the definition / of the host, auxiliaries |0>); tie: recording wrappers vs the
    model asked with the canonical bool."""
    allv = _div_variants(variants)
    r = ctx.rng
    i = 0
    for alg, opts in allv:
        if alg == "merge":
            continue
        sizes = ((2, 2), (2, 3), (3, 4), (3, 5), (4, 5)) if alg == "pivot" else ((2, 3), (3, 5), (4, 6))
        for form in FLAG_FORMS:
            for n, m in sizes:
                if not valid(alg, opts, m):
                    continue
                if alg == "cvo" and opts["method"] != "linear" and (n, m) == (4, 6):
                    continue
                i += 1
                width = layout(alg, opts, n, m)[0]
                wires = _perm_wires(ctx, width, width + 1) if "static" in form else None
                kind = ("complex", "neg", "fsigned")[i % 3]
                if alg == "pivot":
                    sub = _keys_with_pivot(ctx, n, m) if m >= 3 else r.sample(all_keys(n), m)
                else:
                    sub = r.sample(all_keys(n), m)
                    if n >= 3 and "1" * n not in sub:
                        sub[0] = "1" * n              # a pattern with >= 3 ones: the multi-controlled branch
                    if n == 4 and "0111" not in sub:
                        sub[1] = "0111"
                    sub = list(dict.fromkeys(sub))
                    while len(sub) < m:
                        k = r.choice(all_keys(n))
                        if k not in sub:
                            sub.append(k)
                keys = order_for(ctx, alg, sub)
                ctx.count(f"flagforms:{'aux' if alg == 'pivot' else 'with_aux'}:{form.split(':')[1]}:{opts['aux']}")
                _div_case(ctx, variants, alg, opts, keys, amplitudes(ctx, m, kind), f"flagforms:{form[5:]}", form=form, wires=wires)


def _diversity_sizes(ctx, variants):
    """size ladders combined with the new forms: n = 1, 2, 3 with m = 1, 2, 3, 4, 5, 2^n; pivot m = 3, 4, 5, 8, 9"""
    allv = _div_variants(variants)
    r = ctx.rng
    tforms = ["float", "np.complex128", "negzero", "complex"]
    i = 0
    for n in (1, 2, 3):
        for m in sorted({1, 2, 3, 4, 5, 2 ** n}):
            if m > 2 ** n:
                continue
            sub = r.sample(all_keys(n), m)
            for alg, opts in allv:
                tf = tforms[i % len(tforms)]
                i += 1
                amps = _typed_amps(ctx, m, tf) if m >= 2 else [_cast(r.choice([1, -1]), "float" if tf == "negzero" else tf)]
                _div_case(ctx, variants, alg, opts, order_for(ctx, alg, sub), amps, f"size:n={n}:m={m}")
    for n, m in ((4, 3), (4, 4), (4, 5), (5, 4), (5, 5), (5, 8), (5, 9), (6, 8), (6, 9)):
        t = int(math.ceil(math.log2(m)))
        for alg, opts in variants:
            if alg != "pivot" or not valid(alg, opts, m) or (opts["aux"] and n + t - 1 > 10):
                continue
            sub = _keys_with_pivot(ctx, n, m)
            for name, amps in (("typed", _typed_amps(ctx, m, tforms[i % len(tforms)])),
                               ("phases", [complex(p) / math.sqrt(m) for p in ((1, -1, 1j, -1j) * 3)[:m]])):
                i += 1
                ctx.count(f"diversity:size:pivot{'.aux v-chain controls' if opts['aux'] else ' t'}={t}:n={n}")
                _div_case(ctx, variants, alg, opts, order_for(ctx, alg, sub), amps, f"size:pivot:n={n}:m={m}:{name}")


def _diversity_all(ctx, variants):
    _diversity_types(ctx, variants)
    _diversity_scale_phase(ctx, variants)
    _diversity_orders(ctx, variants)
    _diversity_calls(ctx, variants)
    _diversity_flag_forms(ctx, variants)
    _diversity_sizes(ctx, variants)


UNREACHED_JUSTIFIED = {
    "qclib/state_preparation/pivot.py:163->168": "dead: index_nonzero has a 1 among the first n-t bits and index_zero (< 2^t) is 0 there, so the "
                                                 "search loop always breaks (C06_pivot_step)",
    "qclib/state_preparation/pivot.py:229->237": "dead for valid input: among the first m+1 low-block indices one is absent (pigeonhole, C06_pivot_progress)",
    "qclib/state_preparation/cvoqram.py:88->97": "the loop always leaves through the `break` of the last pattern; normal exhaustion needs an empty dictionary",
    "qclib/gates/initialize_sparse.py:37->38,47->53,48->49": "validation of malformed dictionaries (non-binary keys, non-tuple parameter, norm != 1): rejection is C16",
    "qclib/util.py:247->264,165->166 (via the initializers)": "Initialize.validate_parameter converts every amplitude with complex(.), so "
                              "CvoqramInitialize only takes the complex branch (cos_value >= 0 is never < -1); the float branch and the clamp are "
                              "reached by the direct probe probe_matrix_angles",
    "qclib/util.py:get_cnot_count,get_depth,get_counts,get_state,measurement,build_state_dict,random_sparse,double_sparse,_double_sparse_binary,"
    "_count_ones,replace_all_values_with,build_list_of_quibit_objects,verify_interval_in_state_vector": "test / measurement / random-input helpers, "
                                                                                                          "not called by the initializers",
    "qclib/gates/ldmcu.py:44->47,59->79": "Ldmcu with zero controls: the sparse initializers call it with >= 1 control (merge emits a plain U otherwise); C04",
    "qclib/gates/mcg.py:56->57,75->76": "Mcg with zero controls / up_to_diagonal: never requested by pivot or cvoqram; C04",
}


def run(ctx, nmax_or=None, n_orders=None, only=None):
    quick = ctx.quick
    variants = [v for v in VARIANTS if only is None or vname(*v) in only]
    string_ops_tie(ctx, 4 if quick else 5)
    branch_coverage_cases(ctx, variants)
    light_tail_cases(ctx, variants)
    float_typed_cases(ctx, variants)
    entry_form_cases(ctx, variants)
    boundary_cases(ctx, variants)
    _diversity_all(ctx, variants)
    if only is None:
        probe_matrix_angles(ctx)

    # ---- tie: exhaustive n <= 3 (every subset with m >= 2), several insertion orders
    n_orders = n_orders or (2 if quick else 4)
    for n in (2, 3):
        ks = all_keys(n)
        for m in range(2, 2 ** n + 1):
            for sub in itertools.combinations(ks, m):
                for o in range(n_orders):
                    kind = KINDS[(o + m) % len(KINDS)]
                    for alg, opts in variants:
                        if not valid(alg, opts, m):
                            continue
                        keys = list(sub) if (o == 0 and alg != "cvo") else order_for(ctx, alg, sub)
                        tie_case(ctx, alg, opts, keys, amplitudes(ctx, m, kind))
    # ---- tie: random dictionaries up to n = 7
    reps = 6 if quick else 25
    for n in range(4, 8):
        ks = all_keys(n)
        ms = sorted({2, 3, 4, 5, 2 ** (n - 1), 2 ** (n - 1) + 1, 2 ** n - 1, 2 ** n} | {ctx.rng.randint(2, 2 ** n) for _ in range(reps)})
        if quick and n >= 6:
            ms = [mm for mm in ms if mm <= 40]
        for m in ms:
            sub = ctx.rng.sample(ks, m)
            kind = ctx.rng.choice(KINDS)
            for alg, opts in variants:
                if valid(alg, opts, m):
                    tie_case(ctx, alg, opts, order_for(ctx, alg, sub), amplitudes(ctx, m, kind))

    # ---- oracle
    nmax_or = nmax_or or (5 if quick else 7)
    ovars = variants + ([v for v in ORACLE_EXTRA] if only is None else [])
    for n in range(2, nmax_or + 1):
        ks = all_keys(n)
        if n <= 3:
            subs = [list(s) for m in range(2, 2 ** n + 1) for s in itertools.combinations(ks, m)]
            if quick and n == 3:
                subs = ctx.rng.sample(subs, 60)
        else:
            ms = sorted({2, 3, 4, 2 ** (n - 1), 2 ** (n - 1) + 1, 2 ** n} | {ctx.rng.randint(2, 2 ** n) for _ in range(4 if quick else 10)})
            if n >= 6:
                ms = [mm for mm in ms if mm <= (24 if quick else 48)] + ([2 ** n] if not quick and n == 6 else [])
            subs = [ctx.rng.sample(ks, m) for m in ms]
        for sub in subs:
            m = len(sub)
            kinds = KINDS if (n <= 3 and not quick) else [ctx.rng.choice(KINDS[:3]), ctx.rng.choice(KINDS)]
            for kind in dict.fromkeys(kinds):
                for alg, opts in ovars:
                    if not valid(alg, opts, m):
                        continue
                    if alg == "cvo" and opts["aux"] and n >= 7:
                        continue   # 14-qubit register: skipped (noted)
                    oracle_case(ctx, alg, opts, order_for(ctx, alg, sub), amplitudes(ctx, m, kind), kind)
    ctx.notes.append("amplitudes generated with |a_i| >= 0.06/sqrt(m): zero / denormal amplitudes (division by |x| in "
                     "_compute_matrix_angles, log(0) in _compute_angles) are outside the property's 'non-zero amplitudes'")
    ctx.notes.append("CVO-QRAM with auxiliaries at n=7 (14 qubits) is tied but not simulated")
    ctx.notes.append("pivot with m=1 / aux with m=2 are outside the stated preconditions and not generated; merge with m=1 is checked up to phase")
    ctx.notes.append("diversity: numpy float32 / complex64 dictionaries use dyadic values with sum of squares exactly 1 (a float32-rounded "
                     "generic vector is normalised only to ~6e-8, not a valid input at the 1e-7 tolerance); all-integer dictionaries exist "
                     "only for m = 1 (value 1 / -1); zero amplitudes stay outside the property")


def search(ctx, hints):
    """failing-input search: first the dictionaries on which the tie disagreed, then a larger structured sweep"""
    for h in hints[:40]:
        op = h.get("op", {})
        alg = op.get("op")
        if alg not in ("merge", "pivot", "cvo"):
            continue
        opts = {k: op[k] for k in ("aux", "method") if k in op}
        amps = dec_amps(op["amps"])
        oracle_case(ctx, alg, opts, op["keys"], amps, "hint")
    if not ctx.failures:
        ctx.quick = False
        _run_oracle_only(ctx)


def _run_oracle_only(ctx):
    for n in range(2, 7):
        ks = all_keys(n)
        for rep in range(40 if n <= 4 else 12):
            m = ctx.rng.randint(2, 2 ** n)
            sub = ctx.rng.sample(ks, m)
            kind = ctx.rng.choice(KINDS)
            for alg, opts in VARIANTS:
                if valid(alg, opts, m):
                    oracle_case(ctx, alg, opts, order_for(ctx, alg, sub), amplitudes(ctx, m, kind), kind)
            if ctx.failures:
                return


def replay(ctx, payload):
    r = payload["replay"]
    amps = dec_amps(r["amps"])
    if r.get("single"):
        merge_single(ctx, r["keys"][0], amps[0])
        return
    oracle_case(ctx, r["alg"], r["opts"], r["keys"], amps, "replay", form=r.get("form", "opt"), wires=r.get("wires"))
