"""C05 — multi-controlled X: McxVchainDirty, LinearMcx, Toffoli, apply_ctrl_state (qclib/gates/mcx.py,
toffoli.py, util.py).  The majority gate part lives in props/c05_majority.py (integrator)."""
import itertools
import math
import os
import numpy as np

try:
    from props import c05_majority as MAJ
except ImportError:  # pragma: no cover
    MAJ = None

CLAIMED = True
TECHNIQUE = ("Lean 4 proof in amplitude-function semantics (signed relabellings + matrix families on one wire, induction on "
             "the ladder length, all wire layouts); gate-list correspondence with mcx.py/toffoli.py/util.py; Operator / "
             "Statevector / sparse-state oracle")
LEVEL_TEXT = ("Full proof for the model: for every k>=1 controls, every control pattern, every number of targets and every "
              "pairwise-distinct wire assignment, the dirty-ancilla V-chain denotes the classical permutation 'flip the targets "
              "iff the controls match' on every amplitude function (C05_vchain; borrowed qubits in any superposed state are "
              "restored), in relative-phase mode that permutation times an explicit +-1 diagonal (C05_vchain_relphase), and the "
              "single-ancilla LinearMcx denotes the exact permutation for every k with the ancilla restored (C05_linear); the "
              "relative-phase Toffoli and the half-Toffoli conjugation step are C05_toffoli_relphase / C05_halves, the X "
              "conjugation of ctrl_state is C05_ctrl_state.  Over any commutative ring with c^2+s^2=1, c^2-s^2=2cs; instance "
              "cos,sin(pi/8) over C proved from Mathlib.  Tie: flattened gate lists of the real definitions for every "
              "(k,t,ctrl_state,rp,ao) in the explored range are diffed against the model.  Oracle: Operator / random "
              "Statevector to 11 qubits, sparse simulation of the real gate list beyond (k up to 20).")
LEVEL_NOTE = ("Trusted: Lean kernel (axioms propext, Classical.choice, Quot.sound); agreement of the hand model with mcx.py "
              "beyond the explored sizes (the loops are uniform in k); qiskit matrices of u, cx, ccx, C3X, C4X, mcx(noancilla) "
              "(validated numerically each run); float pi/4 vs the exact angle.  action_only=True is modelled and tied but is "
              "outside the property (it leaves the ancillas dirty on purpose).")
LEAN_TARGETS = ["QclibModel.Props.C05", "QclibModel.Props.C05Majority"]
THEOREMS = ["Qclib.C05_toffoli_relphase", "Qclib.C05_halves", "Qclib.C05_vchain", "Qclib.C05_vchain_relphase",
            "Qclib.C05_linear", "Qclib.C05_ctrl_state", "Qclib.C05_majority", "Qclib.C05_majority_sizes",
            "Qclib.C05_majority_src",
    "Qclib.C05_vchain_action_only",
    "Qclib.C05_action_only_bracket",
    "Qclib.C05_sp_comm",
    "Qclib.C05_linear_action_only"]
TRUSTED = [
    "qiskit UGate(theta,0,0), CXGate, CCXGate, C3XGate, C4XGate matrices and the mcx(mode='noancilla') dispatch equal "
    "matU / applyMcu of Sem/Denote.lean (validated numerically each run)",
    "float: pi/4. is compared to the model's parameter to 1e-9; the theorem uses the exact angle (cos,sin(pi/8))",
    "tools/flatten.py expands qclib composites and keeps qiskit library gates as primitives",
    "tools/py2lean.py translation of the n_min / n_controls statements of majority.operate into Gen/Majority.lean "
    "(C05_majority_src proves it equal to the hand model for every n; kept honest by the second tie: the generated "
    "definition is run by the driver and diffed against the Python original for n <= 40 / 130)",
]
ASSUMPTIONS = ["exact arithmetic in the theorems; implementation compared to 1e-7",
               "register wires pairwise distinct (hypothesis VLayout of the theorems; true of every QuantumCircuit)"]
RULE = ("tie: (class, k, t, ctrl_state, relative_phase, action_only) tuples whose flattened gate list was diffed against the "
        "Lean model (incl. rejected ctrl_state strings); oracle: distinct (class, k, t, ctrl_state, rp, method, input) "
        "evaluations of the real definition against the reference permutation; non-trivial = k>=2")
DRIVER = "Drivers/C05.lean"

# Generator-quality audit (tools/branch_audit.py C05): items of the anchored files the generated inputs do not reach.
UNREACHED_JUSTIFIED = {
    "qclib/gates/mcx.py:211 mcx_vchain_dirty": "static append helper, not the gate: probed by C15 (known finding K-C15-2: it "
                                               "hands ctrl_state / relative_phase / action_only to the constructor one "
                                               "position too early, so no call with a pattern builds the intended gate)",
    "qclib/gates/mcx.py:329 mcx": "static append helper, not the gate: probed by C15 (known finding K-C15-1: appends the "
                                  "k+2-qubit LinearMcx to k+1 qubits and raises)",
    "qclib/gates/mcx.py:96->exit": "toffoli_multi_target is only called with side in ('l', 'r', None) (all three tied for "
                                   "1..5 targets); the fall-through of the elif chain is dead",
    "qclib/gates/mcx.py:160->exit": "the action-part loop always leaves through `break` at i = num_ctrl - 2 (the chain "
                                    "branch needs num_ctrl >= 3), it is never exhausted",
    "qclib/gates/util.py:25 orthonormal_eig": "eigenbasis utility of the U(2) gates: C04",
    "qclib/gates/util.py:36 u2_to_su2": "U(2) -> SU(2) utility of Mcg: C04",
    "qclib/gates/util.py:42 check_u2": "2x2-unitary validation of the one-qubit controlled gates: C04 / C16",
    "qclib/gates/util.py:52 check_su2": "determinant test of the SU(2) gates: C04",
}

TOL = 1e-7
DENSE_OP_MAX = 9         # full Operator up to this many qubits everywhere
DENSE_SV_MAX = 11        # random dense Statevector up to this many qubits


def generate(ctx):
    """Models re-translated from the source on every run: the subset-size computation of the majority gate
    (props/c05_majority.py -> lean/QclibModel/Gen/Majority.lean).  A translator refusal raises (broken obligation)."""
    if MAJ is None:
        raise RuntimeError("props/c05_majority.py is missing: the majority source tie cannot be regenerated")
    return MAJ.generate(ctx)


# ------------------------------------------------------------------------------------------------
# real code
# ------------------------------------------------------------------------------------------------

def build_vchain(k, t, cs, rp, ao):
    from qclib.gates.mcx import McxVchainDirty
    return McxVchainDirty(k, t, cs, rp, ao).definition


def build_linear(k, cs, ao):
    from qclib.gates.mcx import LinearMcx
    return LinearMcx(k, cs, ao).definition


def expected_reject(p):
    """ctrl_state strings with a '0' at a reversed position >= k make apply_ctrl_state index past the register."""
    cs = p.get("cs")
    return cs is not None and any(ch == "0" and i >= p["k"] for i, ch in enumerate(cs[::-1]))


def gate_list(kind, p):
    """(circuit, flattened gate list, error).  error = None | 'reject' (documented IndexError on an over-long ctrl_state) |
    repr of an exception qclib raised on a valid input."""
    from flatten import flatten
    try:
        circ = build_vchain(p["k"], p["t"], p.get("cs"), p["rp"], p["ao"]) if kind == "vchain" \
            else build_linear(p["k"], p.get("cs"), p["ao"])
        return circ, flatten(circ), None
    except IndexError as e:
        if expected_reject(p):
            return None, None, "reject"
        return None, None, f"{type(e).__name__}: {e}"
    except Exception as e:  # qclib / qiskit raised while building the definition of a valid input
        return None, None, f"{type(e).__name__}: {e}"


def layout(kind, p):
    """controls, borrowed wires, targets of the definition (wire indices)."""
    k = p["k"]
    if kind == "vchain":
        na = max(k - 2, 0)
        return list(range(k)), list(range(k, k + na)), list(range(k + na, k + na + p["t"]))
    return list(range(k)), [k + 1], [k]


def pattern_bits(k, cs):
    """bit required of control i (ctrl_state[::-1][i]); None -> all ones."""
    if cs is None:
        return [1] * k
    r = cs[::-1]
    return [0 if (i < len(r) and r[i] == "0") else 1 for i in range(k)]


def ref_dest(n, ctrl, bits, targets):
    idx = np.arange(2 ** n, dtype=np.int64)
    ok = np.ones(2 ** n, dtype=bool)
    for w, b in zip(ctrl, bits):
        ok &= ((idx >> w) & 1) == b
    tmask = sum(1 << w for w in targets)
    return np.where(ok, idx ^ tmask, idx)


def relphase_sign(n, ctrl, bits, target):
    """The explicit diagonal of C05_vchain_relphase: -1 where the first k-1 controls match, the last does not, target reads 0
    (k>=3); +1 elsewhere."""
    idx = np.arange(2 ** n, dtype=np.int64)
    ok = np.ones(2 ** n, dtype=bool)
    for w, b in zip(ctrl[:-1], bits[:-1]):
        ok &= ((idx >> w) & 1) == b
    ok &= ((idx >> ctrl[-1]) & 1) != bits[-1]
    ok &= ((idx >> target) & 1) == 0
    return np.where(ok, -1.0, 1.0)


# ------------------------------------------------------------------------------------------------
# sparse simulator of flattened gate lists (x, cx, ccx, mcx, u)
# ------------------------------------------------------------------------------------------------

def u_matrix(theta, phi, lam):
    c, s = math.cos(theta / 2), math.sin(theta / 2)
    return np.array([[c, -np.exp(1j * lam) * s], [np.exp(1j * phi) * s, np.exp(1j * (phi + lam)) * c]])


def sparse_apply(gates, idx, amp):
    idx = np.array(idx, dtype=np.int64)
    amp = np.array(amp, dtype=complex)
    one = np.int64(1)
    for name, ws, ps in gates:
        if name == "x":
            idx = idx ^ (one << ws[0])
        elif name in ("cx", "ccx", "mcx"):
            m = np.ones(len(idx), dtype=np.int64)
            for c in ws[:-1]:
                m &= (idx >> c) & 1
            idx = idx ^ (m << ws[-1])
        elif name == "u":
            q = ws[0]
            mat = u_matrix(*ps)
            bit = (idx >> q) & 1
            i0 = idx & ~(one << q)
            i1 = i0 | (one << q)
            nidx = np.concatenate([i0, i1])
            namp = np.concatenate([mat[0, bit] * amp, mat[1, bit] * amp])
            uq, inv = np.unique(nidx, return_inverse=True)
            acc = np.zeros(len(uq), dtype=complex)
            np.add.at(acc, inv, namp)
            keep = np.abs(acc) > 1e-13
            idx, amp = uq[keep], acc[keep]
        else:
            raise RuntimeError(f"sparse simulator: unsupported gate {name}")
    order = np.argsort(idx)
    return idx[order], amp[order]


def to_dict(idx, amp):
    return {int(i): complex(a) for i, a in zip(idx, amp)}


# ------------------------------------------------------------------------------------------------
# oracle evaluations (run in worker processes; return plain tuples)
# ------------------------------------------------------------------------------------------------

def case_key(kind, p, method, extra=""):
    cs = p.get("cs")
    return (f"{kind}:k={p['k']}:t={p.get('t', 1)}:cs={cs}:rp={int(p.get('rp', False))}:{method}" + (":" + extra if extra else ""))


def eval_dense(args):
    """Full Operator of the real definition vs reference permutation."""
    kind, p = args
    from qiskit.quantum_info import Operator
    circ, gates, gerr = gate_list(kind, p)
    key = case_key(kind, p, "operator")
    rep = {"kind": kind, "params": p, "method": "operator"}
    if circ is None:
        return key, "fail", "construction failed on a valid input: " + str(gerr), rep, None
    ctrl, anc, tg = layout(kind, p)
    n = circ.num_qubits
    if n < max(ctrl + anc + tg) + 1:
        return key, "fail", f"definition has {n} qubits, registers need {max(ctrl + anc + tg) + 1}", rep, None
    op = Operator(circ).data
    dest = ref_dest(n, ctrl, pattern_bits(p["k"], p.get("cs")), tg)
    idx = np.arange(2 ** n)
    ent = op[dest, idx].copy()
    rest = op.copy()
    rest[dest, idx] = 0
    off = float(np.abs(rest).max())
    if p.get("rp"):
        err = max(off, float(np.abs(np.abs(ent) - 1).max()))
        detail = f"relative phase: max off-permutation entry {off:.3e}, max ||entry|-1| {float(np.abs(np.abs(ent) - 1).max()):.3e}"
        sign_err = None
        if kind == "vchain" and p["k"] >= 3 and p["t"] == 1:
            # explicit diagonal of the theorem: op = D * P  =>  op[dest[x], x] = D[dest[x]]
            d = relphase_sign(n, ctrl, pattern_bits(p["k"], p.get("cs")), tg[0])
            sign_err = float(np.abs(ent - d[dest]).max())
    else:
        err = max(off, float(np.abs(ent - 1).max()))
        detail = f"max |Operator - permutation| = {err:.3e}"
        sign_err = None
    status = "fail" if err > TOL else "ok"
    return key, status, detail, dict(rep, err=err), {"kind": kind, **p, "qubits": n, "err": err, "sign_err": sign_err}


def eval_sv(args):
    """Random dense states (superposed controls, ancillas, targets) through the real definition."""
    kind, p, seed = args
    from qiskit.quantum_info import Statevector
    circ, gates, gerr = gate_list(kind, p)
    key = case_key(kind, p, "statevector", str(seed))
    rep = {"kind": kind, "params": p, "method": "statevector", "seed": seed}
    if circ is None:
        return key, "fail", "construction failed on a valid input: " + str(gerr), rep, None
    ctrl, anc, tg = layout(kind, p)
    n = circ.num_qubits
    rng = np.random.default_rng(seed)
    v = rng.normal(size=2 ** n) + 1j * rng.normal(size=2 ** n)
    v /= np.linalg.norm(v)
    out = Statevector(v).evolve(circ).data
    dest = ref_dest(n, ctrl, pattern_bits(p["k"], p.get("cs")), tg)
    exp = np.zeros_like(v)
    exp[dest] = v
    if p.get("rp"):
        err = float(np.abs(np.abs(out) - np.abs(exp)).max())
    else:
        err = float(np.abs(out - exp).max())
    status = "fail" if err > TOL else "ok"
    return key, status, f"random state: max amplitude error {err:.3e}", dict(rep, err=err), \
        {"kind": kind, **p, "qubits": n, "err": err, "method": "statevector"}


def make_sparse_input(rng, kind, p, mismatches, n_super):
    """Basis values for controls/targets, ancillas basis or |+>,|->,|+i>.  Returns (idx list, amp list, description)."""
    ctrl, anc, tg = layout(kind, p)
    bits = pattern_bits(p["k"], p.get("cs"))
    wrong = set(rng.sample(range(p["k"]), min(mismatches, p["k"])))
    base = 0
    for i, w in enumerate(ctrl):
        b = bits[i] ^ (1 if i in wrong else 0)
        base |= b << w
    for w in tg:
        base |= rng.randint(0, 1) << w
    sup = rng.sample(anc, min(n_super, len(anc)))
    for w in anc:
        if w not in sup:
            base |= rng.randint(0, 1) << w
    idx, amp = [base], [1.0 + 0j]
    desc = []
    for w in sup:
        ph = rng.choice([1, -1, 1j])
        desc.append([w, str(ph)])
        idx = [i for i in idx] + [i | (1 << w) for i in idx]
        amp = [a / math.sqrt(2) for a in amp] + [a * ph / math.sqrt(2) for a in amp]
    return idx, amp, {"wrong_controls": sorted(wrong), "superposed": desc, "base": base}


def eval_sparse(args):
    kind, p, idx, amp, desc = args
    circ, gates, gerr = gate_list(kind, p)
    key = case_key(kind, p, "sparse", f"{desc['base']:x}-{len(idx)}")
    rep = {"kind": kind, "params": p, "method": "sparse", "idx": [int(i) for i in idx],
           "amp": [[complex(a).real, complex(a).imag] for a in amp], "desc": desc}
    if circ is None:
        return key, "fail", "construction failed on a valid input: " + str(gerr), rep, None
    ctrl, anc, tg = layout(kind, p)
    bits = pattern_bits(p["k"], p.get("cs"))
    oi, oa = sparse_apply(gates, idx, amp)
    got = to_dict(oi, oa)
    tmask = sum(1 << w for w in tg)
    exp = {}
    for i, a in zip(idx, amp):
        ok = all(((i >> w) & 1) == b for w, b in zip(ctrl, bits))
        j = i ^ tmask if ok else i
        exp[j] = exp.get(j, 0) + a
    err = 0.0
    for j in set(got) | set(exp):
        g, e = got.get(j, 0), exp.get(j, 0)
        err = max(err, abs(abs(g) - abs(e)) if p.get("rp") else abs(g - e))
    status = "fail" if err > TOL else "ok"
    return key, status, f"sparse simulation of the real gate list: max amplitude error {err:.3e} ({desc})", \
        dict(rep, err=err), {"kind": kind, **p, "method": "sparse", "terms": len(idx), "err": err, **desc}


EVAL = {"operator": eval_dense, "statevector": eval_sv, "sparse": eval_sparse}


def run_jobs(ctx, jobs):
    """jobs: list of (method, args).  Evaluated in a process pool; results recorded in order."""
    from concurrent.futures import ProcessPoolExecutor
    import multiprocessing as mp
    workers = int(os.environ.get("C05_WORKERS", "8"))
    results = []
    if workers <= 1 or len(jobs) < 4:
        results = [EVAL[m](a) for m, a in jobs]
    else:
        with ProcessPoolExecutor(max_workers=workers, mp_context=mp.get_context("fork")) as ex:
            futs = [ex.submit(EVAL[m], a) for m, a in jobs]
            results = [f.result() for f in futs]
    for (m, a), (key, status, detail, rep, sample) in zip(jobs, results):
        p = a[1]
        ctx.count(f"{a[0]}:{m}:" + ("rp" if p.get("rp") else "exact"))
        if status == "ok":
            ctx.ok(key, nontrivial=p["k"] >= 2, sample=sample)
            if sample and sample.get("sign_err") is not None:
                ctx.assumption_checks += 1
                if sample["sign_err"] > TOL:
                    # the property (unit-modulus diagonal) holds; what broke is the agreement of the code's
                    # diagonal with the explicit +-1 formula of C05_vchain_relphase: an obligation, not a failing input
                    msg = (f"{key}: the real diagonal differs from the theorem's explicit signs (relSign) by "
                           f"{sample['sign_err']:.3e}")
                    if hasattr(ctx, "obligation_broken"):
                        ctx.obligation_broken("relphase diagonal of the code = relSign of C05_vchain_relphase", msg)
                    else:
                        ctx.notes.append("BROKEN: " + msg)
        else:
            ctx.fail(key, detail, rep)


# ------------------------------------------------------------------------------------------------
# K4 assumptions
# ------------------------------------------------------------------------------------------------

def assumptions(ctx):
    from qiskit import QuantumCircuit
    from qiskit.circuit.library import UGate, CXGate, CCXGate, C3XGate, C4XGate
    from qiskit.quantum_info import Operator
    from qclib.gates.toffoli import Toffoli
    from flatten import flatten

    def chk(name, ok, detail=""):
        ctx.assumption_checks += 1
        if not ok:
            ctx.fail("assumption:" + name, detail or name,
                     {"kind": "assumption", "method": "assumption", "params": {"name": name},
                      "call": "qiskit gate matrices / Operator(qclib.gates.toffoli.Toffoli().definition) vs Sem/Denote.lean"},
                     kind="assumption")

    for th in (math.pi / 4, -math.pi / 4, 0.3):
        c, s = math.cos(th / 2), math.sin(th / 2)
        chk("u-matrix", np.abs(UGate(th, 0.0, 0.0).to_matrix() - np.array([[c, -s], [s, c]])).max() < 1e-12, f"UGate({th},0,0)")
    chk("u-matrix-general", np.abs(UGate(0.7, -0.4, 1.9).to_matrix() - u_matrix(0.7, -0.4, 1.9)).max() < 1e-12)
    for nc, g in ((1, CXGate()), (2, CCXGate()), (3, C3XGate()), (4, C4XGate())):
        n = nc + 1
        dest = ref_dest(n, list(range(nc)), [1] * nc, [nc])
        m = np.zeros((2 ** n, 2 ** n))
        m[dest, np.arange(2 ** n)] = 1
        chk(f"c{nc}x-matrix", np.abs(Operator(g).data - m).max() < 1e-9, f"{g.name} is not the little-endian MCX permutation")
        qc = QuantumCircuit(n)
        qc.mcx(list(range(nc)), nc, mode="noancilla")
        fl = flatten(qc)
        want = {1: "cx", 2: "ccx", 3: "mcx", 4: "mcx"}[nc]
        chk(f"mcx-noancilla-{nc}", len(fl) == 1 and fl[0][0] == want and fl[0][1] == list(range(n))
            and np.abs(Operator(qc).data - m).max() < 1e-9, f"mcx(noancilla) with {nc} controls flattened to {fl}")
    # relative-phase Toffoli = c1 ? (c0 ? X : -Z) : I   (index = c0 + 2 c1 + 4 t)
    m = np.eye(8)
    m[2, 2] = -1
    m[3, 3] = m[7, 7] = 0
    m[3, 7] = m[7, 3] = 1
    chk("toffoli-relphase-matrix", np.abs(Operator(Toffoli().definition).data - m).max() < 1e-9,
        "Toffoli() is not c1 ? (c0 ? X : -Z) : I")
    # self-check of the sparse simulator against qiskit (harness sanity, not a property)
    from qiskit.quantum_info import Statevector
    try:
        circ = build_vchain(4, 2, "0110", False, False)
    except Exception:       # reported as a construction failure by the tie / oracle below
        return
    gates = flatten(circ)
    n = circ.num_qubits
    rng = np.random.default_rng(5)
    v = rng.normal(size=2 ** n) + 1j * rng.normal(size=2 ** n)
    oi, oa = sparse_apply(gates, list(range(2 ** n)), list(v))
    out = np.zeros(2 ** n, dtype=complex)
    out[oi] = oa
    if np.abs(out - Statevector(v).evolve(circ).data).max() > 1e-10:
        raise RuntimeError("sparse simulator disagrees with qiskit Statevector (harness bug)")


def toffoli_entry(ctx):
    """The static `Toffoli.ccx(circuit, controls=None, target=None, cancel=None)`: without controls/target it acts on the
    circuit's first three qubits, otherwise on [*controls, target]; every `cancel` option.  Tie: natural placement against
    the model's gate list; oracle: any placement against the definition composed onto the same qubits."""
    from qiskit import QuantumCircuit
    from qiskit.quantum_info import Operator
    from qclib.gates.toffoli import Toffoli
    from flatten import flatten, to_lines
    r = ctx.rng
    for cancel in (None, "left", "right"):
        # `controls is None or target is None`: both missing, both given, and each disjunct alone (boundary pass): a
        # single missing argument falls back to the first three qubits, as the code defines
        for mode in ("default", "explicit", "placed", "only-controls", "only-target"):
            n = 3 if mode == "explicit" else r.randint(4, 5)
            key = f"toffoli.ccx:cancel={cancel}:{mode}"
            rep = {"kind": "toffoli.ccx", "method": "entry", "params": {"cancel": cancel, "mode": mode}}
            try:
                qc = QuantumCircuit(n)
                if mode == "default":
                    where = [0, 1, 2]
                    Toffoli.ccx(qc) if cancel is None else Toffoli.ccx(qc, cancel=cancel)
                elif mode == "explicit":
                    where = [0, 1, 2]
                    Toffoli.ccx(qc, [qc.qubits[0], qc.qubits[1]], qc.qubits[2], cancel)
                elif mode == "only-controls":
                    where = [0, 1, 2]
                    ctx.count("boundary:Toffoli.ccx:one argument missing")
                    Toffoli.ccx(qc, controls=[n - 1, n - 2], cancel=cancel)
                elif mode == "only-target":
                    where = [0, 1, 2]
                    ctx.count("boundary:Toffoli.ccx:one argument missing")
                    Toffoli.ccx(qc, target=n - 1, cancel=cancel)
                else:
                    where = r.sample(range(n), 3)
                    Toffoli.ccx(qc, controls=where[:2], target=where[2], cancel=cancel)
                got = Operator(qc).data
                lines = to_lines(flatten(qc))
            except Exception as e:
                ctx.fail(key + ":raises", f"Toffoli.ccx(..., cancel={cancel!r}) [{mode}] raised {type(e).__name__}: {str(e)[:160]}", rep)
                continue
            ctx.count("branch:Toffoli.ccx:" + ("no-controls" if mode == "default" else "controls-given"))
            if mode != "placed":
                ctx.tie({"op": "toffoli", "cancel": cancel or "none"}, lines)
            ref = QuantumCircuit(n)
            ref.compose(Toffoli(cancel).definition, qubits=where, inplace=True)
            err = float(np.abs(got - Operator(ref).data).max())
            if err > TOL:
                ctx.fail(key, f"max |Operator(circuit) - Toffoli(cancel={cancel!r}) on qubits {where}| = {err:.3e}",
                         dict(rep, where=where))
            else:
                ctx.ok(key, nontrivial=True)


# ------------------------------------------------------------------------------------------------
# case generation
# ------------------------------------------------------------------------------------------------

def patterns(ctx, k, full_upto, n_random):
    """None, all strings of length k (k <= full_upto) or all-ones/all-zeros/one-zero + random ones."""
    if k <= full_upto:
        return [None] + ["".join(s) for s in itertools.product("01", repeat=k)]
    out = [None, "1" * k, "0" * k, "1" * (k - 1) + "0", "0" + "1" * (k - 1)]
    while len(out) < 5 + n_random:
        s = "".join(ctx.rng.choice("01") for _ in range(k))
        if s not in out:
            out.append(s)
    return out


def tie_case(ctx, kind, p):
    from flatten import to_lines
    circ, gates, gerr = gate_list(kind, p)
    op = {"op": kind, "k": p["k"], "ao": p["ao"]}
    if kind == "vchain":
        op.update(t=p["t"], rp=p["rp"])
    if p.get("cs") is not None:
        op["cs"] = p["cs"]
    if gerr is not None and gerr != "reject":
        # "construction never fails": an exception on a valid input is a failing input of the property
        ctx.fail(case_key(kind, p, "construct"), "qclib raised while building the definition: " + gerr,
                 {"kind": kind, "params": p, "method": "construct"})
        ctx.tie(op, ["EXCEPTION ; " + gerr.split(":")[0]])
        return
    ctx.tie(op, ["REJECT"] if circ is None else to_lines(gates))
    ctx.count(f"tie:{kind}:" + ("reject" if circ is None else "k=%d" % p["k"]))


# ------------------------------------------------------------------------------------------------
# boundary-value pass (sizes next to every comparison of mcx.py)
# ------------------------------------------------------------------------------------------------
#   McxVchainDirty  num_controls - 2 > 0; num_ctrl == 2 / == 1; `not relative_phase and num_ctrl == 3 and num_target < 2`
#                   (k = 2, 3, 4 x t = 1, 2 x rp: tie k <= 7 all combinations, dense oracle k <= 5);  i < num_ctrl - 2;
#                   toffoli_multi_target range(num_targets - 1) with 1, 2, 3 targets
#                   -> here: t = 2, 3 beyond the dense cap (k = 6..9, sparse), gate lists for k = 8, 9
#   LinearMcx       num_qubits < 5 / == 5 / == 6 / == 7 / else, k_2 = ceil(nq / 2), k_1 = k - k_2 + 1 (odd / even nq)
#                   -> k = 1..10 tied, operator k <= 7, random state k = 8, 9, sparse k = 10, 11, 14, 17 (run); here k = 12, 13
#                      sparse so that (k_1, k_2) = (5, 7), (6, 7), (6, 8) follow (3, 4) .. (5, 6) without a gap

def boundary_jobs(ctx):
    r = ctx.rng
    jobs = []

    def mixed(k):
        return "".join("10"[(k - 1 - j) % 2] for j in range(k))

    for k in (8, 9):
        for t in (1, 2, 3):
            for rp in (False, True):
                for ao in (False, True):
                    for cs in (None, mixed(k)):
                        ctx.count("boundary:vchain gate list k=8,9")
                        tie_case(ctx, "vchain", dict(k=k, t=t, cs=cs, rp=rp, ao=ao))
    for k in (11, 12, 13):
        for ao in (False, True):
            for cs in (None, mixed(k)):
                ctx.count("boundary:linear gate list k=11..13")
                tie_case(ctx, "linear", dict(k=k, cs=cs, ao=ao))
    for k in (5, 6, 7, 8, 9):
        for t in (2, 3):
            if k + max(k - 2, 0) + t <= DENSE_SV_MAX:
                continue                      # dense oracle of run()
            for cs in (None, mixed(k)):
                p = dict(k=k, t=t, cs=cs, rp=False, ao=False)
                for mism, nsup in ((0, 0), (0, 4), (1, 3), (2, 2), (1, 0)):
                    ctx.count("boundary:vchain t=2,3 beyond the dense cap")
                    idx, amp, desc = make_sparse_input(r, "vchain", p, mism, nsup)
                    jobs.append(("sparse", ("vchain", p, idx, amp, desc)))
    for k in (12, 13):
        for cs in (None, mixed(k)):
            p = dict(k=k, cs=cs, ao=False)
            for mism, nsup in ((0, 0), (0, 1), (1, 1), (1, 0), (2, 0)):
                ctx.count("boundary:linear k=12,13")
                idx, amp, desc = make_sparse_input(r, "linear", p, mism, nsup)
                jobs.append(("sparse", ("linear", p, idx, amp, desc)))
    return jobs


def run(ctx, scale=0, with_majority=True):
    assumptions(ctx)
    quick = ctx.quick
    r = ctx.rng
    # ---- tie ------------------------------------------------------------------------------------
    from flatten import flatten, to_lines
    from qclib.gates.toffoli import Toffoli
    from qclib.gates.mcx import McxVchainDirty
    for cancel in (None, "left", "right"):
        ctx.tie({"op": "toffoli", "cancel": cancel or "none"}, to_lines(flatten(Toffoli(cancel).definition)))
    for n in range(1, 6):
        for side in ("l", "r", None):
            ctx.tie({"op": "tmt", "n": n, "side": side or "both"},
                    to_lines(flatten(McxVchainDirty.toffoli_multi_target(n, side))))
    toffoli_entry(ctx)
    kmax_v = (7 if quick else 9) + scale
    for k in range(1, kmax_v + 1):
        pats = patterns(ctx, k, 4 if quick else 5, 2 if quick else 4)
        for t in (1, 2, 3):
            for rp in (False, True):
                for ao in (False, True):
                    for cs in pats:
                        tie_case(ctx, "vchain", dict(k=k, t=t, cs=cs, rp=rp, ao=ao))
    # ctrl_state strings of the wrong length: shorter (accepted), longer without / with a high '0' (IndexError)
    for k, cs in ((3, "0"), (3, "10"), (4, ""), (2, "111"), (2, "011"), (2, "110"), (3, "0111"), (1, "00"), (4, "10110")):
        tie_case(ctx, "vchain", dict(k=k, t=1, cs=cs, rp=False, ao=False))
        tie_case(ctx, "linear", dict(k=k, cs=cs, ao=False))
    kmax_l = (10 if quick else 12) + scale
    for k in range(1, kmax_l + 1):
        for ao in (False, True):
            for cs in patterns(ctx, k, 3 if quick else 4, 2 if quick else 4):
                tie_case(ctx, "linear", dict(k=k, cs=cs, ao=ao))

    # ---- oracle ---------------------------------------------------------------------------------
    jobs = []
    for k in range(1, 8 + scale):
        for t in (1, 2, 3):
            nq = k + max(k - 2, 0) + t
            if nq > DENSE_SV_MAX:
                continue
            for rp in ((False, True) if t == 1 else (False,)):
                if nq <= DENSE_OP_MAX:
                    pats = patterns(ctx, k, 4 if quick else 5, 1 if quick else 3)
                else:
                    pats = patterns(ctx, k, 0, 0 if quick else 2)[1:]
                for cs in pats:
                    p = dict(k=k, t=t, cs=cs, rp=rp, ao=False)
                    if nq <= DENSE_OP_MAX or (not quick and nq == 10 and cs in ("1" * k, pats[-1])):
                        jobs.append(("operator", ("vchain", p)))
                    if nq > DENSE_OP_MAX or cs is None:
                        jobs.append(("statevector", ("vchain", p, r.getrandbits(31))))
    for k in range(1, 10):
        nq = k + 2
        pats = patterns(ctx, k, 5 if quick else 7, 1 if quick else 3) if nq <= DENSE_OP_MAX else patterns(ctx, k, 0, 1)[1:]
        for cs in pats:
            p = dict(k=k, cs=cs, ao=False)
            if nq <= DENSE_OP_MAX or (not quick and nq == 10 and cs == pats[-1]):
                jobs.append(("operator", ("linear", p)))
            if nq > DENSE_OP_MAX or cs is None:
                jobs.append(("statevector", ("linear", p, r.getrandbits(31))))
    # sparse states beyond the dense cap
    big_v = [7, 8, 10, 13] if quick else [7, 8, 9, 10, 12, 14, 17, 20]
    big_l = [10, 11, 14, 17] if quick else [10, 11, 12, 13, 15, 18, 21, 24]
    for kind, ks in (("vchain", big_v), ("linear", big_l)):
        for k in ks:
            for t, rp in (((1, False), (1, True), (3, False)) if kind == "vchain" else ((1, False),)):
                rnd = patterns(ctx, k, 0, 1 if quick else 2)[5:]
                for cs in ([None] + rnd if quick else [None, "0" * k] + rnd):
                    p = dict(k=k, cs=cs, ao=False)
                    if kind == "vchain":
                        p.update(t=t, rp=rp)
                    for mism, nsup in ((0, 0), (0, 4), (1, 3), (r.randint(2, 5), 2), (1, 0)):
                        idx, amp, desc = make_sparse_input(r, kind, p, mism, nsup)
                        jobs.append(("sparse", (kind, p, idx, amp, desc)))
    jobs += boundary_jobs(ctx)
    run_jobs(ctx, jobs)
    ctx.notes.append("dense Operator up to %d qubits (10 in the thorough tier), random dense Statevector up to %d, sparse "
                     "simulation of the real flattened gate list beyond (basis controls/targets, borrowed qubits basis or "
                     "|+>,|->,|+i>)" % (DENSE_OP_MAX, DENSE_SV_MAX))
    ctx.notes.append("action_only=True is tied (gate lists) but not evaluated by the oracle: it leaves the ancillas dirty on purpose")
    if MAJ is not None and with_majority:
        MAJ.run(ctx)


def search(ctx, hints):
    """Failing-input search on the real code: the disagreeing ops first, then the oracle at larger sizes.
    Hints that are not MCX ops (majority) are handed to the majority module; with no hints at all (a red proof) both run."""
    mine = [h for h in hints if h["op"].get("op") in ("vchain", "linear", "toffoli", "tmt")]
    theirs = [h for h in hints if h not in mine]
    if mine or not hints:
        jobs = []
        for h in mine[:40]:
            op = h["op"]
            kind = op.get("op")
            if kind not in ("vchain", "linear") or op.get("ao"):
                continue
            p = dict(k=op["k"], cs=op.get("cs"), ao=False)
            if kind == "vchain":
                p.update(t=op["t"], rp=op["rp"])
                if p["rp"] and p["t"] != 1:
                    continue
            if p["cs"] is not None and len(p["cs"]) != p["k"]:
                continue
            ctrl, anc, tg = layout(kind, p)
            nq = len(ctrl) + len(anc) + len(tg)
            if nq <= DENSE_OP_MAX + 1:
                jobs.append(("operator", (kind, p)))
            elif nq <= DENSE_SV_MAX:
                jobs.append(("statevector", (kind, p, ctx.rng.getrandbits(31))))
            else:
                for mism, nsup in ((0, 0), (0, 3), (1, 2), (2, 1)):
                    idx, amp, desc = make_sparse_input(ctx.rng, kind, p, mism, nsup)
                    jobs.append(("sparse", (kind, p, idx, amp, desc)))
        run_jobs(ctx, jobs)
        if not ctx.failures:
            run(ctx, scale=1, with_majority=False)
    if MAJ is not None and (theirs or not hints) and not ctx.failures:
        MAJ.search(ctx, theirs)


def replay(ctx, payload):
    r = payload["replay"]
    if "kind" not in r or "method" not in r:
        if MAJ is not None:
            return MAJ.replay(ctx, r)
        raise RuntimeError("unknown replay payload")
    kind, p, m = r["kind"], r["params"], r["method"]
    if m == "assumption":
        assumptions(ctx)
        return
    if m == "entry":
        toffoli_entry(ctx)
        return
    if m == "construct":
        circ, gates, gerr = gate_list(kind, p)
        if gerr is not None and gerr != "reject":
            ctx.fail(case_key(kind, p, "construct"), "qclib raised while building the definition: " + gerr, r)
        else:
            ctx.ok(case_key(kind, p, "construct"))
        return
    if m == "operator":
        jobs = [("operator", (kind, p))]
    elif m == "statevector":
        jobs = [("statevector", (kind, p, r["seed"]))]
    else:
        jobs = [("sparse", (kind, p, r["idx"], [complex(a, b) for a, b in r["amp"]], r["desc"]))]
    run_jobs(ctx, jobs)
