"""C05 — multi-controlled X: McxVchainDirty, LinearMcx, Toffoli, apply_ctrl_state (qclib/gates/mcx.py,
toffoli.py, util.py).  The majority gate part lives in props/c05_majority.py (integrator)."""
import itertools
import json
import math
import os
import numpy as np

try:
    from props import c05_majority as MAJ
except ImportError:  # pragma: no cover
    MAJ = None

CLAIMED = True
TECHNIQUE = ("Lean 4 proof in amplitude-function semantics (signed relabellings + matrix families on one wire, induction on "
             "the ladder length, all wire layouts); gate-list correspondence with mcx.py/toffoli.py/util.py; Operator / "
             "Statevector / sparse-state oracle")
LEVEL_TEXT = ("Full proof for the model: for every k>=1 controls, every control pattern, every number of targets and every "
              "pairwise-distinct wire assignment, the dirty-ancilla V-chain denotes the classical permutation 'flip the targets "
              "iff the controls match' on every amplitude function (C05_vchain; borrowed qubits in any superposed state are "
              "restored), in relative-phase mode that permutation times an explicit +-1 diagonal (C05_vchain_relphase), and the "
              "single-ancilla LinearMcx denotes the exact permutation for every k with the ancilla restored (C05_linear); the "
              "relative-phase Toffoli and the half-Toffoli conjugation step are C05_toffoli_relphase / C05_halves, the X "
              "conjugation of ctrl_state is C05_ctrl_state.  Over any commutative ring with c^2+s^2=1, c^2-s^2=2cs; instance "
              "cos,sin(pi/8) over C proved from Mathlib.  Tie: flattened gate lists of the real definitions for every "
              "(k,t,ctrl_state,rp,ao) in the explored range are diffed against the model.  Oracle: Operator / random "
              "Statevector to 11 qubits, sparse simulation of the real gate list beyond (k up to 20).")
LEVEL_NOTE = ("Trusted: Lean kernel (axioms propext, Classical.choice, Quot.sound); agreement of the hand model with mcx.py "
              "beyond the explored sizes (the loops are uniform in k); qiskit matrices of u, cx, ccx, C3X, C4X, mcx(noancilla) "
              "(validated numerically each run); float pi/4 vs the exact angle.  action_only=True is modelled and tied but is "
              "outside the property (it leaves the ancillas dirty on purpose).")
LEAN_TARGETS = ["QclibModel.Props.C05", "QclibModel.Props.C05Majority", "QclibModel.Props.C05Invol"]
THEOREMS = ["Qclib.C05_toffoli_relphase", "Qclib.C05_halves", "Qclib.C05_vchain", "Qclib.C05_vchain_relphase",
            "Qclib.C05_linear", "Qclib.C05_ctrl_state", "Qclib.C05_majority", "Qclib.C05_majority_sizes",
            "Qclib.C05_majority_src",
    "Qclib.C05_vchain_action_only",
    "Qclib.C05_action_only_bracket",
    "Qclib.C05_sp_comm",
    "Qclib.C05_linear_action_only",
    "Qclib.C05_vchain_involution",
    "Qclib.C05_linear_involution"]
TRUSTED = [
    "qiskit UGate(theta,0,0), CXGate, CCXGate, C3XGate, C4XGate matrices and the mcx(mode='noancilla') dispatch equal "
    "matU / applyMcu of Sem/Denote.lean (validated numerically each run)",
    "float: pi/4. is compared to the model's parameter to 1e-9; the theorem uses the exact angle (cos,sin(pi/8))",
    "tools/flatten.py expands qclib composites and keeps qiskit library gates as primitives",
    "tools/py2lean.py translation of the n_min / n_controls statements of majority.operate into Gen/Majority.lean "
    "(C05_majority_src proves it equal to the hand model for every n; kept honest by the second tie: the generated "
    "definition is run by the driver and diffed against the Python original for n <= 40 / 130)",
]
ASSUMPTIONS = ["exact arithmetic in the theorems; implementation compared to 1e-7",
               "register wires pairwise distinct (hypothesis VLayout of the theorems; true of every QuantumCircuit)"]
RULE = ("tie: (class, k, t, ctrl_state, relative_phase, action_only) tuples whose flattened gate list was diffed against the "
        "Lean model (incl. rejected ctrl_state strings); oracle: distinct (class, k, t, ctrl_state, rp, method, input) "
        "evaluations of the real definition against the reference permutation; non-trivial = k>=2")
DRIVER = "Drivers/C05.lean"

# Generator-quality audit (tools/branch_audit.py C05): items of the anchored files the generated inputs do not reach.
UNREACHED_JUSTIFIED = {
    "qclib/gates/mcx.py:211 mcx_vchain_dirty": "static append helper, not the gate: probed by C15 (known finding K-C15-2: it "
                                               "hands ctrl_state / relative_phase / action_only to the constructor one "
                                               "position too early, so no call with a pattern builds the intended gate)",
    "qclib/gates/mcx.py:329 mcx": "static append helper, not the gate: probed by C15 (known finding K-C15-1: appends the "
                                  "k+2-qubit LinearMcx to k+1 qubits and raises)",
    "qclib/gates/mcx.py:96->exit": "toffoli_multi_target is only called with side in ('l', 'r', None) (all three tied for "
                                   "1..5 targets); the fall-through of the elif chain is dead",
    "qclib/gates/mcx.py:160->exit": "the action-part loop always leaves through `break` at i = num_ctrl - 2 (the chain "
                                    "branch needs num_ctrl >= 3), it is never exhausted",
    "qclib/gates/util.py:25 orthonormal_eig": "eigenbasis utility of the U(2) gates: C04",
    "qclib/gates/util.py:36 u2_to_su2": "U(2) -> SU(2) utility of Mcg: C04",
    "qclib/gates/util.py:42 check_u2": "2x2-unitary validation of the one-qubit controlled gates: C04 / C16",
    "qclib/gates/util.py:52 check_su2": "determinant test of the SU(2) gates: C04",
}

TOL = 1e-7
DENSE_OP_MAX = 9         # full Operator up to this many qubits everywhere
DENSE_SV_MAX = 11        # random dense Statevector up to this many qubits


def generate(ctx):
    """Models re-translated from the source on every run: the subset-size computation of the majority gate
    (props/c05_majority.py -> lean/QclibModel/Gen/Majority.lean).  A translator refusal raises (broken obligation)."""
    if MAJ is None:
        raise RuntimeError("props/c05_majority.py is missing: the majority source tie cannot be regenerated")
    return MAJ.generate(ctx)


# ------------------------------------------------------------------------------------------------
# real code
# ------------------------------------------------------------------------------------------------

def build_vchain(k, t, cs, rp, ao):
    from qclib.gates.mcx import McxVchainDirty
    return McxVchainDirty(k, t, cs, rp, ao).definition


def build_linear(k, cs, ao):
    from qclib.gates.mcx import LinearMcx
    return LinearMcx(k, cs, ao).definition


def expected_reject(p):
    """ctrl_state strings with a '0' at a reversed position >= k make apply_ctrl_state index past the register."""
    cs = p.get("cs")
    return cs is not None and any(ch == "0" and i >= p["k"] for i, ch in enumerate(cs[::-1]))


def gate_list(kind, p):
    """(circuit, flattened gate list, error).  error = None | 'reject' (documented IndexError on an over-long ctrl_state) |
    repr of an exception qclib raised on a valid input."""
    from flatten import flatten
    try:
        circ = build_vchain(p["k"], p["t"], p.get("cs"), p["rp"], p["ao"]) if kind == "vchain" \
            else build_linear(p["k"], p.get("cs"), p["ao"])
        return circ, flatten(circ), None
    except IndexError as e:
        if expected_reject(p):
            return None, None, "reject"
        return None, None, f"{type(e).__name__}: {e}"
    except Exception as e:  # qclib / qiskit raised while building the definition of a valid input
        return None, None, f"{type(e).__name__}: {e}"


def layout(kind, p):
    """controls, borrowed wires, targets of the definition (wire indices)."""
    k = p["k"]
    if kind == "vchain":
        na = max(k - 2, 0)
        return list(range(k)), list(range(k, k + na)), list(range(k + na, k + na + p["t"]))
    return list(range(k)), [k + 1], [k]


def pattern_bits(k, cs):
    """bit required of control i (ctrl_state[::-1][i]); None -> all ones."""
    if cs is None:
        return [1] * k
    r = cs[::-1]
    return [0 if (i < len(r) and r[i] == "0") else 1 for i in range(k)]


def ref_dest(n, ctrl, bits, targets):
    idx = np.arange(2 ** n, dtype=np.int64)
    ok = np.ones(2 ** n, dtype=bool)
    for w, b in zip(ctrl, bits):
        ok &= ((idx >> w) & 1) == b
    tmask = sum(1 << w for w in targets)
    return np.where(ok, idx ^ tmask, idx)


def relphase_sign(n, ctrl, bits, target):
    """The explicit diagonal of C05_vchain_relphase: -1 where the first k-1 controls match, the last does not, target reads 0
    (k>=3); +1 elsewhere."""
    idx = np.arange(2 ** n, dtype=np.int64)
    ok = np.ones(2 ** n, dtype=bool)
    for w, b in zip(ctrl[:-1], bits[:-1]):
        ok &= ((idx >> w) & 1) == b
    ok &= ((idx >> ctrl[-1]) & 1) != bits[-1]
    ok &= ((idx >> target) & 1) == 0
    return np.where(ok, -1.0, 1.0)


# ------------------------------------------------------------------------------------------------
# sparse simulator of flattened gate lists (x, cx, ccx, mcx, u)
# ------------------------------------------------------------------------------------------------

def u_matrix(theta, phi, lam):
    c, s = math.cos(theta / 2), math.sin(theta / 2)
    return np.array([[c, -np.exp(1j * lam) * s], [np.exp(1j * phi) * s, np.exp(1j * (phi + lam)) * c]])


def sparse_apply(gates, idx, amp):
    idx = np.array(idx, dtype=np.int64)
    amp = np.array(amp, dtype=complex)
    one = np.int64(1)
    for name, ws, ps in gates:
        if name == "x":
            idx = idx ^ (one << ws[0])
        elif name in ("cx", "ccx", "mcx"):
            m = np.ones(len(idx), dtype=np.int64)
            for c in ws[:-1]:
                m &= (idx >> c) & 1
            idx = idx ^ (m << ws[-1])
        elif name == "u":
            q = ws[0]
            mat = u_matrix(*ps)
            bit = (idx >> q) & 1
            i0 = idx & ~(one << q)
            i1 = i0 | (one << q)
            nidx = np.concatenate([i0, i1])
            namp = np.concatenate([mat[0, bit] * amp, mat[1, bit] * amp])
            uq, inv = np.unique(nidx, return_inverse=True)
            acc = np.zeros(len(uq), dtype=complex)
            np.add.at(acc, inv, namp)
            keep = np.abs(acc) > 1e-13
            idx, amp = uq[keep], acc[keep]
        else:
            raise RuntimeError(f"sparse simulator: unsupported gate {name}")
    order = np.argsort(idx)
    return idx[order], amp[order]


def to_dict(idx, amp):
    return {int(i): complex(a) for i, a in zip(idx, amp)}


# ------------------------------------------------------------------------------------------------
# oracle evaluations (run in worker processes; return plain tuples)
# ------------------------------------------------------------------------------------------------

def case_key(kind, p, method, extra=""):
    cs = p.get("cs")
    return (f"{kind}:k={p['k']}:t={p.get('t', 1)}:cs={cs}:rp={int(p.get('rp', False))}:{method}" + (":" + extra if extra else ""))


def eval_dense(args):
    """Full Operator of the real definition vs reference permutation."""
    kind, p = args
    from qiskit.quantum_info import Operator
    circ, gates, gerr = gate_list(kind, p)
    key = case_key(kind, p, "operator")
    rep = {"kind": kind, "params": p, "method": "operator"}
    if circ is None:
        return key, "fail", "construction failed on a valid input: " + str(gerr), rep, None
    ctrl, anc, tg = layout(kind, p)
    n = circ.num_qubits
    if n < max(ctrl + anc + tg) + 1:
        return key, "fail", f"definition has {n} qubits, registers need {max(ctrl + anc + tg) + 1}", rep, None
    op = Operator(circ).data
    dest = ref_dest(n, ctrl, pattern_bits(p["k"], p.get("cs")), tg)
    idx = np.arange(2 ** n)
    ent = op[dest, idx].copy()
    rest = op.copy()
    rest[dest, idx] = 0
    off = float(np.abs(rest).max())
    if p.get("rp"):
        err = max(off, float(np.abs(np.abs(ent) - 1).max()))
        detail = f"relative phase: max off-permutation entry {off:.3e}, max ||entry|-1| {float(np.abs(np.abs(ent) - 1).max()):.3e}"
        sign_err = None
        if kind == "vchain" and p["k"] >= 3 and p["t"] == 1:
            # explicit diagonal of the theorem: op = D * P  =>  op[dest[x], x] = D[dest[x]]
            d = relphase_sign(n, ctrl, pattern_bits(p["k"], p.get("cs")), tg[0])
            sign_err = float(np.abs(ent - d[dest]).max())
    else:
        err = max(off, float(np.abs(ent - 1).max()))
        detail = f"max |Operator - permutation| = {err:.3e}"
        sign_err = None
    status = "fail" if err > TOL else "ok"
    return key, status, detail, dict(rep, err=err), {"kind": kind, **p, "qubits": n, "err": err, "sign_err": sign_err}


def eval_sv(args):
    """Random dense states (superposed controls, ancillas, targets) through the real definition."""
    kind, p, seed = args
    from qiskit.quantum_info import Statevector
    circ, gates, gerr = gate_list(kind, p)
    key = case_key(kind, p, "statevector", str(seed))
    rep = {"kind": kind, "params": p, "method": "statevector", "seed": seed}
    if circ is None:
        return key, "fail", "construction failed on a valid input: " + str(gerr), rep, None
    ctrl, anc, tg = layout(kind, p)
    n = circ.num_qubits
    rng = np.random.default_rng(seed)
    v = rng.normal(size=2 ** n) + 1j * rng.normal(size=2 ** n)
    v /= np.linalg.norm(v)
    out = Statevector(v).evolve(circ).data
    dest = ref_dest(n, ctrl, pattern_bits(p["k"], p.get("cs")), tg)
    exp = np.zeros_like(v)
    exp[dest] = v
    if p.get("rp"):
        err = float(np.abs(np.abs(out) - np.abs(exp)).max())
    else:
        err = float(np.abs(out - exp).max())
    status = "fail" if err > TOL else "ok"
    return key, status, f"random state: max amplitude error {err:.3e}", dict(rep, err=err), \
        {"kind": kind, **p, "qubits": n, "err": err, "method": "statevector"}


def make_sparse_input(rng, kind, p, mismatches, n_super):
    """Basis values for controls/targets, ancillas basis or |+>,|->,|+i>.  Returns (idx list, amp list, description)."""
    ctrl, anc, tg = layout(kind, p)
    bits = pattern_bits(p["k"], p.get("cs"))
    wrong = set(rng.sample(range(p["k"]), min(mismatches, p["k"])))
    base = 0
    for i, w in enumerate(ctrl):
        b = bits[i] ^ (1 if i in wrong else 0)
        base |= b << w
    for w in tg:
        base |= rng.randint(0, 1) << w
    sup = rng.sample(anc, min(n_super, len(anc)))
    for w in anc:
        if w not in sup:
            base |= rng.randint(0, 1) << w
    idx, amp = [base], [1.0 + 0j]
    desc = []
    for w in sup:
        ph = rng.choice([1, -1, 1j])
        desc.append([w, str(ph)])
        idx = [i for i in idx] + [i | (1 << w) for i in idx]
        amp = [a / math.sqrt(2) for a in amp] + [a * ph / math.sqrt(2) for a in amp]
    return idx, amp, {"wrong_controls": sorted(wrong), "superposed": desc, "base": base}


def eval_sparse(args):
    kind, p, idx, amp, desc = args
    circ, gates, gerr = gate_list(kind, p)
    key = case_key(kind, p, "sparse", f"{desc['base']:x}-{len(idx)}")
    rep = {"kind": kind, "params": p, "method": "sparse", "idx": [int(i) for i in idx],
           "amp": [[complex(a).real, complex(a).imag] for a in amp], "desc": desc}
    if circ is None:
        return key, "fail", "construction failed on a valid input: " + str(gerr), rep, None
    ctrl, anc, tg = layout(kind, p)
    bits = pattern_bits(p["k"], p.get("cs"))
    oi, oa = sparse_apply(gates, idx, amp)
    got = to_dict(oi, oa)
    tmask = sum(1 << w for w in tg)
    exp = {}
    for i, a in zip(idx, amp):
        ok = all(((i >> w) & 1) == b for w, b in zip(ctrl, bits))
        j = i ^ tmask if ok else i
        exp[j] = exp.get(j, 0) + a
    err = 0.0
    for j in set(got) | set(exp):
        g, e = got.get(j, 0), exp.get(j, 0)
        err = max(err, abs(abs(g) - abs(e)) if p.get("rp") else abs(g - e))
    status = "fail" if err > TOL else "ok"
    return key, status, f"sparse simulation of the real gate list: max amplitude error {err:.3e} ({desc})", \
        dict(rep, err=err), {"kind": kind, **p, "method": "sparse", "terms": len(idx), "err": err, **desc}


EVAL = {"operator": eval_dense, "statevector": eval_sv, "sparse": eval_sparse}


def run_jobs(ctx, jobs):
    """jobs: list of (method, args).  Evaluated in a process pool; results recorded in order."""
    from concurrent.futures import ProcessPoolExecutor
    import multiprocessing as mp
    workers = int(os.environ.get("C05_WORKERS", "8"))
    results = []
    if workers <= 1 or len(jobs) < 4:
        results = [EVAL[m](a) for m, a in jobs]
    else:
        with ProcessPoolExecutor(max_workers=workers, mp_context=mp.get_context("fork")) as ex:
            futs = [ex.submit(EVAL[m], a) for m, a in jobs]
            results = [f.result() for f in futs]
    for (m, a), (key, status, detail, rep, sample) in zip(jobs, results):
        p = a[1]
        ctx.count(f"{a[0]}:{m}:" + ("rp" if p.get("rp") else "exact"))
        if status == "ok":
            ctx.ok(key, nontrivial=p["k"] >= 2, sample=sample)
            if sample and sample.get("sign_err") is not None:
                ctx.assumption_checks += 1
                if sample["sign_err"] > TOL:
                    # the property (unit-modulus diagonal) holds; what broke is the agreement of the code's
                    # diagonal with the explicit +-1 formula of C05_vchain_relphase: an obligation, not a failing input
                    msg = (f"{key}: the real diagonal differs from the theorem's explicit signs (relSign) by "
                           f"{sample['sign_err']:.3e}")
                    if hasattr(ctx, "obligation_broken"):
                        ctx.obligation_broken("relphase diagonal of the code = relSign of C05_vchain_relphase", msg)
                    else:
                        ctx.notes.append("BROKEN: " + msg)
        else:
            ctx.fail(key, detail, rep)


# ------------------------------------------------------------------------------------------------
# K4 assumptions
# ------------------------------------------------------------------------------------------------

def assumptions(ctx):
    from qiskit import QuantumCircuit
    from qiskit.circuit.library import UGate, CXGate, CCXGate, C3XGate, C4XGate
    from qiskit.quantum_info import Operator
    from qclib.gates.toffoli import Toffoli
    from flatten import flatten

    def chk(name, ok, detail=""):
        ctx.assumption_checks += 1
        if not ok:
            ctx.fail("assumption:" + name, detail or name,
                     {"kind": "assumption", "method": "assumption", "params": {"name": name},
                      "call": "qiskit gate matrices / Operator(qclib.gates.toffoli.Toffoli().definition) vs Sem/Denote.lean"},
                     kind="assumption")

    for th in (math.pi / 4, -math.pi / 4, 0.3):
        c, s = math.cos(th / 2), math.sin(th / 2)
        chk("u-matrix", np.abs(UGate(th, 0.0, 0.0).to_matrix() - np.array([[c, -s], [s, c]])).max() < 1e-12, f"UGate({th},0,0)")
    chk("u-matrix-general", np.abs(UGate(0.7, -0.4, 1.9).to_matrix() - u_matrix(0.7, -0.4, 1.9)).max() < 1e-12)
    for nc, g in ((1, CXGate()), (2, CCXGate()), (3, C3XGate()), (4, C4XGate())):
        n = nc + 1
        dest = ref_dest(n, list(range(nc)), [1] * nc, [nc])
        m = np.zeros((2 ** n, 2 ** n))
        m[dest, np.arange(2 ** n)] = 1
        chk(f"c{nc}x-matrix", np.abs(Operator(g).data - m).max() < 1e-9, f"{g.name} is not the little-endian MCX permutation")
        qc = QuantumCircuit(n)
        qc.mcx(list(range(nc)), nc, mode="noancilla")
        fl = flatten(qc)
        want = {1: "cx", 2: "ccx", 3: "mcx", 4: "mcx"}[nc]
        chk(f"mcx-noancilla-{nc}", len(fl) == 1 and fl[0][0] == want and fl[0][1] == list(range(n))
            and np.abs(Operator(qc).data - m).max() < 1e-9, f"mcx(noancilla) with {nc} controls flattened to {fl}")
    # relative-phase Toffoli = c1 ? (c0 ? X : -Z) : I   (index = c0 + 2 c1 + 4 t)
    m = np.eye(8)
    m[2, 2] = -1
    m[3, 3] = m[7, 7] = 0
    m[3, 7] = m[7, 3] = 1
    chk("toffoli-relphase-matrix", np.abs(Operator(Toffoli().definition).data - m).max() < 1e-9,
        "Toffoli() is not c1 ? (c0 ? X : -Z) : I")
    # self-check of the sparse simulator against qiskit (harness sanity, not a property)
    from qiskit.quantum_info import Statevector
    try:
        circ = build_vchain(4, 2, "0110", False, False)
    except Exception:       # reported as a construction failure by the tie / oracle below
        return
    gates = flatten(circ)
    n = circ.num_qubits
    rng = np.random.default_rng(5)
    v = rng.normal(size=2 ** n) + 1j * rng.normal(size=2 ** n)
    oi, oa = sparse_apply(gates, list(range(2 ** n)), list(v))
    out = np.zeros(2 ** n, dtype=complex)
    out[oi] = oa
    if np.abs(out - Statevector(v).evolve(circ).data).max() > 1e-10:
        raise RuntimeError("sparse simulator disagrees with qiskit Statevector (harness bug)")


def toffoli_entry(ctx):
    """The static `Toffoli.ccx(circuit, controls=None, target=None, cancel=None)`: without controls/target it acts on the
    circuit's first three qubits, otherwise on [*controls, target]; every `cancel` option.  Tie: natural placement against
    the model's gate list; oracle: any placement against the definition composed onto the same qubits."""
    from qiskit import QuantumCircuit
    from qiskit.quantum_info import Operator
    from qclib.gates.toffoli import Toffoli
    from flatten import flatten, to_lines
    r = ctx.rng
    for cancel in (None, "left", "right"):
        # `controls is None or target is None`: both missing, both given, and each disjunct alone (boundary pass): a
        # single missing argument falls back to the first three qubits, as the code defines
        for mode in ("default", "explicit", "placed", "only-controls", "only-target"):
            n = 3 if mode == "explicit" else r.randint(4, 5)
            key = f"toffoli.ccx:cancel={cancel}:{mode}"
            rep = {"kind": "toffoli.ccx", "method": "entry", "params": {"cancel": cancel, "mode": mode}}
            try:
                qc = QuantumCircuit(n)
                if mode == "default":
                    where = [0, 1, 2]
                    Toffoli.ccx(qc) if cancel is None else Toffoli.ccx(qc, cancel=cancel)
                elif mode == "explicit":
                    where = [0, 1, 2]
                    Toffoli.ccx(qc, [qc.qubits[0], qc.qubits[1]], qc.qubits[2], cancel)
                elif mode == "only-controls":
                    where = [0, 1, 2]
                    ctx.count("boundary:Toffoli.ccx:one argument missing")
                    Toffoli.ccx(qc, controls=[n - 1, n - 2], cancel=cancel)
                elif mode == "only-target":
                    where = [0, 1, 2]
                    ctx.count("boundary:Toffoli.ccx:one argument missing")
                    Toffoli.ccx(qc, target=n - 1, cancel=cancel)
                else:
                    where = r.sample(range(n), 3)
                    Toffoli.ccx(qc, controls=where[:2], target=where[2], cancel=cancel)
                got = Operator(qc).data
                lines = to_lines(flatten(qc))
            except Exception as e:
                ctx.fail(key + ":raises", f"Toffoli.ccx(..., cancel={cancel!r}) [{mode}] raised {type(e).__name__}: {str(e)[:160]}", rep)
                continue
            ctx.count("branch:Toffoli.ccx:" + ("no-controls" if mode == "default" else "controls-given"))
            if mode != "placed":
                ctx.tie({"op": "toffoli", "cancel": cancel or "none"}, lines)
            ref = QuantumCircuit(n)
            ref.compose(Toffoli(cancel).definition, qubits=where, inplace=True)
            err = float(np.abs(got - Operator(ref).data).max())
            if err > TOL:
                ctx.fail(key, f"max |Operator(circuit) - Toffoli(cancel={cancel!r}) on qubits {where}| = {err:.3e}",
                         dict(rep, where=where))
            else:
                ctx.ok(key, nontrivial=True)


# ------------------------------------------------------------------------------------------------
# case generation
# ------------------------------------------------------------------------------------------------

def patterns(ctx, k, full_upto, n_random):
    """None, all strings of length k (k <= full_upto) or all-ones/all-zeros/one-zero + random ones."""
    if k <= full_upto:
        return [None] + ["".join(s) for s in itertools.product("01", repeat=k)]
    out = [None, "1" * k, "0" * k, "1" * (k - 1) + "0", "0" + "1" * (k - 1)]
    while len(out) < 5 + n_random:
        s = "".join(ctx.rng.choice("01") for _ in range(k))
        if s not in out:
            out.append(s)
    return out


def tie_case(ctx, kind, p):
    from flatten import to_lines
    circ, gates, gerr = gate_list(kind, p)
    op = {"op": kind, "k": p["k"], "ao": p["ao"]}
    if kind == "vchain":
        op.update(t=p["t"], rp=p["rp"])
    if p.get("cs") is not None:
        op["cs"] = p["cs"]
    if gerr is not None and gerr != "reject":
        # "construction never fails": an exception on a valid input is a failing input of the property
        ctx.fail(case_key(kind, p, "construct"), "qclib raised while building the definition: " + gerr,
                 {"kind": kind, "params": p, "method": "construct"})
        ctx.tie(op, ["EXCEPTION ; " + gerr.split(":")[0]])
        return
    ctx.tie(op, ["REJECT"] if circ is None else to_lines(gates))
    ctx.count(f"tie:{kind}:" + ("reject" if circ is None else "k=%d" % p["k"]))


# ------------------------------------------------------------------------------------------------
# boundary-value pass (sizes next to every comparison of mcx.py)
# ------------------------------------------------------------------------------------------------
#   McxVchainDirty  num_controls - 2 > 0; num_ctrl == 2 / == 1; `not relative_phase and num_ctrl == 3 and num_target < 2`
#                   (k = 2, 3, 4 x t = 1, 2 x rp: tie k <= 7 all combinations, dense oracle k <= 5);  i < num_ctrl - 2;
#                   toffoli_multi_target range(num_targets - 1) with 1, 2, 3 targets
#                   -> here: t = 2, 3 beyond the dense cap (k = 6..9, sparse), gate lists for k = 8, 9
#   LinearMcx       num_qubits < 5 / == 5 / == 6 / == 7 / else, k_2 = ceil(nq / 2), k_1 = k - k_2 + 1 (odd / even nq)
#                   -> k = 1..10 tied, operator k <= 7, random state k = 8, 9, sparse k = 10, 11, 14, 17 (run); here k = 12, 13
#                      sparse so that (k_1, k_2) = (5, 7), (6, 7), (6, 8) follow (3, 4) .. (5, 6) without a gap

def boundary_jobs(ctx):
    r = ctx.rng
    jobs = []

    def mixed(k):
        return "".join("10"[(k - 1 - j) % 2] for j in range(k))

    for k in (8, 9):
        for t in (1, 2, 3):
            for rp in (False, True):
                for ao in (False, True):
                    for cs in (None, mixed(k)):
                        ctx.count("boundary:vchain gate list k=8,9")
                        tie_case(ctx, "vchain", dict(k=k, t=t, cs=cs, rp=rp, ao=ao))
    for k in (11, 12, 13):
        for ao in (False, True):
            for cs in (None, mixed(k)):
                ctx.count("boundary:linear gate list k=11..13")
                tie_case(ctx, "linear", dict(k=k, cs=cs, ao=ao))
    for k in (5, 6, 7, 8, 9):
        for t in (2, 3):
            if k + max(k - 2, 0) + t <= DENSE_SV_MAX:
                continue                      # dense oracle of run()
            for cs in (None, mixed(k)):
                p = dict(k=k, t=t, cs=cs, rp=False, ao=False)
                for mism, nsup in ((0, 0), (0, 4), (1, 3), (2, 2), (1, 0)):
                    ctx.count("boundary:vchain t=2,3 beyond the dense cap")
                    idx, amp, desc = make_sparse_input(r, "vchain", p, mism, nsup)
                    jobs.append(("sparse", ("vchain", p, idx, amp, desc)))
    for k in (12, 13):
        for cs in (None, mixed(k)):
            p = dict(k=k, cs=cs, ao=False)
            for mism, nsup in ((0, 0), (0, 1), (1, 1), (1, 0), (2, 0)):
                ctx.count("boundary:linear k=12,13")
                idx, amp, desc = make_sparse_input(r, "linear", p, mism, nsup)
                jobs.append(("sparse", ("linear", p, idx, amp, desc)))
    return jobs


# ================================================================================================
# input-diversity pass (forms of otherwise ordinary inputs)
# ================================================================================================
# form x entry point -> where generated (all in `diversity_cases`, evaluated by `div_eval`, both tiers)
#   entry points: V = McxVchainDirty(...) gate object, L = LinearMcx(...) gate object, T = Toffoli(...) gate object,
#                 Tc = static Toffoli.ccx(circuit, controls, target, cancel),
#                 Vs / Ls = static McxVchainDirty.mcx_vchain_dirty / LinearMcx.mcx (raise on EVERY call on the unchanged tree:
#                 known findings K-C15-1 / K-C15-2, probed by C15; here `static_mcx_helpers` calls them with every keyword
#                 set and evaluates the host permutation as soon as a call succeeds, otherwise counts the exception)
#   1 element types    num_controls / num_target_qubit as int, bool (True = 1), numpy.int64 (qiskit's Gate rejects it:
#                      counted as unsupported form) : V L `ktype`;  ctrl_state None / str / all-ones / all-zeros / mixed /
#                      list and tuple of '0','1' characters (accepted by the code: same observable) / int (unsupported:
#                      TypeError at definition time) : V L `cstype`;  qubit indices int / numpy.int64 / Qubit / mixed : V L T Tc
#   2 scale structure  not applicable to integer inputs; the analogue "borrowed-ancilla input states": ancillae |0..0>,
#   3 sign / phase     |1..1>, products of |+>,|->,|+i>, GHZ on the ancillae with phase -1 / i, ancillae entangled with
#                      the controls (matching branch / mismatching branch) with phase -1 / i : `div_states`, sparse
#                      simulation of the flattened HOST circuit, every V / L case with a borrowed qubit; plus the full host
#                      Operator (<= 9 qubits) or a random dense host state (10, 11 qubits), which cover every input state
#   4 call forms       constructor positional / all keywords / only the non-default keywords; every flag at once
#                      (ctrl_state with zeros + relative_phase + action_only + 2 targets: tie only, outside the property)
#                      and one at a time : V L T;  host larger than the gate, qubit list non-ascending / non-contiguous /
#                      interleaved (flat host) or host built from registers c, a, t, i declared in 5 orders with permuted
#                      indices inside each register; qargs as ints, numpy ints, Qubit objects, mixed : V L T Tc;
#                      Tc additionally: controls as list / tuple / QuantumRegister / reversed register slice, target as
#                      int / Qubit / one-element list / one-element register, cancel positional / keyword;
#                      same gate object appended twice; gate.copy() taken before .definition is read, both used on
#                      different qubit lists; gate.inverse(); compose(gate.definition, qubits=...), definition.to_gate(),
#                      definition.to_instruction() : V L T;  action_only: `chain ; mid ; chain.inverse()` = MCX ; mid ; MCX
#                      (C05_action_only_bracket) and the structure of the leftover relabelling S = U * MCX
#                      (C05_vchain_action_only / C05_linear_action_only: signed permutation, involution, identity on the
#                      last control, the targets and every idle wire; moves only borrowed qubits) : V L
#                      NOT generated: ancilla lists longer / shorter than needed, targets as one Qubit vs list - these are
#                      parameters of Vs / Ls only, which cannot be called successfully (see above)
#   5 sizes            V: k = 1..5 x t = 1, 2, 3 x rp x ao, each with a call form / host / qubit form drawn in rotation
#                      (3-control shortcut k = 3, t = 1 vs t = 2; k = 2, 1 special cases); L: k = 1..8 (branches < 5, 5, 6, 7
#                      qubits, first splits k = 6, 7, 8) x ao
#   tie: the flattened HOST circuit with the host wires mapped back to the gate's own wires is registered with the same
#   op as the bare definition (single-gate uses: append / compose / to_gate / to_instruction); every other use and the
#   element-type / register forms are oracle only (the Lean model has no notion of a host, a copy or a Python type).

DIV_OP_MAX = 8          # full Operator of the host (0.5 s per 9-qubit LinearMcx host: too slow for a few hundred cases)
DIV_AO_OP_MAX = 9       # action_only checks need the Operator
DIV_SV_MAX = 11         # random dense host state
DIV_ORDERS = ("cati", "tcai", "aitc", "itac", "ctia")
DIV_USES = ("append", "twice", "copy", "inverse", "compose", "to_gate", "to_instruction")
DIV_QFORMS = ("int", "qubit", "mixed", "npint")
DIV_CTORS = ("positional", "keyword", "minimal")


def div_roles(gate, p):
    if gate == "vchain":
        return "c" * p["k"] + "a" * max(p["k"] - 2, 0) + "t" * p["t"]
    if gate == "linear":
        return "c" * p["k"] + "t" + "a"
    return "cct"


def div_host(r, roles, style, order, n_idle):
    """host spec ([[register name, size], ...]) and placement ([[register name, index], ...] per local wire)."""
    m = len(roles)
    if style == "natural":
        return [["q", m]], [["q", i] for i in range(m)]
    if style == "flat":
        n = m + n_idle
        place = r.sample(range(n), m)
        if place == sorted(place):
            place = place[::-1]
        return [["q", n]], [["q", i] for i in place]
    sizes = {ch: roles.count(ch) for ch in "cat"}
    sizes["i"] = n_idle
    host = [[ch, sizes[ch]] for ch in order if sizes[ch] > 0]
    perm = {}
    for ch in "cat":
        q = list(range(sizes[ch]))
        r.shuffle(q)
        if len(q) >= 2 and q == sorted(q):
            q = q[::-1]
        perm[ch] = q
    seen = {ch: 0 for ch in "cat"}
    place = []
    for ch in roles:
        place.append([ch, perm[ch][seen[ch]]])
        seen[ch] += 1
    return host, place


def div_wires(case, place=None):
    off, o = {}, 0
    for nm, sz in case["host"]:
        off[nm] = o
        o += sz
    return [off[nm] + i for nm, i in (case["place"] if place is None else place)], o


def div_split(gate, p, wires):
    k = p["k"] if gate != "toffoli" else 2
    if gate == "vchain":
        na = max(k - 2, 0)
        return wires[:k], wires[k:k + na], wires[k + na:]
    if gate == "linear":
        return wires[:k], [wires[k + 1]], [wires[k]]
    return wires[:2], [], [wires[2]]


def div_states(r, n, ctrl, anc, tg, bits):
    """Sparse input states of the host: borrowed qubits in every kind of state, controls matching or not, idle wires and
    targets random basis values.  [[name, [[index, re, im], ...]], ...]"""
    used = set(ctrl + anc + tg)
    idle = [w for w in range(n) if w not in used]
    amask = sum(1 << w for w in anc)

    def base(match, anc_bits=None):
        b = 0
        wrong = set() if match else {r.randrange(len(ctrl))}
        for i, w in enumerate(ctrl):
            b |= (bits[i] ^ (1 if i in wrong else 0)) << w
        for w in tg + idle:
            b |= r.randint(0, 1) << w
        if anc_bits is None:
            for w in anc:
                b |= r.randint(0, 1) << w
        elif anc_bits:
            b |= amask
        return b

    s2 = 1 / math.sqrt(2)
    out = []
    for match in (True, False):
        tag = "match" if match else "mismatch"
        out.append([f"anc-zeros:{tag}", [[base(match, 0), 1.0, 0.0]]])
        if anc:
            out.append([f"anc-ones:{tag}", [[base(match, 1), 1.0, 0.0]]])
            ph = r.choice([-1, 1j, -1j])
            b0 = base(match, 0)
            out.append([f"anc-ghz-phase:{tag}", [[b0, s2, 0.0], [b0 | amask, s2 * ph.real, s2 * ph.imag]]])
            terms = [[base(match, 0), 1.0 + 0j]]
            for w in anc[:4]:
                ph = r.choice([1, -1, 1j])
                terms = [[i, a * s2] for i, a in terms] + [[i | (1 << w), a * ph * s2] for i, a in terms]
            out.append([f"anc-product-phases:{tag}", [[i, a.real, a.imag] for i, a in terms]])
    if anc:
        # borrowed qubits entangled with the controls: matching controls with ancillae 0..0, one wrong control with 1..1
        ph = r.choice([-1, 1j])
        b0 = base(True, 0)
        j = r.randrange(len(ctrl))
        b1 = (b0 ^ (1 << ctrl[j])) | amask
        out.append(["anc-entangled-with-controls", [[b0, s2, 0.0], [b1, s2 * ph.real, s2 * ph.imag]]])
    return out


def div_case(r, gate, p, use="append", ctor="positional", ktype="int", cstype="str", style="flat", order="cati",
             qform="int", n_idle=None, flagtype="bool"):
    roles = div_roles(gate, p)
    if n_idle is None:
        n_idle = 0 if style == "natural" or (p.get("ao") and len(roles) >= 8) else (1 if len(roles) >= 7 else 2)
    host, place = div_host(r, roles, style, order, n_idle)
    case = {"gate": gate, "p": p, "use": use, "ctor": ctor, "ktype": ktype, "cstype": cstype, "style": style,
            "order": order, "qform": qform, "host": host, "place": place, "seed": r.getrandbits(31)}
    if flagtype != "bool":
        case["flagtype"] = flagtype
    wires, n = div_wires(case)
    if use == "copy":
        # the copy goes onto a different qubit list: controls rotated by one (k >= 2), else targets / whole list reversed
        nc = len(div_split(gate, p, wires)[0])
        case["place2"] = (place[1:nc] + place[:1] + place[nc:]) if nc >= 2 else place
    if gate != "toffoli" and not p.get("ao"):
        ctrl, anc, tg = div_split(gate, p, wires)
        case["states"] = div_states(r, n, ctrl, anc, tg, pattern_bits(p["k"], p.get("cs")))
    return case


def div_key(case):
    p = case["p"]
    if case["gate"] == "toffoli":
        head = f"div:toffoli:cancel={p.get('cancel')}"
    else:
        head = (f"div:{case['gate']}:k={p['k']}:t={p.get('t', 1)}:cs={p.get('cs')}:rp={int(p.get('rp', False))}:"
                f"ao={int(p.get('ao', False))}")
    return (f"{head}:{case['use']}:{case['ctor']}:{case['ktype']}/{case['cstype']}:{case['style']}/{case['order']}:"
            f"{case['qform']}:{case.get('cform', '-')}" + (":flags=" + case["flagtype"] if case.get("flagtype") else ""))


def div_make_gate(case):
    from qclib.gates.mcx import McxVchainDirty, LinearMcx
    from qclib.gates.toffoli import Toffoli
    p, ctor = case["p"], case["ctor"]
    if case["gate"] == "toffoli":
        if ctor == "minimal" and p.get("cancel") is None:
            return Toffoli()
        return Toffoli(p.get("cancel")) if ctor == "positional" else Toffoli(cancel=p.get("cancel"))
    conv = {"int": int, "bool": bool, "np.int64": np.int64}[case["ktype"]]
    k = conv(p["k"])
    cs = p.get("cs")
    if cs is not None:
        cs = {"str": str, "list": list, "tuple": tuple, "int": lambda s: int(s, 2),
              "np.int64": lambda s: np.int64(int(s, 2))}[case["cstype"]](cs)
    # a flag that is truthy / falsy without being the singleton True / False (what a numpy comparison or an int gives)
    flag = {"bool": bool, "np.bool_": np.bool_, "int": int}[case.get("flagtype", "bool")]
    if case["gate"] == "vchain":
        t = conv(p["t"])
        if ctor == "positional":
            return McxVchainDirty(k, t, cs, flag(p["rp"]), flag(p["ao"]))
        if ctor == "keyword":
            return McxVchainDirty(action_only=flag(p["ao"]), relative_phase=flag(p["rp"]), ctrl_state=cs, num_target_qubit=t,
                                  num_controls=k)
        kw = {}
        if p["t"] != 1:
            kw["num_target_qubit"] = t
        if cs is not None:
            kw["ctrl_state"] = cs
        if p["rp"]:
            kw["relative_phase"] = flag(True)
        if p["ao"]:
            kw["action_only"] = flag(True)
        return McxVchainDirty(k, **kw)
    if ctor == "positional":
        return LinearMcx(k, cs, flag(p["ao"]))
    if ctor == "keyword":
        return LinearMcx(action_only=flag(p["ao"]), ctrl_state=cs, num_controls=k)
    kw = {}
    if cs is not None:
        kw["ctrl_state"] = cs
    if p["ao"]:
        kw["action_only"] = flag(True)
    return LinearMcx(k, **kw)


def div_qargs(case, host, regs, place):
    """The qubit list in the form the case asks for."""
    wires, _ = div_wires(case, place)
    out = []
    for j, ((nm, i), w) in enumerate(zip(place, wires)):
        form = case["qform"]
        if form == "mixed":
            form = ("int", "qubit", "npint")[j % 3]
        out.append(w if form == "int" else np.int64(w) if form == "npint" else regs[nm][i])
    return out


CCX_CONTROL_FORMS = ("list-int", "tuple-int", "list-npint", "list-qubit", "tuple-qubit", "mixed", "register",
                     "register-reversed-slice")
CCX_TARGET_FORMS = ("int", "npint", "qubit", "list1", "register1")
CCX_ARG_FORMS = ("positional", "keyword", "mixed", "cancel-omitted")


def div_call_ccx(case, host, regs, wires):
    """static Toffoli.ccx(circuit, controls, target, cancel) with the controls / target / arguments in the form case['cform']"""
    from qclib.gates.toffoli import Toffoli
    cf, tf, af = case["cform"].split("/")
    (n0, i0), (n1, i1), (nt, it) = case["place"]
    q = [regs[n0][i0], regs[n1][i1]]
    if cf == "list-int":
        controls = [wires[0], wires[1]]
    elif cf == "tuple-int":
        controls = (wires[0], wires[1])
    elif cf == "list-npint":
        controls = [np.int64(wires[0]), np.int64(wires[1])]
    elif cf == "list-qubit":
        controls = q
    elif cf == "tuple-qubit":
        controls = tuple(q)
    elif cf == "mixed":
        controls = [wires[0], q[1]]
    elif cf == "register":
        controls = regs["c"]
    elif cf == "register-reversed-slice":
        controls = regs["c"][::-1]
    else:
        raise RuntimeError("harness: controls form " + cf)
    target = {"int": wires[2], "npint": np.int64(wires[2]), "qubit": regs[nt][it], "list1": [wires[2]],
              "register1": regs[nt]}[tf]
    cancel = case["p"].get("cancel")
    if af == "positional":
        Toffoli.ccx(host, controls, target, cancel)
    elif af == "keyword":
        Toffoli.ccx(cancel=cancel, target=target, controls=controls, circuit=host)
    elif af == "mixed":
        Toffoli.ccx(host, controls, cancel=cancel, target=target)
    elif af == "cancel-omitted":             # only generated for cancel = None
        Toffoli.ccx(host, controls, target)
    else:
        raise RuntimeError("harness: argument form " + af)


def toffoli_ccx_cases(ctx):
    """Static Toffoli.ccx on hosts larger than three qubits: every controls form x target form x argument form in
    rotation over cancel = None / left / right, flat hosts (non-ascending, non-contiguous) and register hosts in every
    declaration order."""
    r = ctx.rng
    cases = []
    i = r.randrange(120)
    for cancel in (None, "left", "right"):
        for cf in CCX_CONTROL_FORMS:
            for rep_ in range(3):
                i += 1
                tf = CCX_TARGET_FORMS[i % 5]
                af = CCX_ARG_FORMS[(i // 2) % (4 if cancel is None else 3)]
                regs_needed = cf.startswith("register") or tf == "register1"
                style = "regs" if regs_needed or i % 2 else "flat"
                case = div_case(r, "toffoli", dict(cancel=cancel), use="ccx", style=style, order=DIV_ORDERS[i % 5],
                                qform="-", n_idle=r.choice((1, 2, 3)))
                if cf == "register":
                    case["place"][0], case["place"][1] = ["c", 0], ["c", 1]
                elif cf == "register-reversed-slice":
                    case["place"][0], case["place"][1] = ["c", 1], ["c", 0]
                case["cform"] = f"{cf}/{tf}/{af}"
                ctx.count("diversity:Toffoli.ccx:controls " + cf)
                ctx.count("diversity:Toffoli.ccx:target " + tf)
                ctx.count("diversity:Toffoli.ccx:arguments " + af)
                cases.append(case)
    return cases


def static_mcx_helpers(ctx):
    """McxVchainDirty.mcx_vchain_dirty / LinearMcx.mcx (static append helpers).  On the unchanged tree EVERY call raises
    (known findings K-C15-1 / K-C15-2 of property C15: the helpers have no parameter for the borrowed qubits and hand their
    arguments to the constructor one position too early), so no host placement can be observed through them; each call
    form is made anyway - by keyword, found by name in the helper's signature - and evaluated against the host permutation
    as soon as a call succeeds (a repaired helper is then checked on non-ascending, non-contiguous qubit lists)."""
    import inspect
    from qiskit import QuantumCircuit
    from qiskit.quantum_info import Operator
    from qclib.gates.mcx import McxVchainDirty, LinearMcx
    r = ctx.rng
    for name, fn, kind in (("McxVchainDirty.mcx_vchain_dirty", McxVchainDirty.mcx_vchain_dirty, "vchain"),
                           ("LinearMcx.mcx", LinearMcx.mcx, "linear")):
        params = list(inspect.signature(fn).parameters)
        anc_par = next((a for a in params if a.startswith("ancil")), None)
        tg_par = "targets" if "targets" in params else "target"
        for k in (1, 2, 3, 4):
            for form in ("defaults", "every-keyword", "qubit-objects"):
                na = (max(k - 2, 0) if kind == "vchain" else 1)
                n = k + na + 1 + 2
                where = r.sample(range(n), k + na + 1)
                ctrl, anc, tg = where[:k], where[k:k + na], where[k + na:]
                cs = None if form == "defaults" else "".join(r.choice("01") for _ in range(k - 1)) + "0"
                host = QuantumCircuit(n)
                conv = (lambda w: host.qubits[w]) if form == "qubit-objects" else (lambda w: w)
                kw = {"controls": [conv(w) for w in ctrl], tg_par: [conv(w) for w in tg] if tg_par == "targets" else conv(tg[0])}
                if anc_par is not None:
                    kw[anc_par] = [conv(w) for w in anc] if (kind == "vchain" or anc_par.endswith("e") or
                                                              anc_par.endswith("s")) else conv(anc[0])
                if form != "defaults":
                    kw["ctrl_state"] = cs
                rp = False
                if form == "every-keyword" and "relative_phase" in params and k >= 3:
                    kw["relative_phase"] = rp = True
                tag = f"diversity:static:{name}:{form}"
                key = f"div:static:{name}:k={k}:{form}:cs={cs}"
                rep = {"kind": "diversity", "method": "diversity-static", "params": {"k": k}}
                try:
                    fn(host, **kw)
                    op = Operator(host).data
                except Exception as e:
                    ctx.count(f"{tag}:raises-{type(e).__name__} (known finding K-C15-{1 if kind == 'linear' else 2}, probed by C15)")
                    continue
                if anc_par is None and na and kind == "linear":
                    ctx.count(tag + ":succeeded-without-an-ancilla-argument (not evaluated)")
                    continue
                dest = ref_dest(n, ctrl, pattern_bits(k, cs), tg)
                idx = np.arange(2 ** n)
                ent = op[dest, idx].copy()
                op[dest, idx] = 0
                err = max(float(np.abs(op).max()), float(np.abs(np.abs(ent) - 1).max() if rp else np.abs(ent - 1).max()))
                ctx.count(tag + ":evaluated")
                if err > TOL:
                    ctx.fail(key, f"{name}(host of {n} qubits, controls {ctrl}, ancillae {anc}, target {tg}, ctrl_state "
                                  f"{cs!r}): max deviation from the host permutation {err:.3e}", rep)
                else:
                    ctx.ok(key, nontrivial=k >= 2)


def run_diversity(ctx):
    from concurrent.futures import ProcessPoolExecutor
    import multiprocessing as mp
    static_mcx_helpers(ctx)
    cases = diversity_cases(ctx) + toffoli_ccx_cases(ctx)
    workers = int(os.environ.get("C05_WORKERS", "8"))
    if workers <= 1:
        results = [div_eval(c) for c in cases]
    else:
        with ProcessPoolExecutor(max_workers=workers, mp_context=mp.get_context("fork")) as ex:
            results = list(ex.map(div_eval, cases, chunksize=8))
    for case, res in zip(cases, results):
        div_record(ctx, case, res)


def embed(mat, wires, n):
    """mat (2^m x 2^m, local bit j = wire wires[j]) on an n-qubit host, identity elsewhere."""
    idx = np.arange(2 ** n, dtype=np.int64)
    loc = np.zeros(2 ** n, dtype=np.int64)
    for j, w in enumerate(wires):
        loc |= ((idx >> w) & 1) << j
    rest = idx & ~np.int64(sum(1 << w for w in wires))
    full = np.zeros((2 ** n, 2 ** n), dtype=complex)
    for lo in range(2 ** len(wires)):
        dst = rest.copy()
        for j, w in enumerate(wires):
            dst |= np.int64(((lo >> j) & 1) << w)
        full[dst, idx] = mat[lo, loc]
    return full


def toffoli_ref(cancel):
    """8 x 8 matrix of the relative-phase Toffoli (halves for cancel = 'left' / 'right') from the documented gate list
    u(-pi/4) t, cx c0 t, u(-pi/4) t | cx c1 t | u(pi/4) t, cx c0 t, u(pi/4) t  (wires c0 = 0, c1 = 1, t = 2), numpy only."""
    cx = np.array([[1, 0, 0, 0], [0, 0, 0, 1], [0, 0, 1, 0], [0, 1, 0, 0]], dtype=complex)   # local bit 0 = control
    th = math.pi / 4

    def u(a):
        return embed(u_matrix(a, 0.0, 0.0), [2], 3)

    seq = []
    if cancel != "left":
        seq += [u(-th), embed(cx, [0, 2], 3), u(-th)]
    seq.append(embed(cx, [1, 2], 3))
    if cancel != "right":
        seq += [u(th), embed(cx, [0, 2], 3), u(th)]
    m = np.eye(8, dtype=complex)
    for g in seq:
        m = g @ m
    return m


def mono_ideal(n, gate, p, wires):
    """(dest, coeff, sign_known): the gate on the host is x -> coeff[x] |dest[x]>; coeff is all ones for the exact gates,
    the explicit +-1 diagonal of C05_vchain_relphase where it is known (k >= 3, one target)."""
    ctrl, anc, tg = div_split(gate, p, wires)
    bits = pattern_bits(p["k"], p.get("cs"))
    dest = ref_dest(n, ctrl, bits, tg)
    coeff = np.ones(2 ** n, dtype=complex)
    known = True
    if p.get("rp"):
        if p["k"] >= 3 and len(tg) == 1:
            coeff = relphase_sign(n, ctrl, bits, tg[0])[dest].astype(complex)
        else:
            known = False
    return dest, coeff, known


def mono_then(m1, m2):
    d1, c1, k1 = m1
    d2, c2, k2 = m2
    return d2[d1], c1 * c2[d1], k1 and k2


def mono_inv(m):
    d, c, k = m
    inv = np.empty_like(d)
    inv[d] = np.arange(len(d))
    ci = np.empty_like(c)
    ci[d] = np.conj(c)
    return inv, ci, k


def div_ao_structure(gate, p, n, wires, op):
    """C05_vchain_action_only / C05_linear_action_only on the host: U = S * MCX with S a signed permutation, an
    involution, acting as the identity on every free wire, its permutation part changing only borrowed qubits (V-chain)."""
    ctrl, anc, tg = div_split(gate, p, wires)
    dest = ref_dest(n, ctrl, pattern_bits(p["k"], p.get("cs")), tg)
    s = op[:, dest]                     # S e_x = U e_{dest[x]}   (MCX is an involution)
    idx = np.arange(2 ** n, dtype=np.int64)
    pi = np.abs(s).argmax(axis=0).astype(np.int64)
    sg = s[pi, idx]
    rest = s.copy()
    rest[pi, idx] = 0
    err = max(float(np.abs(rest).max()), float(np.abs(np.abs(sg) - 1).max()), float(np.abs(sg.imag).max()))
    if err > TOL:
        return f"S = U * MCX is not a signed permutation (deviation {err:.3e})"
    if not (np.array_equal(pi[pi], idx) and float(np.abs(sg * sg[pi] - 1).max()) < TOL):
        return "S = U * MCX is not an involution"
    if gate == "vchain":
        touch = set(ctrl[:-1]) | set(anc)
        amask = np.int64(sum(1 << w for w in anc))
        if np.any((pi ^ idx) & ~amask):
            return "the permutation part of S changes a wire that is not a borrowed qubit"
    else:
        touch = set(ctrl)
    for q in range(n):
        if q in touch:
            continue
        b = np.int64(1 << q)
        if not (np.array_equal(pi[idx ^ b], pi ^ b) and float(np.abs(sg[idx ^ b] - sg).max()) < TOL):
            return f"S depends on / acts on the free wire {q}"
    return None


def div_back_lines(gates, wires):
    """Gate list of the host with the host wires mapped back to the gate's own wires (a gate that landed on a host wire
    outside the qubit list keeps a label `host<w>`, which no model line contains)."""
    from flatten import to_lines
    back = {w: j for j, w in enumerate(wires)}
    return to_lines([(nm, [back.get(w, f"host{w}") for w in ws], ps) for nm, ws, ps in gates])


def div_eval(case):
    """One diversity case on the real code -> (key, status, detail, replay, extra).  status: ok | fail | unsupported."""
    from qiskit import QuantumCircuit, QuantumRegister
    from qiskit.quantum_info import Operator, Statevector
    from flatten import flatten, to_lines
    gate, p, use = case["gate"], case["p"], case["use"]
    key = div_key(case)
    rep = {"kind": "diversity", "method": "diversity", "params": p, "case": case}
    wires, n = div_wires(case)
    unsupported = case["ktype"] == "np.int64" or case["cstype"] == "int"
    tie = None
    try:
        regs = {nm: QuantumRegister(sz, nm) for nm, sz in case["host"]}
        host = QuantumCircuit(*[regs[nm] for nm, _ in case["host"]])
        g = div_make_gate(case)
        qargs = div_qargs(case, host, regs, case["place"])
        if use == "append":
            host.append(g, qargs)
        elif use == "twice":
            host.append(g, qargs)
            host.append(g, qargs)
        elif use == "copy":
            c = g.copy()                                    # before .definition is first read
            host.append(g, qargs)
            host.append(c, div_qargs(case, host, regs, case["place2"]))
        elif use == "inverse":
            host.append(g.inverse(), qargs)
        elif use == "compose":
            host.compose(g.definition, qubits=qargs, inplace=True)
        elif use == "to_gate":
            host.append(g.definition.to_gate(), qargs)
        elif use == "to_instruction":
            host.append(g.definition.to_instruction(), qargs)
        elif use == "ao-structure":
            host.append(g, qargs)
        elif use == "ccx":
            div_call_ccx(case, host, regs, wires)
        elif use == "bracket":
            ctrl, anc, tg = div_split(gate, p, wires)
            idle = [w for w in range(n) if w not in wires]
            mid = QuantumCircuit(n)
            mid.h(tg[0])
            if gate == "vchain":
                mid.cp(0.7, ctrl[-1], tg[-1])
            else:
                mid.cx(tg[0], anc[0])
            if idle:
                mid.cry(1.1, tg[0], idle[0])
            host.append(g, qargs)
            host.compose(mid, inplace=True)
            host.append(g.inverse(), qargs)
        else:
            raise RuntimeError("harness: unknown use " + use)
        gates = flatten(host)
        ao_use = use in ("bracket", "ao-structure")
        if n <= (DIV_AO_OP_MAX if ao_use else DIV_OP_MAX):
            op = Operator(host).data
        elif n <= DIV_SV_MAX and not ao_use:
            rng = np.random.default_rng(case["seed"])
            vin = rng.normal(size=2 ** n) + 1j * rng.normal(size=2 ** n)
            vin /= np.linalg.norm(vin)
            vout = Statevector(vin).evolve(host).data
    except RuntimeError:
        raise
    except Exception as e:
        if isinstance(e, IndexError) and gate != "toffoli" and expected_reject(p):
            return key, "ok", "over-long ctrl_state with a high '0' rejected with the documented IndexError", rep, None
        if unsupported:
            return key, "unsupported", f"{case['ktype']}/{case['cstype']}:unsupported-form-raises-{type(e).__name__}", rep, None
        if use == "to_gate" and type(e).__name__ == "QiskitError" and "cannot be converted to a gate" in str(e):
            # the definitions append QuantumCircuit objects (toffoli_multi_target, the sub-chains of LinearMcx), which
            # qiskit turns into Instructions: `definition.to_gate()` is refused by qiskit wherever such a block occurs.
            # Nothing in qclib promises it; counted, not a failing input of the property.
            return key, "unsupported", "definition.to_gate():unsupported-form-raises-QiskitError", rep, None
        return key + ":raises", "fail", f"{type(e).__name__}: {str(e)[:200]}", rep, None
    # ---- expected ----
    if gate == "toffoli":
        m = toffoli_ref(p.get("cancel"))
        if use == "twice":
            exp = embed(m @ m, wires, n)
        elif use == "copy":
            exp = embed(m, div_wires(case, case["place2"])[0], n) @ embed(m, wires, n)
        elif use == "inverse":
            exp = embed(m.conj().T, wires, n)
        else:
            exp = embed(m, wires, n)
        err = float(np.abs(op - exp).max())
        if use in ("append", "compose", "to_gate", "to_instruction", "ccx"):
            tie = ({"op": "toffoli", "cancel": p.get("cancel") or "none"}, div_back_lines(gates, wires))
        return key, ("fail" if err > TOL else "ok"), f"max |Operator(host) - Toffoli on wires {wires}| = {err:.3e}", \
            dict(rep, err=err), {"tie": tie, "n": n}
    if use in ("append", "compose", "to_gate", "to_instruction", "ao-structure"):
        # the model numbers the wires controls, borrowed, targets (V-chain) / controls, target, ancilla (linear) = local order
        o = {"op": gate, "k": p["k"], "ao": p["ao"]}
        if gate == "vchain":
            o.update(t=p["t"], rp=p["rp"])
        if p.get("cs") is not None:
            o["cs"] = p["cs"]
        tie = (o, div_back_lines(gates, wires))
    extra = {"tie": tie, "n": n}
    if gate != "toffoli" and expected_reject(p):
        return key, "fail", "over-long ctrl_state with a '0' beyond the controls was accepted (the bare gate raises IndexError)", \
            rep, {"tie": None, "n": n}
    if p.get("rp") and p.get("t", 1) != 1 or (p.get("rp") and p.get("ao")):
        return key, "tie-only", "outside the property (relative phase with several targets / with action_only)", rep, extra
    if use == "ao-structure":
        if n > DIV_AO_OP_MAX:
            return key, "tie-only", "host too large for the Operator", rep, extra
        bad = div_ao_structure(gate, p, n, wires, op)
        return key, ("fail" if bad else "ok"), bad or "S = U * MCX has the structure of the action_only theorems", rep, extra
    if use == "bracket":
        if n > DIV_AO_OP_MAX:
            return key, "tie-only", "host too large for the Operator", rep, extra
        ctrl, anc, tg = div_split(gate, p, wires)
        dest = ref_dest(n, ctrl, pattern_bits(p["k"], p.get("cs")), tg)
        pm = np.zeros((2 ** n, 2 ** n))
        pm[dest, np.arange(2 ** n)] = 1
        exp = pm @ Operator(mid).data @ pm
        err = float(np.abs(op - exp).max())
        return key, ("fail" if err > TOL else "ok"), \
            f"max |chain(action_only) ; mid ; chain.inverse() - MCX ; mid ; MCX| = {err:.3e}", dict(rep, err=err), extra
    m1 = mono_ideal(n, gate, p, wires)
    if use == "twice":
        mono = mono_then(m1, m1)
    elif use == "copy":
        mono = mono_then(m1, mono_ideal(n, gate, p, div_wires(case, case["place2"])[0]))
    elif use == "inverse":
        mono = mono_inv(m1)
    else:
        mono = m1
    dest, coeff, known = mono
    idx = np.arange(2 ** n)
    rp = bool(p.get("rp"))
    errs, sign_err = {}, None
    if n <= DIV_OP_MAX:
        ent = op[dest, idx].copy()
        rest = op.copy()
        rest[dest, idx] = 0
        off = float(np.abs(rest).max())
        errs["operator"] = max(off, float(np.abs(np.abs(ent) - 1).max()) if rp else float(np.abs(ent - coeff).max()))
        if rp and known:
            sign_err = float(np.abs(ent - coeff).max())
    elif n <= DIV_SV_MAX:
        exp = np.zeros_like(vin)
        exp[dest] = coeff * vin
        errs["statevector"] = float(np.abs(np.abs(vout) - np.abs(exp)).max()) if rp else float(np.abs(vout - exp).max())
        if rp and known:
            sign_err = float(np.abs(vout - exp).max())
    for name, terms in case.get("states", []):
        ii = [t[0] for t in terms]
        aa = [complex(t[1], t[2]) for t in terms]
        got = to_dict(*sparse_apply(gates, ii, aa))
        want = {}
        for i, a in zip(ii, aa):
            j = int(dest[i])
            want[j] = want.get(j, 0) + a * coeff[i]
        e = 0.0
        for j in set(got) | set(want):
            gv, wv = got.get(j, 0), want.get(j, 0)
            e = max(e, abs(abs(gv) - abs(wv)) if rp else abs(gv - wv))
        errs["state:" + name] = e
    worst = max(errs, key=errs.get)
    err = errs[worst]
    extra.update(err=err, sign_err=sign_err, methods=sorted(errs))
    return key, ("fail" if err > TOL else "ok"), \
        f"host of {n} qubits, gate on wires {wires}: max error {err:.3e} at {worst}", dict(rep, err=err, worst=worst), extra


def div_record(ctx, case, res, with_tie=True):
    key, status, detail, rep, extra = res
    p = case["p"]
    if extra and extra.get("tie") and with_tie:
        # the same (op, gate list) pair is sent to the driver once; a placement whose mapped-back gate list differs from
        # an earlier one of the same op is a new pair and is sent (and then diffs)
        seen = ctx.__dict__.setdefault("_div_tie_seen", set())
        sig = (json.dumps(extra["tie"][0], sort_keys=True), "\n".join(extra["tie"][1]))
        ctx.count("diversity:tie:host wires mapped back to the gate")
        if sig not in seen:
            seen.add(sig)
            ctx.tie(extra["tie"][0], extra["tie"][1], label="host placement " + key)
    if status == "unsupported":
        ctx.count(f"diversity:{case['gate']}:{detail}")
        return
    if status == "tie-only":
        ctx.count("diversity:tie-only (outside the property)")
        return
    if status == "ok":
        ctx.ok(key, nontrivial=case["gate"] == "toffoli" or p["k"] >= 2)
        if extra and extra.get("sign_err") is not None:
            ctx.assumption_checks += 1
            if extra["sign_err"] > TOL:
                ctx.obligation_broken("relphase diagonal of the code = relSign of C05_vchain_relphase",
                                      f"{key}: differs by {extra['sign_err']:.3e}")
    else:
        ctx.fail(key, detail, rep)


def diversity_cases(ctx):
    r = ctx.rng
    cases = []
    rot = [0]

    def forms(gate, uses=DIV_USES):
        """next combination of (use, ctor, host style, register order, qubit form) in rotation: every value of every
        family is met every few cases, and the combinations change from seed to seed"""
        i = rot[0]
        rot[0] += 1
        return dict(use=uses[i % len(uses)], ctor=DIV_CTORS[(i // 2) % 3], style=("flat", "regs")[(i // 3) % 2],
                    order=DIV_ORDERS[i % 5], qform=DIV_QFORMS[(i + i // 4) % 4])

    def mixed(k):
        return "".join("10"[(k - 1 - j) % 2] for j in range(k))

    def some_cs(k):
        return r.choice([None, "1" * k, "0" * k, mixed(k), "".join(r.choice("01") for _ in range(k))])

    rot[0] = r.randrange(140)
    # ---- sizes x flags, call forms in rotation ----
    for k in range(1, 6):
        for t in (1, 2, 3):
            for rp in (False, True):
                for ao in (False, True):
                    p = dict(k=k, t=t, cs=some_cs(k), rp=rp, ao=ao)
                    f = forms("vchain")
                    if ao:
                        f["use"] = ("ao-structure", "bracket")[(k + t) % 2] if not rp else "append"
                    ctx.count("diversity:vchain:sizes x flags x call form")
                    cases.append(div_case(r, "vchain", p, **f))
    for k in range(1, 9):
        for ao in (False, True):
            for rep_ in range(2 if k >= 5 else 1):
                p = dict(k=k, cs=some_cs(k), ao=ao)
                f = forms("linear")
                if ao:
                    f["use"] = ("ao-structure", "bracket")[(k + rep_) % 2]
                ctx.count("diversity:linear:sizes x flags x call form")
                cases.append(div_case(r, "linear", p, **f))
    # ---- every call form at fixed non-trivial sizes (general chain k = 4, 3-control shortcut, linear first split) ----
    for use in DIV_USES:
        for gate, p in (("vchain", dict(k=4, t=1, cs="0110", rp=False, ao=False)),
                        ("vchain", dict(k=4, t=1, cs="1010", rp=True, ao=False)),
                        ("vchain", dict(k=3, t=2, cs="010", rp=False, ao=False)),
                        ("linear", dict(k=6, cs="010110", ao=False)),
                        ("linear", dict(k=5, cs="10010", ao=False))):
            f = forms(gate)
            f["use"] = use
            ctx.count("diversity:use:" + use)
            cases.append(div_case(r, gate, p, **f))
    for i, (style, order) in enumerate([("natural", "cati"), ("flat", "cati")] + [("regs", o) for o in DIV_ORDERS]):
        for j, qform in enumerate(DIV_QFORMS):
            for gate, p in (("vchain", dict(k=3, t=2, cs="100", rp=False, ao=False)),
                            ("vchain", dict(k=4, t=1, cs="0101", rp=(i + j) % 2 == 1, ao=False)),
                            ("linear", dict(k=4, cs="0011", ao=False))):
                ctx.count(f"diversity:host:{style}" + ("/" + order if style == "regs" else ""))
                ctx.count("diversity:qubits-as:" + qform)
                cases.append(div_case(r, gate, p, use="append", ctor=DIV_CTORS[(i + j) % 3], style=style, order=order,
                                      qform=qform))
    # ---- constructor forms: every keyword at once / one at a time ----
    for ctor in DIV_CTORS:
        ctx.count("diversity:ctor:every keyword non-default at once:" + ctor)
        cases.append(div_case(r, "vchain", dict(k=4, t=2, cs="0110", rp=True, ao=True), ctor=ctor, style="flat"))
        cases.append(div_case(r, "vchain", dict(k=5, t=1, cs="01101", rp=True, ao=True), ctor=ctor, style="natural"))
        cases.append(div_case(r, "linear", dict(k=7 if ctor == "keyword" else 6, cs="0110100"[:7 if ctor == "keyword" else 6],
                                             ao=True), use="ao-structure", ctor=ctor, style="natural"))
        for p in (dict(k=4, t=2, cs=None, rp=False, ao=False), dict(k=4, t=1, cs="0010", rp=False, ao=False),
                  dict(k=4, t=1, cs=None, rp=True, ao=False), dict(k=4, t=1, cs=None, rp=False, ao=True)):
            ctx.count("diversity:ctor:one keyword at a time:" + ctor)
            cases.append(div_case(r, "vchain", p, use="ao-structure" if p["ao"] else "append", ctor=ctor,
                                  style="regs", order=r.choice(DIV_ORDERS), qform=r.choice(DIV_QFORMS)))
        for p in (dict(k=6, cs=None, ao=False), dict(k=6, cs="101101", ao=False), dict(k=6, cs=None, ao=True)):
            ctx.count("diversity:ctor:one keyword at a time:" + ctor)
            cases.append(div_case(r, "linear", p, use="bracket" if p["ao"] else "append", ctor=ctor, style="flat",
                                  qform=r.choice(DIV_QFORMS)))
    # ---- element types ----
    for gate, p in (("vchain", dict(k=1, t=1, cs="0", rp=False, ao=False)), ("vchain", dict(k=1, t=1, cs=None, rp=True, ao=False)),
                    ("linear", dict(k=1, cs="0", ao=False))):
        ctx.count("diversity:types:num_controls / num_target_qubit = True")
        cases.append(div_case(r, gate, p, ktype="bool", ctor=r.choice(DIV_CTORS)))
    for gate, p in (("vchain", dict(k=4, t=2, cs="0110", rp=False, ao=False)), ("linear", dict(k=6, cs="011010", ao=False))):
        ctx.count("diversity:types:num_controls numpy.int64")
        cases.append(div_case(r, gate, p, ktype="np.int64"))
        ctx.count("diversity:types:ctrl_state int")
        cases.append(div_case(r, gate, p, cstype="int"))
    # integer control states at the ends of the range (0 = all-open is falsy!) and in the middle, python and numpy ints
    for cstype in ("int", "np.int64"):
        for k in (1, 2, 3, 4, 5):
            for cs in ("0" * k, "1" * k, ("01" * k)[:k]):
                ctx.count("diversity:types:ctrl_state " + cstype + " all-zeros / all-ones / alternating")
                cases.append(div_case(r, "vchain", dict(k=k, t=1 + (k % 2), cs=cs, rp=False, ao=False), cstype=cstype,
                                      ctor=DIV_CTORS[(k + len(cs.strip("0"))) % 3]))
                cases.append(div_case(r, "linear", dict(k=k + 2, cs=(cs * 3)[:k + 2], ao=False), cstype=cstype,
                                      ctor=DIV_CTORS[(k + 1 + len(cs.strip("0"))) % 3]))
    # relative_phase / action_only given as numpy.bool_ or int, every constructor spelling, sizes on both sides of k = 3
    for flagtype in ("np.bool_", "int"):
        for ctor in DIV_CTORS:
            for k in (2, 3, 4, 5):
                ctx.count("diversity:types:flags " + flagtype)
                cases.append(div_case(r, "vchain", dict(k=k, t=1, cs=None if k % 2 else ("10" * k)[:k], rp=True, ao=False),
                                      ctor=ctor, flagtype=flagtype))
                cases.append(div_case(r, "vchain", dict(k=k, t=1 + (k % 2), cs=None, rp=False, ao=False), ctor=ctor,
                                      flagtype=flagtype))
            cases.append(div_case(r, "vchain", dict(k=4, t=1, cs=None, rp=False, ao=True), use="ao-structure", ctor=ctor,
                                  flagtype=flagtype))
            cases.append(div_case(r, "linear", dict(k=6, cs="011010", ao=False), ctor=ctor, flagtype=flagtype))
            cases.append(div_case(r, "linear", dict(k=6, cs=None, ao=True), use="bracket", ctor=ctor, flagtype=flagtype))
    for cstype in ("list", "tuple"):
        for gate, p in (("vchain", dict(k=4, t=1, cs="0100", rp=False, ao=False)), ("vchain", dict(k=3, t=1, cs="110", rp=True, ao=False)),
                        ("vchain", dict(k=2, t=3, cs="01", rp=False, ao=False)), ("linear", dict(k=6, cs="110100", ao=False)),
                        ("linear", dict(k=3, cs="001", ao=False))):
            ctx.count("diversity:types:ctrl_state " + cstype + " of characters")
            cases.append(div_case(r, gate, p, cstype=cstype, ctor=r.choice(DIV_CTORS), style=r.choice(["flat", "regs"]),
                                  order=r.choice(DIV_ORDERS)))
    for k in (1, 2, 3, 4, 5):
        for cs in ("1" * k, "0" * k):
            ctx.count("diversity:ctrl_state all-ones / all-zeros")
            cases.append(div_case(r, "vchain", dict(k=k, t=r.choice((1, 2)), cs=cs, rp=False, ao=False), **forms("vchain")))
            cases.append(div_case(r, "linear", dict(k=k + 3, cs=cs[0] * (k + 3), ao=False), **forms("linear")))
    # ---- ctrl_state shorter (accepted: missing positions are ones) / longer (accepted without, rejected with a high '0') ----
    for k, cs in ((3, "0"), (4, "10"), (5, ""), (2, "111"), (2, "011"), (3, "0111"), (1, "00"), (4, "10110"), (6, "01"), (6, "1111110")):
        for gate in ("vchain", "linear"):
            p = dict(k=k, cs=cs, ao=False)
            if gate == "vchain":
                p.update(t=r.choice((1, 2)), rp=False)
            f = forms(gate, uses=("append", "copy", "inverse", "compose", "to_instruction"))
            ctx.count("diversity:ctrl_state length != num_controls:" + ("reject" if expected_reject(p) else "accepted"))
            cases.append(div_case(r, gate, p, **f))
    # ---- relative-phase Toffoli gate object ----
    for cancel in (None, "left", "right"):
        for use in DIV_USES:
            f = forms("toffoli")
            f["use"] = use
            ctx.count("diversity:toffoli gate object:" + use)
            cases.append(div_case(r, "toffoli", dict(cancel=cancel), **f))
    return cases


def run(ctx, scale=0, with_majority=True):
    assumptions(ctx)
    quick = ctx.quick
    r = ctx.rng
    # ---- tie ------------------------------------------------------------------------------------
    from flatten import flatten, to_lines
    from qclib.gates.toffoli import Toffoli
    from qclib.gates.mcx import McxVchainDirty
    for cancel in (None, "left", "right"):
        ctx.tie({"op": "toffoli", "cancel": cancel or "none"}, to_lines(flatten(Toffoli(cancel).definition)))
    for n in range(1, 6):
        for side in ("l", "r", None):
            ctx.tie({"op": "tmt", "n": n, "side": side or "both"},
                    to_lines(flatten(McxVchainDirty.toffoli_multi_target(n, side))))
    toffoli_entry(ctx)
    kmax_v = (7 if quick else 9) + scale
    for k in range(1, kmax_v + 1):
        pats = patterns(ctx, k, 4 if quick else 5, 2 if quick else 4)
        for t in (1, 2, 3):
            for rp in (False, True):
                for ao in (False, True):
                    for cs in pats:
                        tie_case(ctx, "vchain", dict(k=k, t=t, cs=cs, rp=rp, ao=ao))
    # ctrl_state strings of the wrong length: shorter (accepted), longer without / with a high '0' (IndexError)
    for k, cs in ((3, "0"), (3, "10"), (4, ""), (2, "111"), (2, "011"), (2, "110"), (3, "0111"), (1, "00"), (4, "10110")):
        tie_case(ctx, "vchain", dict(k=k, t=1, cs=cs, rp=False, ao=False))
        tie_case(ctx, "linear", dict(k=k, cs=cs, ao=False))
    kmax_l = (10 if quick else 12) + scale
    for k in range(1, kmax_l + 1):
        for ao in (False, True):
            for cs in patterns(ctx, k, 3 if quick else 4, 2 if quick else 4):
                tie_case(ctx, "linear", dict(k=k, cs=cs, ao=ao))

    # ---- oracle ---------------------------------------------------------------------------------
    jobs = []
    for k in range(1, 8 + scale):
        for t in (1, 2, 3):
            nq = k + max(k - 2, 0) + t
            if nq > DENSE_SV_MAX:
                continue
            for rp in ((False, True) if t == 1 else (False,)):
                if nq <= DENSE_OP_MAX:
                    pats = patterns(ctx, k, 4 if quick else 5, 1 if quick else 3)
                else:
                    pats = patterns(ctx, k, 0, 0 if quick else 2)[1:]
                for cs in pats:
                    p = dict(k=k, t=t, cs=cs, rp=rp, ao=False)
                    if nq <= DENSE_OP_MAX or (not quick and nq == 10 and cs in ("1" * k, pats[-1])):
                        jobs.append(("operator", ("vchain", p)))
                    if nq > DENSE_OP_MAX or cs is None:
                        jobs.append(("statevector", ("vchain", p, r.getrandbits(31))))
    for k in range(1, 10):
        nq = k + 2
        pats = patterns(ctx, k, 5 if quick else 7, 1 if quick else 3) if nq <= DENSE_OP_MAX else patterns(ctx, k, 0, 1)[1:]
        for cs in pats:
            p = dict(k=k, cs=cs, ao=False)
            if nq <= DENSE_OP_MAX or (not quick and nq == 10 and cs == pats[-1]):
                jobs.append(("operator", ("linear", p)))
            if nq > DENSE_OP_MAX or cs is None:
                jobs.append(("statevector", ("linear", p, r.getrandbits(31))))
    # sparse states beyond the dense cap
    big_v = [7, 8, 10, 13] if quick else [7, 8, 9, 10, 12, 14, 17, 20]
    big_l = [10, 11, 14, 17] if quick else [10, 11, 12, 13, 15, 18, 21, 24]
    for kind, ks in (("vchain", big_v), ("linear", big_l)):
        for k in ks:
            for t, rp in (((1, False), (1, True), (3, False)) if kind == "vchain" else ((1, False),)):
                rnd = patterns(ctx, k, 0, 1 if quick else 2)[5:]
                for cs in ([None] + rnd if quick else [None, "0" * k] + rnd):
                    p = dict(k=k, cs=cs, ao=False)
                    if kind == "vchain":
                        p.update(t=t, rp=rp)
                    for mism, nsup in ((0, 0), (0, 4), (1, 3), (r.randint(2, 5), 2), (1, 0)):
                        idx, amp, desc = make_sparse_input(r, kind, p, mism, nsup)
                        jobs.append(("sparse", (kind, p, idx, amp, desc)))
    jobs += boundary_jobs(ctx)
    run_jobs(ctx, jobs)
    if os.environ.get("C05_NO_DIVERSITY"):       # timing aid only (before / after measurements)
        return MAJ.run(ctx) if (MAJ is not None and with_majority) else None
    run_diversity(ctx)
    ctx.notes.append("diversity pass: gate objects on larger hosts (permuted / non-contiguous qubit lists, register hosts in 5 "
                     "declaration orders, qubits as int / numpy int / Qubit), constructor call forms, element types, reuse "
                     "(twice, copy before definition, inverse, compose / to_gate / to_instruction), action_only bracket and "
                     "leftover-relabelling structure, static Toffoli.ccx in every argument form; the static MCX helpers raise "
                     "on every call (K-C15-1 / K-C15-2) and are only counted; definition.to_gate() is refused by qiskit "
                     "where the definition contains an appended QuantumCircuit (counted as unsupported form)")
    ctx.notes.append("dense Operator up to %d qubits (10 in the thorough tier), random dense Statevector up to %d, sparse "
                     "simulation of the real flattened gate list beyond (basis controls/targets, borrowed qubits basis or "
                     "|+>,|->,|+i>)" % (DENSE_OP_MAX, DENSE_SV_MAX))
    ctx.notes.append("action_only=True is tied (gate lists) but not evaluated by the oracle: it leaves the ancillas dirty on purpose")
    if MAJ is not None and with_majority:
        MAJ.run(ctx)


def search(ctx, hints):
    """Failing-input search on the real code: the disagreeing ops first, then the oracle at larger sizes.
    Hints that are not MCX ops (majority) are handed to the majority module; with no hints at all (a red proof) both run."""
    mine = [h for h in hints if h["op"].get("op") in ("vchain", "linear", "toffoli", "tmt")]
    theirs = [h for h in hints if h not in mine]
    if mine or not hints:
        jobs = []
        for h in mine[:40]:
            op = h["op"]
            kind = op.get("op")
            if kind not in ("vchain", "linear") or op.get("ao"):
                continue
            p = dict(k=op["k"], cs=op.get("cs"), ao=False)
            if kind == "vchain":
                p.update(t=op["t"], rp=op["rp"])
                if p["rp"] and p["t"] != 1:
                    continue
            if p["cs"] is not None and len(p["cs"]) != p["k"]:
                continue
            ctrl, anc, tg = layout(kind, p)
            nq = len(ctrl) + len(anc) + len(tg)
            if nq <= DENSE_OP_MAX + 1:
                jobs.append(("operator", (kind, p)))
            elif nq <= DENSE_SV_MAX:
                jobs.append(("statevector", (kind, p, ctx.rng.getrandbits(31))))
            else:
                for mism, nsup in ((0, 0), (0, 3), (1, 2), (2, 1)):
                    idx, amp, desc = make_sparse_input(ctx.rng, kind, p, mism, nsup)
                    jobs.append(("sparse", (kind, p, idx, amp, desc)))
        run_jobs(ctx, jobs)
        if not ctx.failures:
            run(ctx, scale=1, with_majority=False)
    if MAJ is not None and (theirs or not hints) and not ctx.failures:
        MAJ.search(ctx, theirs)


def replay(ctx, payload):
    r = payload["replay"]
    if "kind" not in r or "method" not in r:
        if MAJ is not None:
            return MAJ.replay(ctx, r)
        raise RuntimeError("unknown replay payload")
    kind, p, m = r["kind"], r["params"], r["method"]
    if m == "assumption":
        assumptions(ctx)
        return
    if m == "entry":
        toffoli_entry(ctx)
        return
    if m == "diversity":
        div_record(ctx, r["case"], div_eval(r["case"]), with_tie=False)
        return
    if m == "diversity-static":
        static_mcx_helpers(ctx)
        return
    if m == "construct":
        circ, gates, gerr = gate_list(kind, p)
        if gerr is not None and gerr != "reject":
            ctx.fail(case_key(kind, p, "construct"), "qclib raised while building the definition: " + gerr, r)
        else:
            ctx.ok(case_key(kind, p, "construct"))
        return
    if m == "operator":
        jobs = [("operator", (kind, p))]
    elif m == "statevector":
        jobs = [("statevector", (kind, p, r["seed"]))]
    else:
        jobs = [("sparse", (kind, p, r["idx"], [complex(a, b) for a, b in r["amp"]], r["desc"]))]
    run_jobs(ctx, jobs)
