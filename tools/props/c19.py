"""C19 — black-box (amplitude-amplification) state preparation (qclib/state_preparation/blackbox.py)."""
import math
from decimal import Decimal, getcontext

import numpy as np

CLAIMED = True
TECHNIQUE = ("Lean 4 proof of the whole amplitude-amplification circuit in amplitude-function semantics (all n, all r, all unit "
             "vectors): closed form of U|0>, reflections, U^dagger U = U U^dagger = I, linearity, overlap <psi|P0|psi> = 2^-n via the "
             "Hadamard-layer sum, induction over the rounds, Grover recurrence over R, arccos/arg identities over C from Mathlib; "
             "executable Float twin of the angle/repetition code diffed against BlackBoxInitialize; Statevector oracle")
LEVEL_TEXT = ("Full proof for the model (C19_amplification): for every n, every r and every amplitude list with sum |a_k|^2 = 1, the "
              "modelled circuit (angles 2 arccos(clip|a_k|), -2 angle(a_k) evaluated over R; r passes of U, I_t, U^dagger, I_s; final U; "
              "global phase pi iff r odd) maps |0..0> to sin((2r+1)theta) a_k on every flag-0 label, theta = arcsin(2^(-n/2)), and to "
              "cos((2r+1)theta)/cos(theta) times the flag-1 part of U|0> on flag-1 labels; zero amplitudes and modulus-one amplitudes "
              "included. Supporting theorems: C19_oracle (one amplitude: flag-0 entry exactly a, flag-1 modulus sqrt(1-|a|^2)), "
              "C19_oracle_circuit (U|0..0> for all n), C19_reflections (coded I_t, I_s for all n), C19_unitary, C19_rotation (2x2 "
              "recurrence, all r), C19_sign, C19_r (model r = floor(pi sqrt(N)/4) for unit vectors). Tie: per-amplitude angle lists, r, "
              "global phase and the gate-list skeleton of the real BlackBoxInitialize(v).definition vs the executable model for nine "
              "vector families, n<=5 (quick) / 6 (thorough); the Float r-expression vs exact integer arithmetic for n<=64. Oracle: "
              "flag-0 column of Statevector(definition) vs sin((2r+1)theta) v and the flag-1 weight, n=1..7 (quick) / 8 (thorough).")
LEVEL_NOTE = ("Trusted: Lean kernel (standard axioms); qiskit UCRYGate/UCRZGate (= ideal multiplexers, target first, little-endian "
              "controls), their .inverse(), UnitaryGate.control(ctrl_state=0), HGate, global_phase (all validated numerically each run); "
              "IEEE floats vs exact reals (np.abs/arccos/angle compared to 1e-9, relaxed near |a|=1 where arccos is ill-conditioned); "
              "model <-> code beyond the explored sizes (the loop is uniform in n).")
LEAN_TARGETS = ["QclibModel.Props.C19"]
THEOREMS = ["Qclib.C19_oracle", "Qclib.C19_oracle_circuit", "Qclib.C19_reflections", "Qclib.C19_rotation",
            "Qclib.C19_unitary", "Qclib.C19_amplification", "Qclib.C19_sign", "Qclib.C19_r"]
TRUSTED = [
    "qiskit UCRYGate/UCRZGate(angles) on [flag, idx...] are the block-diagonal multiplexers muxIdeal (validated numerically each run)",
    "qiskit Gate.inverse() of UCRY/UCRZ = multiplexer of negated angles; UnitaryGate([[-1,0],[0,1]]).control(n, ctrl_state=0) = "
    "I - 2|0..0><0..0| (validated numerically each run, n<=6)",
    "float: theta=2*arccos(clip(|a|)), phi=-2*angle(a), r=int(pi/4*sqrt(N)/norm) compared with the model's Float evaluation",
]
ASSUMPTIONS = ["exact real/complex arithmetic in the theorems; implementation compared to 1e-7 (oracle) / 1e-9 (tie)",
               "the input register starts in |0..0> (all wires, including any wire above n)",
               "the total flag-1 weight cos^2((2r+1)theta) is proved pointwise (proportionality to the flag-1 part of U|0>), "
               "its sum over labels is only checked numerically"]
RULE = ("tie: (n, family, vector) whose angle lists, r, phase and gate skeleton were diffed against the Lean model; "
        "oracle: Statevector(BlackBoxInitialize(v).definition) flag-0 column vs closed form; non-trivial = n>=1 and the "
        "vector is not the probe duplicate; distinct by (n, family, draw)")

getcontext().prec = 80
PI = Decimal("3.14159265358979323846264338327950288419716939937510582097494459230781640628620899862803482534211706798")
FAMILIES = ["haar", "real", "nonneg", "sparse", "basis4", "basisphase", "unimod", "peaked", "pyth"]
# the arccos(1+1ulp) = NaN defect (fixed in /repo by clipping the modulus); probed on every run
PROBE = [complex(-0.16681595704847074, -0.9859880508779014), 0j]


def exact_r(n):
    return int((PI * Decimal(2 ** n).sqrt() / 4).to_integral_value(rounding="ROUND_FLOOR"))


def clean(v):
    """-0.0 -> 0.0 (JSON loses the sign of zero and np.angle(-0.0) = pi), python complex list."""
    v = np.asarray(v, dtype=complex)
    re, im = v.real + 0.0, v.imag + 0.0
    return [complex(a, b) for a, b in zip(re, im)]


def make_vec(ctx, n, fam):
    r = ctx.nprng()
    N = 2 ** n
    if fam == "haar":
        v = r.normal(size=N) + 1j * r.normal(size=N)
    elif fam == "real":
        v = r.normal(size=N).astype(complex)
    elif fam == "nonneg":
        v = np.abs(r.normal(size=N)).astype(complex)
    elif fam == "sparse":
        v = np.zeros(N, dtype=complex)
        m = max(1, N // 4)
        for i in r.choice(N, size=m, replace=False):
            v[i] = r.normal() + 1j * r.normal()
    elif fam == "basis4":
        v = np.zeros(N, dtype=complex)
        v[r.integers(N)] = [1, -1, 1j, -1j][r.integers(4)]
        return clean(v)                      # exactly unit modulus
    elif fam == "basisphase":
        v = np.zeros(N, dtype=complex)
        v[r.integers(N)] = complex(r.normal(), r.normal())   # normalised below: modulus 1 or 1 +- 1ulp
    elif fam == "unimod":
        v = np.exp(1j * r.uniform(0, 2 * math.pi, size=N))
    elif fam == "peaked":
        v = 1e-3 * (r.normal(size=N) + 1j * r.normal(size=N))
        v[r.integers(N)] = np.exp(1j * r.uniform(0, 2 * math.pi))
    elif fam == "pyth":
        v = np.zeros(N, dtype=complex)
        i, j = r.choice(N, size=2, replace=False)
        v[i], v[j] = 0.6 * r.choice([1, -1, 1j]), 0.8 * r.choice([1j, -1, -1j])
        return clean(v)
    else:
        raise ValueError(fam)
    return clean(v / np.linalg.norm(v))


UNREACHED_JUSTIFIED = {}   # blackbox.py: with entry_forms() every statement and branch outcome is reached in the quick tier

FORMS = ("label", "ndarray", "float-list", "static", "static-qubits")
_HOST = {}


def build(v, form="plain", wires=None):
    """definition of the REAL gate; `form` = entry path (label, ndarray / real-float-list params, the static initialize() with
    qubits=None or an explicit permuted wire list on a wider host circuit, kept in _HOST['host'])"""
    from qiskit import QuantumCircuit
    from qclib.state_preparation.blackbox import BlackBoxInitialize
    _HOST.clear()
    if form == "label":
        return BlackBoxInitialize(list(v), label="psi").definition
    if form == "ndarray":
        return BlackBoxInitialize(np.asarray(v, dtype=complex)).definition
    if form == "float-list":          # real vector handed over as Python floats
        return BlackBoxInitialize([float(a.real) for a in v]).definition
    if form in ("static", "static-qubits"):
        w = int(round(math.log2(len(v)))) + 1
        host = QuantumCircuit(w if form == "static" else w + 1)
        if form == "static":
            BlackBoxInitialize.initialize(host, list(v))
        else:
            BlackBoxInitialize.initialize(host, list(v), qubits=list(wires))
        _HOST["host"] = host
        return host.data[0].operation.definition
    return BlackBoxInitialize(list(v)).definition


def real_params(ps):
    out = []
    for p in ps:
        c = complex(p)
        out.append(repr(float(c.real)) if c.imag == 0 else f"complex({c})")
    return " ".join(out)


def mat4(m):
    m = np.asarray(m, dtype=complex)
    if m.shape != (2, 2) or np.abs(m.imag).max() > 0:
        return "matrix(" + ",".join(f"{complex(x):.9g}" for x in m.ravel()) + ")"
    return " ".join(repr(float(x)) for x in m.real.ravel())


def dump(circ):
    """Skeleton of the real definition: reps, then one line per library gate, then the global phase."""
    lines = []
    reps = sum(1 for inst in circ.data if inst.operation.name == "I_t")
    lines.append(f"reps {reps} ;")
    for inst in circ.data:
        op = inst.operation
        qs = [circ.find_bit(q).index for q in inst.qubits]
        if op.name in ("U", "U_dg") and op.definition is not None:
            dd = op.definition
            if abs(float(dd.global_phase)) > 1e-12:
                lines.append(f"inner-gphase ; {float(dd.global_phase)!r}")
            for i2 in dd.data:
                o2 = i2.operation
                q2 = [qs[dd.find_bit(q).index] for q in i2.qubits]
                ws = " ".join(map(str, q2))
                if o2.name == "h":
                    lines.append(f"h {ws} ;")
                elif o2.name in ("ucry", "ucrz", "ucry_dg", "ucrz_dg"):
                    lines.append(f"{o2.name} {ws} ; {real_params(o2.params)}")
                else:
                    lines.append(f"UNEXPECTED:{o2.name} {ws} ;")
        elif op.name == "I_t":
            lines.append(f"I_t {' '.join(map(str, qs))} ; {mat4(op.to_matrix())}")
        elif op.name.startswith("I_s") and hasattr(op, "base_gate"):
            lines.append(f"I_s {' '.join(map(str, qs))} ; {op.num_ctrl_qubits} {op.ctrl_state} {mat4(op.base_gate.to_matrix())}")
        else:
            lines.append(f"UNEXPECTED:{op.name} {' '.join(map(str, qs))} ;")
    gp = float(circ.global_phase)
    if abs(gp) > 0:
        lines.append(f"gphase ; {gp!r}")
    return lines


def compare(op, impl, model):
    """Exact on names / wires / integers; parameters to 1e-9, except RY angles near |a| = 1 where
    arccos amplifies the last-bit difference between np.abs (hypot) and the model's sqrt(re²+im²):
    there |Δθ| ≤ 1e-9 + 4e-15 / sin(θ/2)."""
    import framework
    if op.get("op") != "bb":
        return framework.diff_lines(impl, model)
    if len(impl) != len(model):
        return f"length {len(impl)} vs {len(model)}: impl[:3]={impl[:3]} model[:3]={model[:3]}"
    for i, (x, y) in enumerate(zip(impl, model)):
        nx, wx, px = framework.parse_line(x)
        ny, wy, py = framework.parse_line(y)
        if nx != ny or wx != wy or len(px) != len(py):
            return f"line {i}: impl={x[:160]!r} model={y[:160]!r}"
        for p, q in zip(px, py):
            if isinstance(p, str) or isinstance(q, str) or p != p or q != q:
                if p != q and not (p != p and q != q and not isinstance(p, str)):
                    return f"line {i} ({nx}): param {p!r} vs {q!r}"
                continue
            tol = 1e-9 * max(1.0, abs(p), abs(q))
            if nx in ("ucry", "ucry_dg"):
                s = max(abs(math.sin(p / 2)), abs(math.sin(q / 2)), 1e-9)
                tol += 4e-15 / s
            if abs(p - q) > tol:
                return f"line {i} ({nx}): param {p!r} vs {q!r} (tol {tol:.2e})"
    return None


def vec_payload(v):
    return [[float(a.real), float(a.imag)] for a in v]


def tie_case(ctx, n, fam, v, form="plain", wires=None):
    circ = build(v, form, wires)
    ctx.tie({"op": "bb", "n": n, "re": [float(a.real) for a in v], "im": [float(a.imag) for a in v]},
            dump(circ), label=f"bb n={n} {fam}")
    ctx.count("tie:" + fam)
    return circ


def oracle_case(ctx, n, fam, v, key, circ=None, extra=None):
    from qiskit.quantum_info import Statevector
    N = 2 ** n
    rep = {"call": "qclib.state_preparation.blackbox.BlackBoxInitialize", "n": n, "family": fam, "vector": vec_payload(v)}
    rep.update(extra or {})
    absmax = max(abs(a) for a in v)
    key = "blackbox.flag0:" + key + (":abs>1" if absmax > 1.0 else "")
    try:
        if circ is None:
            circ = build(v)
        sv = np.asarray(Statevector(circ).data)
    except Exception as e:  # construction must never fail on a valid input
        ctx.fail(key + ":raises", f"{type(e).__name__}: {e}", rep)
        return
    if sv.shape != (2 * N,):
        ctx.fail(key + ":width", f"statevector length {sv.shape} for n={n}", rep)
        return
    r = exact_r(n)
    th = math.asin(1 / math.sqrt(N))
    amp = math.sin((2 * r + 1) * th)
    flag0, flag1 = sv[0::2], sv[1::2]           # qubit 0 is the flag; index = flag + 2*k
    e0 = float(np.abs(flag0 - amp * np.asarray(v)).max()) if np.all(np.isfinite(sv)) else float("inf")
    e1 = abs(float(np.sum(np.abs(flag1) ** 2)) - (1 - amp ** 2)) if np.all(np.isfinite(sv)) else float("inf")
    ctx.count(f"oracle:n={n}")
    if e0 > 1e-7 or e1 > 1e-7:
        k = int(np.argmax(np.abs(flag0 - amp * np.asarray(v)))) if math.isfinite(e0) else 0
        ctx.fail(key, f"flag-0 column differs from sin((2r+1)theta) v by {e0:.3e} at k={k} "
                      f"(observed {complex(flag0[k])}, expected {complex(amp * v[k])}, r={r}); flag-1 weight error {e1:.3e}",
                 dict(rep, observed_err=e0, flag1_err=e1, r=r))
    else:
        ctx.ok(key, nontrivial=True, sample={"n": n, "family": fam, "r": r, "amp": amp, "err0": e0, "err1": e1,
                                              "max_modulus": absmax, "zeros": int(sum(1 for a in v if a == 0))})


def entry_forms(ctx):
    """same property through the other entry paths of blackbox.py (see build); for the static forms additionally: the
    instruction sits on the requested wires and the host circuit carries the same state there"""
    from qiskit.quantum_info import Statevector
    r = ctx.rng
    for form in FORMS:
        for n in (1, 2, 3):
            fam = "real" if form == "float-list" else r.choice(["haar", "sparse", "unimod", "pyth" if n >= 1 else "haar"])
            v = make_vec(ctx, n, fam)
            w = n + 1
            wires = r.sample(range(w + 1), w) if form == "static-qubits" else list(range(w))
            try:
                circ = tie_case(ctx, n, fam, v, form, wires)
            except Exception as e:
                ctx.fail(f"blackbox.flag0:n={n}:{fam}:form={form}:raises", f"{type(e).__name__}: {e}",
                         {"n": n, "family": fam, "vector": vec_payload(v), "form": form, "wires": wires})
                continue
            host = _HOST.get("host")
            ctx.count("branch:entry-form:" + form)
            oracle_case(ctx, n, fam, v, f"n={n}:{fam}:form={form}", circ=circ)
            if host is not None:
                on = [host.find_bit(q).index for q in host.data[0].qubits]
                sv = np.asarray(Statevector(circ).data)
                hv = np.asarray(Statevector(host).data)
                want = np.zeros(2 ** host.num_qubits, dtype=complex)
                for i, a in enumerate(sv):
                    want[sum(((i >> b) & 1) << wires[b] for b in range(w))] = a
                err = float(np.abs(hv - want).max())
                key = f"blackbox.static-wiring:n={n}:{fam}:form={form}"
                if on != wires or err > 1e-9:
                    ctx.fail(key, f"initialize(...) appended on wires {on} (asked {wires}); host state differs by {err:.3e}",
                             {"n": n, "family": fam, "vector": vec_payload(v), "form": form, "wires": wires})
                else:
                    ctx.ok(key, nontrivial=True)


def assumptions(ctx, nmax=6):
    """K4: the qiskit library objects the model treats as primitives."""
    from qiskit import QuantumCircuit
    from qiskit.circuit.library import UCRYGate, UCRZGate, UnitaryGate, HGate
    from qiskit.quantum_info import Operator
    r = ctx.nprng()

    def ry(t):
        c, s = math.cos(t / 2), math.sin(t / 2)
        return np.array([[c, -s], [s, c]], dtype=complex)

    def rz(t):
        return np.diag([np.exp(-0.5j * t), np.exp(0.5j * t)])

    for k in (0, 1, 2, 3):
        ang = list(r.uniform(-6, 6, size=2 ** k))
        for nm, G, f in (("ucry", UCRYGate, ry), ("ucrz", UCRZGate, rz)):
            ideal = np.zeros((2 ** (k + 1),) * 2, dtype=complex)
            for j, a in enumerate(ang):
                ideal[2 * j:2 * j + 2, 2 * j:2 * j + 2] = f(a)
            neg = np.zeros_like(ideal)
            for j, a in enumerate(ang):
                neg[2 * j:2 * j + 2, 2 * j:2 * j + 2] = f(-a)
            ctx.assumption_checks += 2
            if np.abs(Operator(G(ang)).data - ideal).max() > 1e-9:
                ctx.fail(f"assumption:{nm}-matrix:k={k}", "qiskit multiplexer is not the block-diagonal ideal", kind="assumption")
            if np.abs(Operator(G(ang).inverse()).data - neg).max() > 1e-9:
                ctx.fail(f"assumption:{nm}-inverse:k={k}", "inverse() is not the multiplexer of negated angles", kind="assumption")
    ctx.assumption_checks += 2
    if np.abs(HGate().to_matrix() - np.array([[1, 1], [1, -1]]) / math.sqrt(2)).max() > 1e-12:
        ctx.fail("assumption:h-matrix", "H matrix changed", kind="assumption")
    it = UnitaryGate([[-1, 0], [0, 1]])
    for n in range(1, nmax + 1):
        g = it.control(n, ctrl_state=0)
        d = np.ones(2 ** (n + 1), dtype=complex)
        d[0] = -1
        ctx.assumption_checks += 1
        if np.abs(Operator(g).data - np.diag(d)).max() > 1e-9:
            ctx.fail(f"assumption:is-matrix:n={n}", "control(ctrl_state=0) of diag(-1,1) is not I-2|0><0|", kind="assumption")
    qc = QuantumCircuit(1)
    qc.global_phase = math.pi
    ctx.assumption_checks += 1
    if np.abs(Operator(qc).data + np.eye(2)).max() > 1e-12:
        ctx.fail("assumption:global-phase", "global_phase=pi is not multiplication by -1", kind="assumption")


def reps_tie(ctx, nmax=64):
    """The Float expression for r (unit norm) vs the model's Float evaluation (tie) and vs exact
    integer arithmetic (oracle); numpy's own evaluation of the expression in blackbox.py."""
    for n in range(1, nmax + 1):
        f = int((np.pi / 4) * (np.sqrt(float(2 ** n)) / 1.0))
        ctx.tie({"op": "reps", "n": n, "norm": 1.0}, [f"reps {f} ;"], label=f"reps n={n}")
        if f != exact_r(n):
            ctx.fail(f"blackbox.reps:float-vs-exact:n={n}", f"float {f} exact {exact_r(n)}", {"n": n})
        else:
            ctx.ok(f"reps:n={n}", nontrivial=False)
    ctx.notes.append("float r-expression equals floor(pi*sqrt(2^n)/4) for all n<=109 (checked offline with 120-digit decimals; "
                     "first disagreement n=110 where r exceeds 2^53); the run checks n<=%d" % nmax)


BOUNDARIES = {
    "blackbox.py:56 np.clip(np.abs(a), 0.0, 1.0)":
        "|a_k| = 0, 1e-200, 1e-12, 1e-6, 1e-3, 1-1e-3, 1-1e-6, 1-1e-12, 1-1ulp, 1, 1+1ulp (and the F-C19-1 probe), each at the "
        "first and at the last index, n = 1, 2, 3, phases 1, -1, i, -i; the remaining weight on the other entries with one exact "
        "zero.  Band: a clip bound moved by less than ~1e-7 changes the prepared amplitudes by less than the oracle tolerance "
        "(theta = 2 arccos(1-eps) ~ 2 sqrt(2 eps)); only the tie (1e-9 on the angles) sees that",
    "blackbox.py:57 -2 * np.angle(a)": "real negative amplitudes with imaginary part +0.0 (arg = pi) and -0.0 / -1e-300 (arg = -pi; "
        "oracle only, JSON drops the sign of zero), purely imaginary, all-equal (uniform) vectors of either sign",
    "blackbox.py:63 gate_u.qubits[1:], :72 control(num_qubits - 1, ctrl_state=0), :83 qubits[0:1]": "n = 1 (one H, one control), 2, 3, ..., 7",
    "blackbox.py:75-78 repetitions = int(pi/4 * sqrt(N) / norm), :81 range(repetitions)":
        "n = 1..7 every run: pi sqrt(N)/4 = 1.11, 1.57, 2.22, 3.14, 4.44, 6.28, 8.89 -> r = 1, 1, 2, 3, 4, 6, 8 (floor != round at "
        "n = 2, 7; closed form sin((2r+1) theta) is evaluated with the exact-integer r, so r +- 1 shows at every n); vectors whose "
        "norm is 1 +- 1ulp",
    "blackbox.py:89 repetitions % 2 == 1": "odd r: n = 1, 2, 4; even r: n = 3, 5, 6, 7; every boundary vector at n = 1, 2 (odd) and 3 (even)",
}

ULP_UP, ULP_DN = float(np.nextafter(1.0, 2.0)), float(np.nextafter(1.0, 0.0))
MODULI = [("0", 0.0), ("1e-200", 1e-200), ("1e-12", 1e-12), ("1e-6", 1e-6), ("1e-3", 1e-3), ("1-1e-3", 1 - 1e-3),
          ("1-1e-6", 1 - 1e-6), ("1-1e-12", 1 - 1e-12), ("1-1ulp", ULP_DN), ("1", 1.0), ("1+1ulp", ULP_UP)]


def special_vec(n, pos, a):
    """amplitude `a` at index pos; the remaining weight sqrt(1 - |a|^2) on the other entries, one of them exactly 0 (N > 2)"""
    N = 2 ** n
    v = np.zeros(N, dtype=complex)
    v[pos] = a
    rest = [i for i in range(N) if i != pos]
    w2 = max(0.0, 1.0 - abs(a) ** 2)
    if w2 > 0:
        if len(rest) > 1:
            rest = rest[1:] if pos else rest[:-1]          # the zero sits at the opposite end
        for j, i in enumerate(rest):
            v[i] = math.sqrt(w2 / len(rest)) * [1, -1j, -1, 1j][(j + pos) % 4]
    return clean(v)


def bcase(ctx, n, name, v, tag, tie=True):
    ctx.count("boundary:" + name)
    circ = None
    if tie:
        try:
            circ = tie_case(ctx, n, "bv", v)
        except Exception:
            circ = None                     # oracle_case reports the exception
    oracle_case(ctx, n, "bv", v, f"n={n}:bv:{tag}", circ=circ)


def boundary_cases(ctx):
    # ---- moduli at and around the clip bounds, first / last index
    for n in (1, 2, 3):
        N = 2 ** n
        for pi_, pos in enumerate((0, N - 1)):
            for mi, (mname, mod) in enumerate(MODULI):
                ph = [1, -1, 1j, -1j][(mi + pi_ + n) % 4]
                v = special_vec(n, pos, mod * ph)
                bcase(ctx, n, f"|a| = {mname}", v, f"mod={mname}:pos={'first' if pos == 0 else 'last'}:ph={ph}")
    for n in (4, 5):
        for mname, mod in (("0", 0.0), ("1-1ulp", ULP_DN), ("1", 1.0), ("1+1ulp", ULP_UP), ("1e-6", 1e-6)):
            for pos in (0, 2 ** n - 1):
                bcase(ctx, n, f"|a| = {mname}", special_vec(n, pos, -mod), f"mod={mname}:pos={pos}")
    # ---- modulus 1 +- 1ulp produced by a complex phase (np.abs = hypot of two non-trivial parts), like the F-C19-1 probe
    r = ctx.nprng()
    found = {"1+1ulp": 0, "1-1ulp": 0, "1": 0}
    for _ in range(400):
        z = complex(r.normal(), r.normal())
        z = z / abs(z)
        m = float(np.abs(z))
        nm = "1+1ulp" if m == ULP_UP else "1-1ulp" if m == ULP_DN else "1" if m == 1.0 else None
        if nm is None or found[nm] >= 2:
            continue
        found[nm] += 1
        n = 1 + found[nm]
        v = [0j] * (2 ** n)
        v[(2 ** n - 1) if found[nm] == 2 else 0] = z
        bcase(ctx, n, f"basis state e^(i phi), modulus {nm}", v, f"phase-basis:{nm}:{found[nm]}")
    # ---- exact zeros at the first / last index of an otherwise generic vector
    for n in (1, 2, 3, 4, 5):
        N = 2 ** n
        for where, idx in (("first", [0]), ("last", [N - 1]), ("first and last", [0, N - 1])):
            if len(idx) >= N:
                continue
            v = r.normal(size=N) + 1j * r.normal(size=N)
            v[idx] = 0
            bcase(ctx, n, f"zero amplitude at the {where} index", clean(v / np.linalg.norm(v)), f"zero:{where}")
    # ---- arguments pi / -pi, imaginary axis, uniform vectors
    for n in (1, 2, 3, 4):
        N = 2 ** n
        u = 1 / math.sqrt(N)
        bcase(ctx, n, "uniform positive (all angles equal, phi = 0)", clean(np.full(N, u)), "uniform+")
        bcase(ctx, n, "uniform negative (arg = pi everywhere)", clean(np.full(N, -u)), "uniform-")
        bcase(ctx, n, "uniform, alternating signs", clean([u * (-1) ** k for k in range(N)]), "uniform+-")
        bcase(ctx, n, "uniform imaginary", clean([u * (1j if k % 2 else -1j) for k in range(N)]), "uniform-i")
        # arg = -pi: imaginary part -0.0 / -1e-300 (not through the tie: the sign of zero does not survive JSON)
        vm = [complex(-u, -0.0)] * N
        bcase(ctx, n, "real negative with imaginary part -0.0 (arg = -pi)", vm, "neg-minus-zero", tie=False)
        vm = [complex(-u, -1e-300)] * (N - 1) + [complex(-u, 0.0)]
        bcase(ctx, n, "real negative with imaginary part -1e-300 (arg = -pi)", vm, "neg-minus-tiny", tie=False)
    bcase(ctx, 1, "real negative with imaginary part -0.0 (arg = -pi)", [complex(-1.0, -0.0), 0j], "basis-neg-minus-zero", tie=False)
    bcase(ctx, 2, "real negative with imaginary part -0.0 (arg = -pi)", [0j, 0j, 0j, complex(-1.0, -0.0)], "basis-neg-minus-zero",
          tie=False)
    # ---- norm 1 +- 1ulp (the repetition count divides by the norm)
    for n in (1, 2, 4, 6):
        N = 2 ** n
        seen = set()
        for _ in range(60):
            v = r.normal(size=N) + 1j * r.normal(size=N)
            v = v / np.linalg.norm(v)
            nv = float(np.linalg.norm(v))
            if nv != 1.0 and (nv > 1) not in seen:
                seen.add(nv > 1)
                bcase(ctx, n, "norm = 1 %s 1ulp" % ("+" if nv > 1 else "-"), clean(v), f"norm:{'up' if nv > 1 else 'dn'}",
                      tie=n <= 5)
            if len(seen) == 2:
                break


# ----------------------------------------------------------------------------------------------------------------------
# input-diversity section: the same observable on the FORMS an ordinary valid vector / call can take
# ----------------------------------------------------------------------------------------------------------------------
def _is_int(a):
    return a.imag == 0 and float(a.real).is_integer()


def _mixed(v):
    return [int(a.real) if _is_int(a) else float(a.real) if a.imag == 0 else complex(a) for a in v]


def _negzero(v):
    out = []
    for k, a in enumerate(v):
        if a == 0:
            out.append([complex(-0.0, -0.0), complex(0.0, -0.0), complex(-0.0, 0.0), -0.0][k % 4])
        elif a.imag == 0 and a.real > 0:
            out.append(complex(a.real, -0.0))            # arg = -0.0
        else:
            out.append(complex(a))
    return out


RAWFORMS = {
    "list-complex": lambda v: [complex(a) for a in v],
    "tuple-complex": lambda v: tuple(complex(a) for a in v),
    "list-float": lambda v: [float(a.real) for a in v],
    "tuple-float": lambda v: tuple(float(a.real) for a in v),
    "list-int": lambda v: [int(a.real) for a in v],
    "tuple-int": lambda v: tuple(int(a.real) for a in v),
    "list-mixed": _mixed,
    "nd-int64": lambda v: np.array([int(a.real) for a in v], dtype=np.int64),
    "nd-int8": lambda v: np.array([int(a.real) for a in v], dtype=np.int8),
    "nd-float32": lambda v: np.array([a.real for a in v], dtype=np.float32),
    "nd-float64": lambda v: np.array([a.real for a in v], dtype=np.float64),
    "nd-complex64": lambda v: np.array(v, dtype=np.complex64),
    "nd-complex128": lambda v: np.array(v, dtype=np.complex128),
    "list-np-int64": lambda v: [np.int64(int(a.real)) for a in v],
    "list-np-float32": lambda v: [np.float32(a.real) for a in v],
    "list-np-float64": lambda v: [np.float64(a.real) for a in v],
    "list-np-complex64": lambda v: [np.complex64(a) for a in v],
    "list-np-complex128": lambda v: [np.complex128(a) for a in v],
    "negzero": _negzero,
}
REAL_FORMS = ("list-float", "tuple-float", "nd-float64", "list-np-float64", "list-mixed", "nd-complex128", "list-complex")
INT_FORMS = ("list-int", "tuple-int", "nd-int64", "nd-int8", "list-np-int64", "list-mixed")
F32_FORMS = ("nd-float32", "list-np-float32")          # only for vectors exactly representable in binary32
C64_FORMS = ("nd-complex64", "list-np-complex64")
ANY_FORMS = ("list-complex", "tuple-complex", "nd-complex128", "list-np-complex128", "list-mixed")
DIVERSITY = {
    "element types": "int lists / tuples / int64 / int8 arrays / numpy-int scalars (basis vectors +-1 at every index), float32 / complex64 "
                     "arrays and scalars (binary32-exact dyadic vectors), float64 arrays, float / complex lists and tuples, mixed "
                     "int-float-complex lists, complex dtype with zero imaginary parts and negative entries, negative zeros (oracle only)",
    "scale": "heavy head (1 or 2 entries) + light tail 1e-3..1e-6 at start / end / mixed, real negative head with a 1e-6 purely imaginary "
             "tail, all-equal moduli, two repeated values, all-negative, purely imaginary, modulus exactly 1, 1..3 non-zeros of 8..64, "
             "norm in one sub-tree (half / quarter / odd / even indices)",
    "phase": "global phase -1 / i / -i, per-entry phases +-1 / +-i",
    "call forms": "constructor, label, copy() before / after the definition is built, one gate object appended twice, static initialize "
                  "with qubits=None / permuted int list on a wider host / permuted Qubit objects of a two-register host / flag and index "
                  "registers declared in the opposite order",
    "sizes": "n = 1..6 (rounds r = 1, 1, 2, 3, 4, 6)",
}

HOWS = ("ctor", "ctor-label", "copy-before-def", "buffer-overwritten", "def-then-copy", "append-twice", "static-none", "static-ints",
        "static-qubit-objs", "static-register")
# flag-form pass: BlackBoxInitialize(params, label=None) / initialize(q_circuit, state, qubits=None) have NO boolean option
# and no numeric option; the arguments with a valid falsy value are the label ('' must be kept, None = default 'BBSP', both
# by keyword and positionally) and `qubits` (None given explicitly, by keyword and positionally); zero amplitudes in every
# numeric form (int 0, 0.0, -0.0, 0j, numpy zeros) are the vector families of sections 1-2 and the boundary pass.
FALSY_HOWS = ("ctor-label-empty", "ctor-label-empty-pos", "ctor-label-none", "ctor-label-none-pos", "static-qubits-none",
              "static-qubits-none-pos")


def build_how(raw, how, wires=None):
    """(definition of the real gate, host circuit or None, wires the host instruction should sit on)"""
    from qiskit import QuantumCircuit, QuantumRegister
    from qclib.state_preparation.blackbox import BlackBoxInitialize
    w = int(round(math.log2(len(raw)))) + 1
    if how == "ctor":
        return BlackBoxInitialize(raw).definition, None, None
    if how == "ctor-label":
        return BlackBoxInitialize(raw, label="div").definition, None, None
    if how in FALSY_HOWS[:4]:
        lab = "" if "empty" in how else None
        g = BlackBoxInitialize(raw, lab) if how.endswith("-pos") else BlackBoxInitialize(raw, label=lab)
        want = "BBSP" if lab is None else lab
        if g.label != want:
            raise AssertionError(f"label {lab!r} requested, the gate carries {g.label!r} (expected {want!r})")
        host = QuantumCircuit(w)
        host.append(g, list(range(w)))
        return g.definition, host, list(range(w))
    if how in FALSY_HOWS[4:]:
        host = QuantumCircuit(w)
        if how.endswith("-pos"):
            BlackBoxInitialize.initialize(host, raw, None)
        else:
            BlackBoxInitialize.initialize(host, raw, qubits=None)
        return host.data[0].operation.definition, host, list(range(w))
    if how == "copy-before-def":              # copied before the definition is built; the original is built afterwards
        g = BlackBoxInitialize(raw)
        g2 = g.copy()
        d2 = g2.definition
        d1 = g.definition
        host = QuantumCircuit(w)
        host.append(g2, list(range(w)))
        if dump(d1) != dump(d2):
            raise AssertionError("copy() taken before the definition is built gives a different definition than the original")
        return d2, host, list(range(w))
    if how == "buffer-overwritten":           # the caller's buffer is refilled after construction, BEFORE the definition is built
        g = BlackBoxInitialize(raw)
        saved = None
        try:
            if isinstance(raw, np.ndarray) and raw.flags.writeable:
                saved = raw.copy()
                raw[:] = np.roll(saved, 1)[::1] * (1j if np.iscomplexobj(raw) else -1)
            elif isinstance(raw, list):
                saved = list(raw)
                raw[:] = [(-x) for x in saved[1:] + saved[:1]]
            d = g.definition
        finally:
            if saved is not None:
                raw[:] = saved
        host = QuantumCircuit(w)
        host.append(g, list(range(w)))
        return d, host, list(range(w))
    if how == "def-then-copy":                # definition built, then copied, copy used
        g = BlackBoxInitialize(raw)
        _ = g.definition
        g2 = g.copy()
        host = QuantumCircuit(w)
        host.append(g2, list(range(w)))
        return g2.definition, host, list(range(w))
    if how == "append-twice":                 # one gate object on two disjoint wire sets (second one permuted)
        g = BlackBoxInitialize(raw)
        host = QuantumCircuit(2 * w)
        host.append(g, list(range(w)))
        host.append(g, list(wires))
        return g.definition, host, list(range(w))
    if how == "static-none":
        host = QuantumCircuit(w)
        BlackBoxInitialize.initialize(host, raw)
        return host.data[0].operation.definition, host, list(range(w))
    if how == "static-ints":
        host = QuantumCircuit(w + 2)
        BlackBoxInitialize.initialize(host, raw, qubits=list(wires))
        return host.data[0].operation.definition, host, list(wires)
    if how == "static-qubit-objs":            # Qubit objects of a host made of two registers, permuted
        host = QuantumCircuit(QuantumRegister(2, "a"), QuantumRegister(w, "b"))
        BlackBoxInitialize.initialize(host, raw, qubits=[host.qubits[i] for i in wires])
        return host.data[0].operation.definition, host, list(wires)
    if how == "static-register":              # flag and index registers declared in the opposite order of their use
        idx, flag = QuantumRegister(w - 1, "idx"), QuantumRegister(1, "flag")
        host = QuantumCircuit(idx, flag)
        BlackBoxInitialize.initialize(host, raw, qubits=[flag[0]] + list(idx))
        return host.data[0].operation.definition, host, [w - 1] + list(range(w - 1))
    raise ValueError(how)


def _how_wires(rng, how, w):
    if how == "append-twice":
        return rng.sample(range(w, 2 * w), w)
    if how in ("static-ints", "static-qubit-objs"):
        ws = rng.sample(range(w + 2), w)
        if ws == sorted(ws):
            ws = ws[::-1] if w > 1 else ws
        return ws
    return None


def div_case(ctx, n, name, v, rawform, how="ctor", wires=None, tie=True, tag=None):
    """v: the intended complex vector (python complex list); the library gets RAWFORMS[rawform](v) through `how`; the ideal
    is np.asarray(raw, dtype=complex) computed here"""
    from qiskit.quantum_info import Statevector
    raw = RAWFORMS[rawform](v)
    ideal = [complex(a) for a in np.asarray(raw, dtype=complex)]
    tag = tag or name
    key = f"n={n}:div:{tag}:{rawform}:{how}"
    rep = {"n": n, "family": "div", "vector": vec_payload(ideal), "rawform": rawform, "how": how, "wires": wires, "name": name,
           "tag": tag, "call": "qclib.state_preparation.blackbox.BlackBoxInitialize"}
    ctx.count("diversity:" + name)
    ctx.count("diversity:type:" + rawform)
    ctx.count("diversity:call:" + how)
    before = repr(raw)
    try:
        circ, host, on_want = build_how(raw, how, wires)
    except Exception as e:                    # every generated vector is valid: construction must not fail
        ctx.fail("blackbox.flag0:" + key + ":raises", f"{type(e).__name__}: {e}", rep)
        return
    if repr(raw) != before:
        ctx.fail("blackbox.input-mutated:" + key, "the caller's vector object was modified by the construction", rep)
    if tie and rawform != "negzero":
        ctx.tie({"op": "bb", "n": n, "re": [float(a.real) + 0.0 for a in ideal], "im": [float(a.imag) + 0.0 for a in ideal]},
                dump(circ), label=f"bb n={n} div {tag} {rawform} {how}")
    oracle_case(ctx, n, "div", ideal, key, circ=circ, extra=rep)
    if host is None:
        return
    w = n + 1
    hkey = f"blackbox.static-wiring:{key}"
    try:
        on = [host.find_bit(q).index for q in host.data[0].qubits]
        sv = np.asarray(Statevector(circ).data)
        hv = np.asarray(Statevector(host).data)
        want = np.zeros(2 ** host.num_qubits, dtype=complex)
        if how == "append-twice":
            for i, a in enumerate(sv):
                for j, b in enumerate(sv):
                    want[i + sum(((j >> t) & 1) << wires[t] for t in range(w))] = a * b
        else:
            for i, a in enumerate(sv):
                want[sum(((i >> t) & 1) << on_want[t] for t in range(w))] = a
        err = float(np.abs(hv - want).max())
    except Exception as e:
        ctx.fail(hkey + ":raises", f"{type(e).__name__}: {e}", rep)
        return
    if on != on_want or not err <= 1e-9:
        ctx.fail(hkey, f"instruction on wires {on} (asked {on_want}); host state differs from the placed definition by {err:.3e}", rep)
    else:
        ctx.ok(hkey, nontrivial=True)


def _unit(v):
    v = np.asarray(v, dtype=complex)
    return clean(v / np.linalg.norm(v))


def _head_tail(r, N, heavy_at, tail_kind):
    """one or two O(1) amplitudes at `heavy_at`, the others 1e-3 .. 1e-6 (geometric), phases from tail_kind"""
    v = np.zeros(N, dtype=complex)
    light = [i for i in range(N) if i not in heavy_at]
    for j, i in enumerate(light):
        mag = 10.0 ** (-3 - 3 * (j / max(1, len(light) - 1)))
        ph = {"pos": 1, "neg": -1, "imag": 1j, "mix": [1, -1, 1j, -1j][j % 4],
              "gen": np.exp(1j * r.uniform(0, 2 * math.pi))}[tail_kind]
        v[i] = mag * ph * (0.5 + r.uniform())
    hv = [0.8, -0.6j] if len(heavy_at) == 2 else [np.exp(1j * r.uniform(0, 2 * math.pi)) if tail_kind == "gen" else -1.0]
    for i, a in zip(heavy_at, hv):
        v[i] = a
    return _unit(v)


def _diversity_cases(ctx):
    rng, r = ctx.rng, ctx.nprng()
    hows_cycle = [0]

    def next_how():
        h = HOWS[hows_cycle[0] % len(HOWS)]
        hows_cycle[0] += 1
        return h

    def emit(n, name, v, forms, hows=None, tie=True, tag=None):
        """every raw form through the constructor, plus the forms spread round-robin over the other call forms"""
        for f in forms:
            div_case(ctx, n, name, v, f, "ctor", tie=tie, tag=tag)
            h = next_how() if hows is None else rng.choice(hows)
            if h != "ctor":
                div_case(ctx, n, name, v, f, h, wires=_how_wires(rng, h, n + 1), tie=tie, tag=tag)

    # ---- 1. element types -------------------------------------------------------------------------------------------
    # integer basis vectors (a single amplitude of modulus exactly 1, phases +1 / -1), every index at n = 1, 2; ends at n = 3
    for n in (1, 2, 3):
        N = 2 ** n
        for pos in (range(N) if n <= 2 else (0, 5, N - 1)):
            for sgn in (1, -1):
                v = [0j] * N
                v[pos] = complex(sgn)
                emit(n, "integer basis vector", v, INT_FORMS, tag=f"int-basis:{pos}:{'+' if sgn > 0 else '-'}")
        # modulus exactly 1 with phase +-i
        for pos, ph in ((0, 1j), (N - 1, -1j)):
            v = [0j] * N
            v[pos] = ph
            emit(n, "basis vector with phase +-i", v, ("list-complex", "nd-complex64", "list-np-complex64", "list-mixed"),
                 tag=f"i-basis:{pos}")
    # binary32-exact vectors: all moduli 2^-(n/2) for even n, per-entry signs / phases +-1, +-i
    for n in (2, 4):
        N = 2 ** n
        u = 2.0 ** (-n // 2)
        signs = [rng.choice([1, -1]) for _ in range(N)]
        signs[rng.randrange(N)] = -1
        emit(n, "dyadic real vector, negative entries, float32 / float64 / int-free forms", [complex(u * s) for s in signs],
             F32_FORMS + REAL_FORMS + C64_FORMS, tag="dyadic-real")
        emit(n, "dyadic all-negative real vector", [complex(-u)] * N, F32_FORMS + ("nd-float64", "list-float"), tag="dyadic-neg")
        ph = [rng.choice([1, -1, 1j, -1j]) for _ in range(N)]
        emit(n, "dyadic vector with per-entry phases +-1, +-i", [u * p for p in ph], C64_FORMS + ANY_FORMS, tag="dyadic-phases")
        emit(n, "dyadic purely imaginary vector", [u * rng.choice([1j, -1j]) for _ in range(N)], C64_FORMS + ("list-complex",),
             tag="dyadic-imag")
    # real vectors with negative entries in every real container / dtype (complex dtype with exactly zero imaginary parts too)
    for n in (1, 2, 3):
        v = r.normal(size=2 ** n)
        v[r.integers(2 ** n)] = -abs(v[0]) - 0.1
        emit(n, "real vector with negative entries", _unit(v), REAL_FORMS, tag="real-neg")
        emit(n, "all-negative real vector", _unit(-np.abs(r.normal(size=2 ** n)) - 0.05), REAL_FORMS, tag="all-neg")
        emit(n, "non-negative real vector", _unit(np.abs(r.normal(size=2 ** n)) + 0.05), ("list-float", "nd-float64"), tag="nonneg")
    # generic complex vectors in every complex container
    for n in (1, 2, 3):
        emit(n, "generic complex vector", _unit(r.normal(size=2 ** n) + 1j * r.normal(size=2 ** n)), ANY_FORMS, tag="haar")
    # negative zeros (oracle only: the sign of a zero does not survive the JSON tie)
    for n in (1, 2, 3):
        N = 2 ** n
        v = r.normal(size=N) + 1j * r.normal(size=N)
        v[[0, N - 1][: max(1, N // 2 - 0) if N > 2 else 1]] = 0
        v[rng.randrange(1, N) if N > 2 else 1] = abs(v[1]) + 0.3       # a positive real entry gets imaginary part -0.0
        v[0] = 0
        emit(n, "negative zeros (-0.0 real / imaginary parts)", _unit(v), ("negzero",), hows=("ctor", "static-ints"), tie=False,
             tag="negzero")

    # ---- 2. scale structure -----------------------------------------------------------------------------------------
    for n in (2, 3, 4):
        N = 2 ** n
        for where, heavy_at in (("start", [0]), ("end", [N - 1]), ("mixed", [rng.randrange(1, N - 1)]),
                                ("two-start", [0, 1]), ("two-ends", [0, N - 1])):
            for tail_kind in (("neg", "gen") if n < 4 else ("mix",)):
                v = _head_tail(r, N, heavy_at, tail_kind)
                forms = ("list-float", "nd-float64") if tail_kind == "neg" and len(heavy_at) == 1 else ("list-complex", "nd-complex128")
                emit(n, "heavy head + light tail (1e-3 .. 1e-6)", v, forms[: 1 if n == 4 else 2], tag=f"headtail:{where}:{tail_kind}")
    # real signed head (and real signed light entries) with a purely imaginary tail of 1e-6 .. 3e-6: "is the vector real?" must not
    # be answered with a tolerance
    for n in (1, 2, 3):
        N = 2 ** n
        for pos in (0, N - 1):
            v = np.array([(1e-6 * (1 + 2 * k / N)) * (1j if k % 2 else -1j) for k in range(N)], dtype=complex)
            v[pos] = -1.0
            if N > 2:
                v[(pos + 1) % N] = -2e-4
            emit(n, "real negative head, tiny purely imaginary tail", _unit(v), ("list-complex", "nd-complex128"),
                 tag=f"headtail:tiny-imag:{'start' if pos == 0 else 'end'}")
    for n in (1, 2, 3, 4):
        N = 2 ** n
        u = 1 / math.sqrt(N)
        emit(n, "all-equal moduli, per-entry phases +-1, +-i", clean([u * rng.choice([1, -1, 1j, -1j]) for _ in range(N)]),
             ("list-complex", "nd-complex128"), tag="equalmod-4phases")
        emit(n, "all-equal moduli, signs +-1 (real)", clean([u * rng.choice([1, -1]) for _ in range(N - 1)] + [-u]),
             ("list-float", "nd-float64", "nd-complex128"), tag="equalmod-signs")
        a, b = 0.6 / math.sqrt(N / 2), -0.8 / math.sqrt(N / 2)
        emit(n, "exactly repeated values (two distinct amplitudes)", clean([a, b] * (N // 2)), ("list-float", "tuple-complex"),
             tag="repeated")
        emit(n, "purely imaginary vector, mixed signs", _unit(1j * r.normal(size=N)), ("list-complex", "nd-complex128"), tag="imag")
    # nearly (not exactly) equal moduli / nearly equal phases: relative spread 1e-6 .. 5e-6, i.e. inside the default rtol of
    # np.allclose / np.isclose - a "uniform" or "single phase" shortcut taken with a tolerance shows only here
    for n in (1, 2, 3, 4):
        N = 2 ** n
        u = 1 / math.sqrt(N)
        for spread in (1e-6, 5e-6):
            d = np.array([spread * (2 * k / max(1, N - 1) - 1) for k in range(N)])
            ph = np.exp(1j * r.uniform(0, 2 * math.pi, size=N))
            emit(n, "nearly equal moduli (relative spread 1e-6 .. 5e-6)", _unit(u * (1 + d) * ph), ("list-complex", "nd-complex128"),
                 tag=f"nearequal-moduli:{spread:g}")
            emit(n, "nearly equal moduli, real positive", _unit(u * (1 + d[::-1])), ("list-float", "nd-float64"),
                 tag=f"nearequal-moduli-real:{spread:g}")
            amp = np.abs(r.normal(size=N)) + 0.3
            emit(n, "nearly equal phases (spread 1e-6 .. 5e-6 rad)", _unit(amp * np.exp(1j * (0.7 + d))), ("list-complex", "nd-complex128"),
                 tag=f"nearequal-phases:{spread:g}")
    # sparse: count of non-zeros << length (1, 2, 3 non-zeros), real-negative and complex
    for n, nnz in ((3, 1), (3, 2), (4, 1), (4, 2), (4, 3), (5, 1), (5, 2), (5, 3), (6, 2)):
        N = 2 ** n
        v = np.zeros(N, dtype=complex)
        idx = rng.sample(range(N), nnz)
        cplx = (n + nnz) % 2 == 0
        for i in idx:
            v[i] = (r.normal() + 1j * r.normal()) if cplx else -abs(r.normal()) - 0.1
        emit(n, "sparse vector, non-zeros << length", _unit(v), ("list-complex",) if cplx else ("list-float",),
             hows=("ctor",) if n >= 5 else None, tie=n <= 5, tag=f"sparse:nnz={nnz}:{'c' if cplx else 'neg'}")
    # norm carried by a single sub-tree: first half / last half / last quarter / odd indices / even indices
    for n in (2, 3, 4):
        N = 2 ** n
        for nm, sup in (("first-half", range(N // 2)), ("last-half", range(N // 2, N)), ("last-quarter", range(3 * N // 4, N)),
                        ("odd", range(1, N, 2)), ("even", range(0, N, 2))):
            v = np.zeros(N, dtype=complex)
            real = rng.random() < 0.5
            for i in sup:
                v[i] = r.normal() if real else r.normal() + 1j * r.normal()
            if real:
                v[list(sup)[-1]] = -abs(v[list(sup)[-1]]) - 0.1
            emit(n, "norm carried by one sub-tree", _unit(v), ("nd-float64",) if real else ("nd-complex128",),
                 tag=f"subtree:{nm}:{'real' if real else 'c'}")

    # ---- 3. sign / phase structure ----------------------------------------------------------------------------------
    for n in (1, 2, 3):
        N = 2 ** n
        base_c = np.asarray(_unit(r.normal(size=N) + 1j * r.normal(size=N)))
        base_r = np.asarray(_unit(np.abs(r.normal(size=N)) + 0.05))
        for nm, g in (("-1", -1), ("i", 1j), ("-i", -1j)):
            emit(n, "global phase -1 / i / -i times a generic vector", clean(g * base_c), ("list-complex",), tag=f"gphase{nm}:c")
            emit(n, "global phase -1 / i / -i times a non-negative vector", clean(g * base_r),
                 ("list-float", "nd-float64") if g == -1 else ("list-complex", "nd-complex128"), tag=f"gphase{nm}:r")

    # ---- 4. call forms on sizes 1..3 for a real-negative and a complex vector: every call form at every size --------------
    for n in (1, 2, 3):
        N = 2 ** n
        vr = _unit(r.normal(size=N) * np.array([(-1) ** k for k in range(N)]))
        vc = _unit(r.normal(size=N) + 1j * r.normal(size=N))
        vc[rng.randrange(N)] = 0j
        vc = _unit(vc) if any(a != 0 for a in vc) else vc
        for h in HOWS[1:]:
            div_case(ctx, n, "every call form", vr, "nd-float64" if n % 2 else "list-float", h, wires=_how_wires(rng, h, n + 1),
                     tag="callform:real")
            div_case(ctx, n, "every call form", vc, "list-complex" if n % 2 else "nd-complex128", h,
                     wires=_how_wires(rng, h, n + 1), tag="callform:c")
    # ---- 4b. falsy-but-valid arguments (flag-form pass): label '' / None, qubits None, keyword and positional
    for n in (1, 2, 3):
        N = 2 ** n
        vc = _unit(r.normal(size=N) + 1j * r.normal(size=N))
        for j, h in enumerate(FALSY_HOWS):
            ctx.count("flagforms:" + ("label:" if "label" in h else "qubits:") + h)
            div_case(ctx, n, "falsy valid argument", vc, ("list-complex", "nd-complex128")[(n + j) % 2], h, tag="flagforms:" + h,
                     tie=(n + j) % 2 == 0)
    # ---- 5. sizes: the round loop runs r = 1, 1, 2, 3, 4, 6 times at n = 1..6 (r = 0 never occurs for a unit vector); a real
    # signed and an integer basis vector at every n
    for n in (4, 5, 6):
        N = 2 ** n
        v = [0j] * N
        v[rng.randrange(N)] = -1 + 0j
        div_case(ctx, n, "integer basis vector", v, "nd-int64", "ctor", tie=n <= 5, tag="int-basis:rand:-")
        div_case(ctx, n, "real vector with negative entries", _unit(r.normal(size=N)), "nd-float64", "ctor", tie=n <= 5, tag="real-neg")


def run(ctx, n_tie=None, n_or=None, draws=None):
    assumptions(ctx)
    reps_tie(ctx)
    n_tie = n_tie or (5 if ctx.quick else 6)
    n_or = n_or or (7 if ctx.quick else 8)
    draws = draws or (2 if ctx.quick else 4)
    # the concrete input of the (fixed) arccos-NaN defect: must pass
    oracle_case(ctx, 1, "probe", PROBE, "n=1:probe", circ=tie_case(ctx, 1, "probe", PROBE))
    entry_forms(ctx)
    boundary_cases(ctx)
    _diversity_cases(ctx)
    for n in range(1, n_or + 1):
        for fam in FAMILIES:
            if fam == "pyth" and n < 1:
                continue
            for d in range(draws if n <= 6 else 1):
                if n >= 7 and fam not in ("haar", "sparse", "basisphase", "unimod", "peaked"):
                    continue
                v = make_vec(ctx, n, fam)
                circ = tie_case(ctx, n, fam, v) if n <= n_tie else None
                oracle_case(ctx, n, fam, v, f"n={n}:{fam}:{d}", circ=circ)
    ctx.notes.append("tie tolerance on RY angles relaxed to 1e-9 + 4e-15/sin(theta/2) (arccos is ill-conditioned at |a|=1; "
                     "np.abs uses hypot, the model sqrt(re^2+im^2)); -0.0 components are normalised to +0.0 before the call "
                     "(JSON drops the sign; np.angle(-0.0) = pi is immaterial for a zero amplitude)")


def search(ctx, hints):
    for h in hints:
        op = h.get("op", {})
        if op.get("op") == "bb":
            v = [complex(a, b) for a, b in zip(op["re"], op["im"])]
            oracle_case(ctx, op["n"], "hint", v, f"n={op['n']}:hint:{hash(tuple(v)) & 0xffffff:x}")
    oracle_case(ctx, 1, "probe", PROBE, "n=1:probe")
    for n in range(1, 8):
        for fam in FAMILIES:
            v = make_vec(ctx, n, fam)
            oracle_case(ctx, n, fam, v, f"n={n}:{fam}:s")


def replay(ctx, payload):
    r = payload["replay"]
    v = [complex(a, b) for a, b in r["vector"]]
    if r.get("rawform"):
        div_case(ctx, r["n"], r.get("name", "replay"), v, r["rawform"], r.get("how", "ctor"), wires=r.get("wires"), tie=False,
                 tag=r.get("tag"))
        return
    oracle_case(ctx, r["n"], r.get("family", "replay"), v, payload["key"].replace("blackbox.flag0:", "").replace(":abs>1", ""))
