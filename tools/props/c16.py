"""C16 — invalid inputs are rejected, never silently turned into a wrong circuit.

Source read on every run (AST, `generate`): qclib/gates/initialize.py (`Initialize._get_num_qubits`),
qclib/isometry.py (`decompose`, `_check_isometry`, `_is_isometry`), qclib/gates/util.py (`check_u2`,
`check_su2`), qclib/unitary.py (guard of `unitary`), and the constructors of every entry point the
property names.  The validators are straight-line `if <test>: raise …` sequences; each statement is
translated by an explicit pattern rule into DATA of `Model/Validate.lean` (`Step`/`Cond`/`Atom`), the
constructors into the entry-point table (`Entry`/`Ev`).  Anything outside the recognised forms raises
`Unsupported` (a broken obligation, never a silent skip).  The Lean theorems are statements about that
generated data, so deleting a `check_u2(...)` call, a `raise`, or changing a tolerance breaks them.
"""
import ast
import decimal
import inspect
import json
import math
import os
import struct
import warnings

CLAIMED = True
TECHNIQUE = ("Lean 4 proofs (ordered field, exact tolerances as rationals, all sizes) about validator skeletons and an entry-point "
             "table that are re-extracted from the Python AST of the current source on every run; decision diff of the REAL "
             "constructors against the executable model on a malformed-input stream (IEEE doubles on both sides); reject/accept "
             "oracle on the real code")
LEVEL_TEXT = ("Proved for every input over an ordered field (Lean, no size bound), about the step lists generated from the current "
              "source, each as an IFF plus 'otherwise ValueError': _get_num_qubits accepts a vector iff its length is 2^n with n>=1 "
              "and |sum|a|^2-1| <= 1e-10 (C16_dense; hence lengths 0,1,3,5,6,7,..., the all-zero vector and every rescaling c*v of a "
              "unit vector with |c^2-1| > 1e-10 raise ValueError: C16_dense_rejects); decompose's check accepts V iff rows=2^n, "
              "cols=2^m, cols<=rows and every entry of V^dagger V is within 1e-8+1e-5*delta_ij of delta_ij (C16_iso); check_u2 accepts "
              "iff the shape is (2,2) and U U^dagger is within the same tolerance of I (C16_u2); unitary()'s guard accepts iff the "
              "matrix is 2-D, square, 2^n x 2^n with U^dagger U within tolerance (C16_unitary); the entry-point table extracted from "
              "the constructors lists exactly the 18 entry points of the property (8 dense initializers incl. black-box, unitary, "
              "isometry.decompose, Ldmcu, Ldmcsu, LdMcSpecialUnitary, Qdmcu, Mcg, MCU, MultiTargetMCSU2 list/single) and in each the "
              "validator of its kind is applied to the input before the first building statement (C16_entrypoints, decide), hence "
              "every entry point accepts only inputs meeting the condition of its kind (C16_entry_sound). Tied: accept / exception "
              "class of the REAL constructors (and of check_u2 / check_su2 called directly) vs the model on IEEE doubles over the "
              "malformed stream (lengths 0..40, norm off by 1e-12..3 incl. 4e-10 and 9e-10, zero/NaN/inf/1e200, scaled, sheared, "
              "rank-deficient, wide, non-power-of-two, 3x3..7x7, wrong ndim, empty). Tested only: NaN/inf behaviour (IEEE, driver + "
              "oracle) and that a circuit is really produced for small valid inputs.")
LEVEL_NOTE = ("Trusted: Lean kernel (standard axioms); the pattern rules of the extractor in tools/props/c16.py (each atom = one Python "
              "expression form; the decision diff on the real constructors keeps them honest); math.isclose / cmath.isclose / "
              "np.allclose / qiskit is_unitary_matrix semantics (modelled from their definitions, defaults read at run time, "
              "exercised by the tie); log2(k).is_integer() <-> k is a power of two for k < 2^53; float vs exact arithmetic: inputs "
              "within a factor 3 of a tolerance are excluded from the stream; |x| compared through squares.")
LEAN_TARGETS = ["QclibModel.Props.C16"]
THEOREMS = ["Qclib.C16_dense", "Qclib.C16_dense_rejects", "Qclib.C16_iso", "Qclib.C16_u2", "Qclib.C16_unitary",
            "Qclib.C16_entrypoints", "Qclib.C16_entry_sound"]
TRUSTED = [
    "extractor pattern rules (tools/props/c16.py): each Atom/Step/Ev constructor stands for exactly the Python form named in Model/Validate.lean; kept honest by the decision diff against the real constructors",
    "CPython math.isclose / cmath.isclose, numpy allclose (|x-y| <= atol + rtol*|y|, defaults read from the installed numpy), qiskit is_unitary_matrix = allclose(conj(M.T).dot(M), eye) (defaults read from the installed qiskit)",
    "math.log2(k).is_integer() iff k is a power of two, log2(0) raises ValueError (k < 2^53)",
    "NaN / inf are handled by IEEE comparison semantics (tie on doubles); the theorems speak about finite exact numbers",
]
ASSUMPTIONS = ["exact arithmetic in the theorems; inputs within a factor 3 of a tolerance (1e-10 on the norm, 1e-8 / 1.001e-5 on Gram entries, 1e-9 on det) are not generated",
               "'returns a circuit' = the constructor returns and .definition builds; a constructor that returns but whose .definition raises is reported as late-reject (note), not as acceptance",
               "Bdsp/Dcsp (ancilla-using) and the sparse initializers are outside the property's list; their missing `raise` is reported in notes only"]
RULE = ("tie: (entry point, input array) pairs whose accept / exception class on the real constructor was diffed against the Lean model; "
        "oracle: malformed inputs (by an independent numpy classification, factor-3 band around tolerances excluded) must raise, "
        "valid inputs must be accepted; non-trivial = malformed input or valid input of size >= 2")
DRIVER = "Drivers/C16.lean"

GEN_REL = "QclibModel/Gen/Validate.lean"

# Generator-quality audit (tools/branch_audit.py C16): what the malformed-input stream does not reach in the anchored
# files, and why.  Every `raise` of the validators the property names IS reached (and tied).
UNREACHED_JUSTIFIED = {
    "qclib/isometry.py:337-353 cnot_count (exact path), 356-374 _cnot_count_estimate schemes, _cnot_count_estimate_ccd/knill":
        "CNOT counting, no validation involved: C10",
    "qclib/unitary.py:221-296 cnot_count, _cnot_count_estimate, _cnot_count_iso, _cnot_count_iso_qsd": "CNOT counting: C10",
    "qclib/unitary.py:212->214 _closest_unitary": "degenerate spectrum inside the synthesis of a VALID unitary (after the "
                                                  "guard): C02",
    "qclib/unitary.py:381-416 _apply_mcxs arcs": "QR synthesis of a VALID unitary, data-dependent wire patterns: C02",
    "qclib/gates/util.py:19-23 apply_ctrl_state '0' branch": "control patterns of the controlled gates (valid input): C04 / C05",
    "qclib/gates/util.py:36 u2_to_su2": "Mcg(up_to_diagonal=True) on a valid U(2): C04",
    "qclib/state_preparation/mixed.py (construction code)": "MixedInitialize is not among the entry points of the property's "
                                                            "sentence; its validation (lines 68-84) is evaluated on both sides of "
                                                            "every comparison by mixed_boundary (oracle only); the purification "
                                                            "itself is C14's property; see the side-probe note about ensemble members",
}


# ==================================================================================================
# 1. extractor: Python AST -> Lean data
# ==================================================================================================

class Unsupported(Exception):
    def __init__(self, rel, node, msg):
        ln = getattr(node, "lineno", "?")
        super().__init__(f"UNSUPPORTED {rel}:{ln}: {msg}")


def _u(node):
    return ast.unparse(node)


def _lstr(s):
    return json.dumps(s)


def _dec(value, rel, node):
    """float literal -> Lean `Dec` (exact decimal of the shortest repr)."""
    if isinstance(value, bool) or not isinstance(value, (int, float)):
        raise Unsupported(rel, node, f"tolerance {value!r} is not a number literal")
    if isinstance(value, float) and (math.isnan(value) or math.isinf(value) or value < 0):
        raise Unsupported(rel, node, f"tolerance {value!r}")
    d = decimal.Decimal(repr(value))
    sign, digits, exp = d.as_tuple()
    m = int("".join(map(str, digits)))
    if exp > 0:
        m, exp = m * 10 ** exp, 0
    while m and exp < 0 and m % 10 == 0:
        m, exp = m // 10, exp + 1
    if m == 0:
        exp = 0
    return f"⟨{m}, {-exp}⟩"


def _const(node, rel):
    if isinstance(node, ast.Constant) and isinstance(node.value, (int, float)) and not isinstance(node.value, bool):
        return node.value
    raise Unsupported(rel, node, f"expected a number literal, got `{_u(node)}`")


def _kw(call, names, rel):
    """keyword arguments of a call restricted to `names`; anything else is refused."""
    out = {}
    for k in call.keywords:
        if k.arg not in names:
            raise Unsupported(rel, call, f"keyword `{k.arg}` in `{_u(call)}`")
        out[k.arg] = _const(k.value, rel)
    return out


def _imports(tree):
    """name -> module for `from m import a [as b]` at module level."""
    out = {}
    for node in tree.body:
        if isinstance(node, ast.ImportFrom):
            for a in node.names:
                out[a.asname or a.name] = (node.module or "") + ":" + a.name
        elif isinstance(node, ast.Import):
            for a in node.names:
                out[a.asname or a.name] = a.name
    return out


def _defs(tree):
    return {n.name: n for n in tree.body if isinstance(n, (ast.FunctionDef, ast.ClassDef))}


def _body(fn):
    b = list(fn.body)
    if b and isinstance(b[0], ast.Expr) and isinstance(b[0].value, ast.Constant) and isinstance(b[0].value.value, str):
        b = b[1:]
    return b


def _library_defaults():
    import numpy as np
    from qiskit.quantum_info.operators import predicates
    sa = inspect.signature(np.allclose).parameters
    su = inspect.signature(predicates.is_unitary_matrix).parameters
    src = inspect.getsource(predicates.is_unitary_matrix) + inspect.getsource(predicates.is_identity_matrix)
    shape_ok = ("np.conj(mat.T).dot(mat)" in src and "np.allclose(mat, iden, rtol=rtol, atol=atol)" in src)
    return {"allclose": (sa["rtol"].default, sa["atol"].default),
            "is_unitary_matrix": (su["rtol"].default, su["atol"].default),
            "is_unitary_matrix_shape_ok": shape_ok}


class CondTr:
    """Translate a test expression.  `logs`: source text -> 'rows'|'cols' for names bound to log2 of a
    dimension; `dims`: source text -> 'rows'|'cols' for dimension expressions; `arr`: source texts that
    denote the input array; `grams`: names bound to a Gram matrix -> side."""

    def __init__(self, rel, tree, logs, dims, arr, grams=None, lib=None, local_fns=None):
        self.rel, self.tree, self.logs, self.dims, self.arr = rel, tree, dict(logs), dict(dims), set(arr)
        self.grams = dict(grams or {})
        self.lib = lib or _library_defaults()
        self.imports = _imports(tree)
        self.local = local_fns or {}

    def bad(self, node, msg):
        return Unsupported(self.rel, node, msg)

    def dim_of(self, node):
        s = _u(node)
        if s in self.dims:
            return self.dims[s]
        if isinstance(node, ast.Call) and _u(node.func) == "len" and len(node.args) == 1 and _u(node.args[0]) in self.arr:
            return "rows"
        if isinstance(node, ast.Subscript) and isinstance(node.value, ast.Attribute) and node.value.attr == "shape" \
                and _u(node.value.value) in self.arr and isinstance(node.slice, ast.Constant) and node.slice.value in (0, 1):
            return "rows" if node.slice.value == 0 else "cols"
        return None

    def log_of(self, node):
        s = _u(node)
        if s in self.logs:
            return self.logs[s]
        if isinstance(node, ast.Call) and _u(node.func) == "log2" and len(node.args) == 1 and not node.keywords:
            if self.imports.get("log2") != "math:log2":
                raise self.bad(node, "log2 is not math.log2")
            d = self.dim_of(node.args[0])
            if d:
                return d
        return None

    def gram_of(self, node):
        s = _u(node)
        if s in self.grams:
            return self.grams[s]
        for a in self.arr:
            if s == f"{a} @ np.conj({a}.T)":
                return "right"
            if s == f"np.conj({a}.T).dot({a})" or s == f"np.conj({a}.T) @ {a}":
                return "left"
        return None

    def cond(self, e):
        if isinstance(e, ast.BoolOp):
            op = ".or" if isinstance(e.op, ast.Or) else ".and"
            parts = [self.cond(v) for v in e.values]
            out = parts[-1]
            for p in reversed(parts[:-1]):
                out = f"({op} {p} {out})"
            return out
        if isinstance(e, ast.UnaryOp) and isinstance(e.op, ast.Not):
            return f"(.not {self.cond(e.operand)})"
        return f"(.atom {self.atom(e)})"

    def atom(self, e):
        if isinstance(e, ast.Compare) and len(e.ops) == 1:
            l, op, r = e.left, e.ops[0], e.comparators[0]
            ld = self.log_of(l)
            if ld and isinstance(r, ast.Constant) and r.value == 0 and not isinstance(r.value, bool):
                if isinstance(op, ast.Eq):
                    return f"(.logEqZero .{ld})"
                if isinstance(op, ast.Lt):
                    return f"(.logNeg .{ld})"
            rd = self.log_of(r)
            if ld and rd and isinstance(op, ast.Gt):
                return f"(.logGt .{ld} .{rd})"
            if isinstance(op, ast.NotEq):
                ls, rs = _u(l), _u(r)
                for a in self.arr:
                    if ls == f"{a}.ndim" and isinstance(r, ast.Constant) and isinstance(r.value, int):
                        return f"(.ndimNe {r.value})"
                    if ls == f"{a}.shape[0]" and rs == f"{a}.shape[1]":
                        return ".rowsNeCols"
                    if ls == f"{a}.shape" and isinstance(r, ast.Tuple) and len(r.elts) == 2 \
                            and all(isinstance(x, ast.Constant) and isinstance(x.value, int) for x in r.elts):
                        return f"(.shapeNe {r.elts[0].value} {r.elts[1].value})"
            raise self.bad(e, f"comparison `{_u(e)}`")
        if isinstance(e, ast.Call):
            f = e.func
            # <log>.is_integer()
            if isinstance(f, ast.Attribute) and f.attr == "is_integer" and not e.args and not e.keywords:
                d = self.log_of(f.value)
                if d:
                    return f"(.logIsInt .{d})"
                raise self.bad(e, f"`{_u(e)}`: receiver is not log2 of a dimension of the input")
            fn = _u(f)
            if fn == "isclose":
                return self.isclose(e)
            if fn == "np.allclose":
                return self.allclose(e, self.lib["allclose"])
            if fn == "is_unitary_matrix":
                if not self.imports.get("is_unitary_matrix", "").startswith("qiskit.quantum_info.operators.predicates:"):
                    raise self.bad(e, "is_unitary_matrix is not qiskit's predicate")
                if not self.lib["is_unitary_matrix_shape_ok"]:
                    raise self.bad(e, "installed qiskit's is_unitary_matrix no longer reads allclose(conj(M.T).dot(M), eye)")
                if len(e.args) != 1 or _u(e.args[0]) not in self.arr:
                    raise self.bad(e, f"`{_u(e)}` is not applied to the input")
                kw = _kw(e, ("rtol", "atol"), self.rel)
                rt, at = self.lib["is_unitary_matrix"]
                return f"(.gramClose .left {_dec(kw.get('rtol', rt), self.rel, e)} {_dec(kw.get('atol', at), self.rel, e)})"
            if fn in self.local:
                return self.inline_pred(e, self.local[fn])
            raise self.bad(e, f"call `{_u(e)}`")
        raise self.bad(e, f"test `{_u(e)}`")

    def isclose(self, e):
        mod = self.imports.get("isclose")
        if len(e.args) != 2 or _const(e.args[1], self.rel) != 1.0:
            raise self.bad(e, f"`{_u(e)}`: second argument must be the literal 1.0")
        kw = _kw(e, ("rel_tol", "abs_tol"), self.rel)
        rel = _dec(kw.get("rel_tol", 1e-09), self.rel, e)      # CPython default rel_tol = 1e-09
        ab = _dec(kw.get("abs_tol", 0.0), self.rel, e)         # CPython default abs_tol = 0.0
        a0 = _u(e.args[0])
        if mod == "math:isclose":
            for a in self.arr:
                if a0 == f"sum(np.absolute({a}) ** 2)":
                    return f"(.normClose {rel} {ab})"
            raise self.bad(e, f"`{_u(e)}`: first argument is not sum(np.absolute(<input>) ** 2)")
        if mod == "cmath:isclose":
            for a in self.arr:
                if a0 == f"np.linalg.det({a})":
                    return f"(.detClose {rel} {ab})"
            raise self.bad(e, f"`{_u(e)}`: first argument is not np.linalg.det(<input>)")
        raise self.bad(e, f"isclose is imported from {mod!r}")

    def allclose(self, e, defaults):
        if len(e.args) != 2:
            raise self.bad(e, f"`{_u(e)}`")
        side = self.gram_of(e.args[0])
        if not side:
            raise self.bad(e, f"`{_u(e.args[0])}` is not a Gram matrix of the input")
        ident = _u(e.args[1])
        ok = ident == "[[1.0, 0.0], [0.0, 1.0]]"
        for name, d in self.logs.items():
            if ident == f"np.eye(int(2 ** {name}))" and ((side == "left" and d == "cols") or (side == "right" and d == "rows")):
                ok = True
        if not ok:
            raise self.bad(e, f"`{ident}` is not the identity of the Gram matrix's size")
        kw = _kw(e, ("rtol", "atol"), self.rel)
        return f"(.gramClose .{side} {_dec(kw.get('rtol', defaults[0]), self.rel, e)} {_dec(kw.get('atol', defaults[1]), self.rel, e)})"

    def inline_pred(self, call, fn):
        """`_is_isometry(iso, log_cols)`: a local predicate whose body is `g = <gram>; return np.allclose(g, eye)`."""
        params = [a.arg for a in fn.args.args]
        if len(call.args) != len(params) or call.keywords:
            raise self.bad(call, f"`{_u(call)}`")
        sub = CondTr(self.rel, self.tree, {}, {}, set(), lib=self.lib)
        for p, a in zip(params, call.args):
            s = _u(a)
            if s in self.arr:
                sub.arr.add(p)
            elif s in self.logs:
                sub.logs[p] = self.logs[s]
            else:
                raise self.bad(call, f"argument `{s}` of `{_u(call)}`")
        body = _body(fn)
        for st in body[:-1]:
            if isinstance(st, ast.Assign) and len(st.targets) == 1 and isinstance(st.targets[0], ast.Name):
                side = sub.gram_of(st.value)
                if side:
                    sub.grams[st.targets[0].id] = side
                    continue
            raise Unsupported(self.rel, st, f"statement `{_u(st)}` in {fn.name}")
        last = body[-1] if body else None
        if not isinstance(last, ast.Return) or last.value is None:
            raise Unsupported(self.rel, fn, f"{fn.name} does not end in `return <test>`")
        c = sub.cond(last.value)
        if not c.startswith("(.atom "):
            raise Unsupported(self.rel, last, f"{fn.name}: compound return")
        return c[len("(.atom "):-1]


def _exc_name(raise_node, rel):
    e = raise_node.exc
    if isinstance(e, ast.Call) and isinstance(e.func, ast.Name):
        return e.func.id
    if isinstance(e, ast.Name):
        return e.id
    raise Unsupported(rel, raise_node, f"`{_u(raise_node)}`")


def _if_step(st, tr, rel):
    """`if c: raise E(...)` -> rejectIf;  `if c: <expression>` -> skipIf."""
    if st.orelse or len(st.body) != 1:
        raise Unsupported(rel, st, f"`if` with else / several statements in a validator: `{_u(st.test)}`")
    c = tr.cond(st.test)
    b = st.body[0]
    if isinstance(b, ast.Raise):
        return f".rejectIf {c} {_lstr(_exc_name(b, rel))}"
    if isinstance(b, (ast.Expr, ast.Pass)):
        return f".skipIf {c}"
    raise Unsupported(rel, b, f"body `{_u(b)}` of a validation `if`")


def extract_dense(repo, lib):
    rel = "qclib/gates/initialize.py"
    tree = ast.parse(open(os.path.join(repo, rel)).read())
    cls = _defs(tree).get("Initialize")
    fn = next((n for n in cls.body if isinstance(n, ast.FunctionDef) and n.name == "_get_num_qubits"), None) if cls else None
    if fn is None:
        raise Unsupported(rel, tree, "Initialize._get_num_qubits not found")
    params = [a.arg for a in fn.args.args]
    if params != ["self", "params"]:
        raise Unsupported(rel, fn, f"signature {params}")
    tr = CondTr(rel, tree, {}, {}, {"params"}, lib=lib)
    steps = []
    for st in _body(fn):
        if isinstance(st, ast.Assign) and len(st.targets) == 1:
            t, v = _u(st.targets[0]), st.value
            d = tr.log_of(v)
            if d and t not in tr.logs:
                tr.logs[t] = d
                steps.append(f".log2 .{d}")
                continue
            if isinstance(v, ast.Call) and _u(v.func) == "int" and len(v.args) == 1 and _u(v.args[0]) == t and t in tr.logs:
                del tr.logs[t]          # from here on an int: no further test may use it as a log
                continue
            raise Unsupported(rel, st, f"assignment `{_u(st)}`")
        if isinstance(st, ast.If):
            steps.append(_if_step(st, tr, rel))
            continue
        raise Unsupported(rel, st, f"statement `{_u(st)}`")
    return steps


def extract_iso(repo, lib):
    rel = "qclib/isometry.py"
    tree = ast.parse(open(os.path.join(repo, rel)).read())
    defs = _defs(tree)
    fn = defs.get("decompose")
    chk = defs.get("_check_isometry")
    if not isinstance(fn, ast.FunctionDef) or not isinstance(chk, ast.FunctionDef):
        raise Unsupported(rel, tree, "decompose / _check_isometry not found")
    inp = fn.args.args[0].arg
    tr = CondTr(rel, tree, {}, {}, {inp}, lib=lib,
                local_fns={k: v for k, v in defs.items() if isinstance(v, ast.FunctionDef)})
    steps = []
    called = False
    for st in _body(fn):
        s = _u(st)
        if isinstance(st, ast.Assign) and len(st.targets) == 1 and isinstance(st.targets[0], ast.Name):
            t, v = st.targets[0].id, st.value
            if isinstance(v, ast.Call) and _u(v.func) in (f"{a}.astype" for a in tr.arr) and _u(v) .endswith(".astype(complex)"):
                tr.arr.add(t)
                continue
            d = tr.dim_of(v)
            if d:
                tr.dims[t] = d
                continue
            d = tr.log_of(v)
            if d:
                tr.logs[t] = d
                steps.append(f".log2 .{d}")
                continue
            raise Unsupported(rel, st, f"assignment `{s}` before the isometry check")
        if isinstance(st, ast.If):
            a = next((a for a in tr.arr if s == f"if len({a}.shape) == 1:\n    {a} = {a}.reshape({a}.shape[0], 1)"), None)
            if a:
                continue                # a vector becomes an n x 1 matrix (the model's Arr has cols = 1 for ndim = 1)
            raise Unsupported(rel, st, f"`if {_u(st.test)}` before the isometry check")
        if isinstance(st, ast.Expr) and isinstance(st.value, ast.Call) and _u(st.value.func) == "_check_isometry":
            call = st.value
            ps = [a.arg for a in chk.args.args]
            if len(call.args) != len(ps) or call.keywords:
                raise Unsupported(rel, st, f"`{s}`")
            sub = CondTr(rel, tree, {}, {}, set(), lib=lib, local_fns=tr.local)
            for p, a in zip(ps, call.args):
                sa = _u(a)
                if sa in tr.arr:
                    sub.arr.add(p)
                elif sa in tr.logs:
                    sub.logs[p] = tr.logs[sa]
                else:
                    raise Unsupported(rel, st, f"argument `{sa}` of _check_isometry")
            for cs in _body(chk):
                if not isinstance(cs, ast.If):
                    raise Unsupported(rel, cs, f"statement `{_u(cs)}` in _check_isometry")
                steps.append(_if_step(cs, sub, rel))
            called = True
            break
        raise Unsupported(rel, st, f"statement `{s}` before the isometry check")
    if not called:
        raise Unsupported(rel, fn, "decompose never calls _check_isometry")
    return steps


def extract_util(repo, lib):
    rel = "qclib/gates/util.py"
    tree = ast.parse(open(os.path.join(repo, rel)).read())
    defs = _defs(tree)
    u2, su2 = defs.get("check_u2"), defs.get("check_su2")
    if not isinstance(u2, ast.FunctionDef) or not isinstance(su2, ast.FunctionDef):
        raise Unsupported(rel, tree, "check_u2 / check_su2 not found")
    tr = CondTr(rel, tree, {}, {}, {u2.args.args[0].arg}, lib=lib)
    steps = []
    for st in _body(u2):
        if not isinstance(st, ast.If):
            raise Unsupported(rel, st, f"statement `{_u(st)}` in check_u2")
        steps.append(_if_step(st, tr, rel))
    tr2 = CondTr(rel, tree, {}, {}, {su2.args.args[0].arg}, lib=lib)
    b = _body(su2)
    if len(b) != 1 or not isinstance(b[0], ast.Return) or b[0].value is None:
        raise Unsupported(rel, su2, "check_su2 is not a single `return <test>`")
    return steps, tr2.cond(b[0].value)


def _mentions(node, names):
    return any(isinstance(n, ast.Name) and n.id in names for n in ast.walk(node))


def extract_unitary_guard(repo, lib):
    rel = "qclib/unitary.py"
    tree = ast.parse(open(os.path.join(repo, rel)).read())
    fn = _defs(tree).get("unitary")
    if not isinstance(fn, ast.FunctionDef):
        raise Unsupported(rel, tree, "unitary not found")
    inp = fn.args.args[0].arg
    tr = CondTr(rel, tree, {}, {}, {inp}, lib=lib)
    steps = []
    for st in _body(fn):
        if isinstance(st, ast.Assign) and len(st.targets) == 1 and isinstance(st.targets[0], ast.Name) \
                and any(_u(st.value) == f"np.asarray({a})" for a in tr.arr):
            tr.arr.add(st.targets[0].id)
            continue
        if isinstance(st, ast.If) and not st.orelse and any(
                _u(st) == f"if {a}.dtype in (np.float16, np.float32, np.complex64):\n"
                          f"    {a} = {a}.astype(np.result_type({a}.dtype, np.float64))" for a in tr.arr):
            continue                    # widening to double precision: every value is kept exactly (no step in the model)
        if isinstance(st, ast.If) and len(st.body) == 1 and isinstance(st.body[0], (ast.Raise, ast.Expr, ast.Pass)) \
                and not st.orelse and _mentions(st.test, tr.arr):
            steps.append(_if_step(st, tr, rel))
            continue
        break
    return steps


VALIDATORS = {"check_u2", "_check_isometry", "_get_num_qubits"}
PREDICATES = {"check_su2", "is_unitary_matrix", "_is_isometry", "isclose"}

# (kind, file, class or function); the property's list of entry points
ENTRY_POINTS = [
    ("dense", "qclib/state_preparation/topdown.py", "TopDownInitialize"),
    ("dense", "qclib/state_preparation/lowrank.py", "LowRankInitialize"),
    ("dense", "qclib/state_preparation/svd.py", "SVDInitialize"),
    ("dense", "qclib/state_preparation/ucg.py", "UCGInitialize"),
    ("dense", "qclib/state_preparation/ucge.py", "UCGEInitialize"),
    ("dense", "qclib/state_preparation/isometry.py", "IsometryInitialize"),
    ("dense", "qclib/state_preparation/baa_lowrank.py", "BaaLowRankInitialize"),
    ("dense", "qclib/state_preparation/blackbox.py", "BlackBoxInitialize"),
    ("unitary", "qclib/unitary.py", "unitary"),
    ("isometry", "qclib/isometry.py", "decompose"),
    ("u2", "qclib/gates/ldmcu.py", "Ldmcu"),
    ("u2", "qclib/gates/ldmcsu.py", "Ldmcsu"),
    ("u2", "qclib/gates/ldmcsu.py", "LdMcSpecialUnitary"),
    ("u2", "qclib/gates/qdmcu.py", "Qdmcu"),
    ("u2", "qclib/gates/mcg.py", "Mcg"),
    ("u2", "qclib/gates/mcu.py", "MCU"),
    ("u2", "qclib/gates/multitargetmcsu2.py", "MultiTargetMCSU2"),
]
BASE_GATES = {"Gate", "Initialize", "InitializeSparse", "InitializeMixed", "Instruction", "ControlledGate"}


class EntryTr:
    def __init__(self, repo):
        self.repo = repo
        self.trees = {}

    def tree(self, rel):
        if rel not in self.trees:
            self.trees[rel] = ast.parse(open(os.path.join(self.repo, rel)).read())
        return self.trees[rel]

    def find_class(self, name):
        for sub in ("qclib/state_preparation", "qclib/gates"):
            d = os.path.join(self.repo, sub)
            for f in sorted(os.listdir(d)):
                if f.endswith(".py"):
                    rel = f"{sub}/{f}"
                    c = _defs(self.tree(rel)).get(name)
                    if isinstance(c, ast.ClassDef):
                        return rel, c
        return None, None

    def resolve(self, rel, cls, call):
        """Name of the validator / predicate a call refers to, or None."""
        f = call.func
        tree = self.tree(rel)
        imps, defs = _imports(tree), _defs(tree)
        if isinstance(f, ast.Name):
            n = f.id
            if n not in VALIDATORS | PREDICATES:
                return None
            if n in defs:
                return n if rel in ("qclib/isometry.py", "qclib/gates/util.py") else f"{rel}:{n}"   # locally redefined
            src = imps.get(n, "")
            if n in ("check_u2", "check_su2") and src in (f"util:{n}", f"qclib.gates.util:{n}", f".util:{n}", f"gates.util:{n}"):
                return n
            if n == "is_unitary_matrix" and src.startswith("qiskit.quantum_info.operators.predicates:"):
                return n
            return f"{src or rel}:{n}"
        if isinstance(f, ast.Attribute) and isinstance(f.value, ast.Name) and f.value.id == "self" and f.attr == "_get_num_qubits":
            # method resolution: the class itself, then its bases, up to Initialize
            c, crel = cls, rel
            for _ in range(6):
                if c is None:
                    break
                if any(isinstance(n, ast.FunctionDef) and n.name == "_get_num_qubits" for n in c.body):
                    return f"{c.name}._get_num_qubits"
                base = _u(c.bases[0]) if c.bases else None
                if base == "Initialize":
                    return "Initialize._get_num_qubits"
                crel, c = self.find_class(base) if base else (None, None)
            return f"{cls.name if cls else '?'}._get_num_qubits(unresolved)"
        return None

    def is_input(self, node, aliases):
        s = _u(node)
        return s in aliases or any(s in (f"np.asarray({a})", f"np.array({a})") for a in aliases)

    def contains_validation(self, node):
        for n in ast.walk(node):
            if isinstance(n, ast.Call):
                f = n.func
                nm = f.id if isinstance(f, ast.Name) else (f.attr if isinstance(f, ast.Attribute) else None)
                if nm in VALIDATORS | PREDICATES:
                    return True
        return False

    def events(self, rel, cls, fn, stmts, aliases, each=False, depth=0, owner=None):
        """Events of a statement list, in order, up to and including the first `build`.
        Returns (events, stopped)."""
        tree = self.tree(rel)
        local_fns = {k for k, v in _defs(tree).items() if isinstance(v, ast.FunctionDef)}
        evs = []
        aliases = set(aliases)
        owner = owner if owner is not None else cls      # class whose body the statements are in (for super())
        in_guard_fn = cls is None
        for st in stmts:
            if isinstance(st, ast.Expr) and isinstance(st.value, ast.Constant):
                continue
            # aliases of the input
            if isinstance(st, ast.Assign) and len(st.targets) == 1 and isinstance(st.targets[0], ast.Name):
                v = st.value
                if self.is_input(v, aliases) or (isinstance(v, ast.Call) and isinstance(v.func, ast.Attribute)
                                                 and v.func.attr in ("astype", "reshape", "copy") and _u(v.func.value) in aliases):
                    aliases.add(st.targets[0].id)
                    continue
            call = st.value if isinstance(st, (ast.Expr, ast.Assign)) and isinstance(getattr(st, "value", None), ast.Call) else None
            if call is not None:
                # super().__init__(...)
                if _u(call.func) == "super().__init__":
                    base = _u(owner.bases[0]) if owner is not None and owner.bases else None
                    if base and base not in BASE_GATES:
                        brel, bcls = self.find_class(base)
                        if bcls is None or depth > 3:
                            raise Unsupported(rel, st, f"base class {base} not found")
                        binit = next((n for n in bcls.body if isinstance(n, ast.FunctionDef) and n.name == "__init__"), None)
                        if binit is None or not call.args or not self.is_input(call.args[0], aliases):
                            raise Unsupported(rel, st, f"`{_u(st)}` does not pass the input to {base}.__init__")
                        sub, _ = self.events(brel, cls, binit, _body(binit), {binit.args.args[1].arg}, depth=depth + 1, owner=bcls)
                        # `self._get_num_qubits` inside the base constructor resolves against the SUBCLASS (cls)
                        evs.extend(sub)
                        return evs, True
                    evs.append(f".build {_lstr('super().__init__')}")
                    return evs, True
                name = self.resolve(rel, cls, call)
                if name is not None:
                    short = name.split(".")[-1].split(":")[-1]
                    applied = bool(call.args) and self.is_input(call.args[0], aliases)
                    if short in PREDICATES:
                        evs.append(f".ignored {_lstr(name)}" if applied else f".misapplied {_lstr(name)}")
                    elif not applied:
                        evs.append(f".misapplied {_lstr(name)}")
                    else:
                        evs.append(f".{'validateEach' if each else 'validate'} {_lstr(name)}")
                    continue
                if isinstance(call.func, ast.Name) and call.func.id in local_fns:
                    evs.append(f".build {_lstr(call.func.id)}")
                    return evs, True
                if self.contains_validation(st):
                    raise Unsupported(rel, st, f"validator used inside `{_u(st)}`")
                continue
            if isinstance(st, ast.If):
                t = st.test
                single_raise = len(st.body) == 1 and isinstance(st.body[0], ast.Raise) and not st.orelse
                # if not predicate(input): raise E
                if single_raise and isinstance(t, ast.UnaryOp) and isinstance(t.op, ast.Not) and isinstance(t.operand, ast.Call):
                    name = self.resolve(rel, cls, t.operand)
                    if name is not None and name.split(":")[-1] in PREDICATES and in_guard_fn is False:
                        if t.operand.args and self.is_input(t.operand.args[0], aliases):
                            evs.append(f".requireTrue {_lstr(name)} {_lstr(_exc_name(st.body[0], rel))}")
                        else:
                            evs.append(f".misapplied {_lstr(name)}")
                        continue
                if single_raise and in_guard_fn and _mentions(t, aliases):
                    if not evs or not evs[-1].startswith(".guard "):
                        evs.append(f".guard {_lstr(fn.name)}")
                    continue
                if single_raise and not self.contains_validation(t):
                    evs.append(f".opaqueGuard {_lstr(_exc_name(st.body[0], rel))}")
                    continue
                if any(isinstance(n, ast.Return) for b in (st.body, st.orelse) for s in b for n in ast.walk(s)):
                    if self.contains_validation(st):
                        raise Unsupported(rel, st, "validation inside a returning branch")
                    evs.append(f".build {_lstr('return ' + _u(next(n for s in st.body + st.orelse for n in ast.walk(s) if isinstance(n, ast.Return)).value)[:40])}")
                    return evs, True
                if self.contains_validation(st):
                    raise Unsupported(rel, st, f"conditional validation `if {_u(t)}`")
                continue
            if isinstance(st, ast.Return):
                evs.append(f".build {_lstr('return ' + (_u(st.value)[:40] if st.value else ''))}")
                return evs, True
            if self.contains_validation(st):
                raise Unsupported(rel, st, f"validation inside `{_u(st)[:60]}`")
        return evs, False

    def entry(self, kind, rel, name):
        """-> list of (entry name, kind, events)."""
        tree = self.tree(rel)
        node = _defs(tree).get(name)
        if node is None:
            raise Unsupported(rel, tree, f"{name} not found")
        if isinstance(node, ast.FunctionDef):
            evs, _ = self.events(rel, None, node, _body(node), {node.args.args[0].arg})
            return [(f"{rel}:{name}", kind, evs)]
        init = next((n for n in node.body if isinstance(n, ast.FunctionDef) and n.name == "__init__"), None)
        if init is None:
            raise Unsupported(rel, node, f"{name}.__init__ not found")
        inp = init.args.args[1].arg
        body = _body(init)
        # MultiTargetMCSU2: `if isinstance(inp, list): for u in inp: … else: …`
        for i, st in enumerate(body):
            if isinstance(st, ast.If) and _u(st.test) == f"isinstance({inp}, list)" and len(st.body) == 1 \
                    and isinstance(st.body[0], ast.For) and _u(st.body[0].iter) == inp and isinstance(st.body[0].target, ast.Name):
                pre, _ = self.events(rel, node, init, body[:i], {inp})
                rest = body[i + 1:]
                loop = st.body[0]
                ev_l, stop_l = self.events(rel, node, init, loop.body, {loop.target.id}, each=True)
                ev_s, stop_s = self.events(rel, node, init, st.orelse, {inp})
                tail_l, _ = ([], True) if stop_l else self.events(rel, node, init, rest, {inp})
                tail_s, _ = ([], True) if stop_s else self.events(rel, node, init, rest, {inp})
                return [(f"{rel}:{name}[list]", kind, pre + ev_l + tail_l),
                        (f"{rel}:{name}[single]", kind, pre + ev_s + tail_s)]
        evs, _ = self.events(rel, node, init, body, {inp})
        return [(f"{rel}:{name}", kind, evs)]


def extract_all(repo):
    lib = _library_defaults()
    dense = extract_dense(repo, lib)
    iso = extract_iso(repo, lib)
    u2, su2 = extract_util(repo, lib)
    ug = extract_unitary_guard(repo, lib)
    et = EntryTr(repo)
    table = []
    for kind, rel, name in ENTRY_POINTS:
        table.extend(et.entry(kind, rel, name))
    return {"dense": dense, "iso": iso, "u2": u2, "su2": su2, "unitary": ug, "table": table, "lib": lib}


def render(x):
    def lst(items, ind="  "):
        if not items:
            return "[]"
        return "[\n" + ",\n".join(ind + "  " + i for i in items) + "\n" + ind + "]"
    out = ["import QclibModel.Model.Validate",
           "/-",
           "  GENERATED by tools/props/c16.py (generate) from the Python AST of qclib/gates/initialize.py,",
           "  qclib/isometry.py, qclib/gates/util.py, qclib/unitary.py and the constructors of the entry points.",
           "  Rewritten on every run — do not edit.",
           "-/",
           "namespace Qclib.Validate.Gen",
           "",
           "/-- `Initialize._get_num_qubits(self, params)` -/",
           "def denseSteps : List Step := " + lst(x["dense"]),
           "",
           "/-- `decompose`'s prologue (`log2` of both dimensions) followed by `_check_isometry` (with `_is_isometry` inlined) -/",
           "def isoSteps : List Step := " + lst(x["iso"]),
           "",
           "/-- `check_u2(matrix)` -/",
           "def u2Steps : List Step := " + lst(x["u2"]),
           "",
           "/-- `check_su2(matrix)` (a predicate: returns the test) -/",
           "def su2Pred : Cond := " + x["su2"],
           "",
           "/-- the guard at the top of `unitary(gate, …)` -/",
           "def unitarySteps : List Step := " + lst(x["unitary"]),
           "",
           "def validators : Validators where",
           "  steps := fun",
           "    | \"Initialize._get_num_qubits\" => denseSteps",
           "    | \"_check_isometry\" => isoSteps",
           "    | \"check_u2\" => u2Steps",
           "    | \"unitary\" => unitarySteps",
           "    | _ => []",
           "  preds := fun",
           "    | \"check_su2\" => su2Pred",
           "    | _ => .not (.atom (.ndimNe 0))",
           "",
           "/-- every entry point the property names: the validation-relevant statements of its constructor /",
           "function body in source order, up to the first statement that builds -/",
           "def entryTable : List Entry := " + lst(
               [f"⟨{_lstr(n)}, .{k}, [{', '.join(e)}]⟩" for n, k, e in x["table"]]),
           "",
           "end Qclib.Validate.Gen",
           ""]
    return "\n".join(out)


def generate(ctx):
    import framework
    x = extract_all(framework.REPO)
    text = render(x)
    path = os.path.join(framework.LEAN, GEN_REL)
    os.makedirs(os.path.dirname(path), exist_ok=True)
    old = open(path).read() if os.path.exists(path) else None
    if old != text:
        with open(path, "w") as f:
            f.write(text)
    return {"file": "lean/" + GEN_REL, "validators": 5, "entry_rows": len(x["table"]), "bytes": len(text),
            "library_defaults": {k: list(v) if isinstance(v, tuple) else v for k, v in x["lib"].items()}}


# ==================================================================================================
# 2. harness: the REAL constructors on a malformed / valid stream
# ==================================================================================================

def _bits(x):
    return struct.unpack("<Q", struct.pack("<d", float(x)))[0]


def _short(name):
    return name.split(":")[-1]


def arr_fields(A):
    """ndim / rows / cols / entries (IEEE bits, row-major) of an array as the model's `Arr`."""
    import numpy as np
    A = np.asarray(A)
    ndim = A.ndim
    rows = A.shape[0] if ndim >= 1 else 0
    cols = A.shape[1] if ndim >= 2 else 1
    if ndim <= 2:
        flat = A.reshape(-1).astype(complex)
    else:                                   # only ndim / shape matter for these inputs
        flat = A.reshape(rows, cols, -1)[:, :, 0].reshape(-1).astype(complex)
    return {"ndim": ndim, "rows": rows, "cols": cols,
            "re": [_bits(z.real) for z in flat], "im": [_bits(z.imag) for z in flat]}


def is_pow2(n):
    return n >= 1 and (n & (n - 1)) == 0


def gram_ratio(M, side):
    """max |G - I| / (atol + rtol*I) entrywise, G = M^dagger M (left) or M M^dagger (right); inf for NaN/inf."""
    import numpy as np
    with np.errstate(all="ignore"):
        G = (np.conj(M.T) @ M) if side == "left" else (M @ np.conj(M.T))
        eye = np.eye(G.shape[0])
        r = np.abs(G - eye) / (1e-8 + 1e-5 * eye)
    if not np.all(np.isfinite(r)):
        return math.inf
    return float(r.max()) if r.size else 0.0


def classify(kind, A):
    """The property's validity condition, computed independently of qclib.
    -> 'valid' | 'malformed:<why>' | 'band' (within a factor 3 of a tolerance: not generated / skipped)."""
    import numpy as np
    A = np.asarray(A)
    if A.dtype.kind in "biufc" and A.dtype != np.complex128:
        with np.errstate(all="ignore"):
            A = A.astype(np.complex128)      # the VALUES decide (Gram matrices of int8 / float16 arrays wrap or round in their dtype)
    if kind == "dense":
        n = len(A)
        if A.ndim != 1:
            return "malformed:ndim"
        if n < 2 or not is_pow2(n):
            return "malformed:length"
        with np.errstate(all="ignore"):
            s = float(np.sum(np.abs(A.astype(complex)) ** 2))
        if not math.isfinite(s):
            return "malformed:nonfinite"
        d = abs(s - 1.0)
        return "malformed:norm" if d > 3e-10 else ("valid" if d < 1e-10 / 3 else "band")
    if kind == "u2":
        if A.shape != (2, 2):
            return "malformed:shape"
        r = max(gram_ratio(A, "left"), gram_ratio(A, "right"))
        r0 = min(gram_ratio(A, "left"), gram_ratio(A, "right"))
        return "malformed:gram" if r0 > 3 else ("valid" if r < 1 / 3 else "band")
    if kind == "unitary":
        if A.ndim != 2:
            return "malformed:ndim"
        if A.shape[0] != A.shape[1]:
            return "malformed:nonsquare"
        if not is_pow2(A.shape[0]):
            return "malformed:notpow2"
        r = gram_ratio(A, "left")
        return "malformed:gram" if r > 3 else ("valid" if r < 1 / 3 else "band")
    if kind == "isometry":
        M = A.reshape(A.shape[0], 1) if A.ndim == 1 else A
        if M.ndim != 2:
            return "malformed:ndim"
        if not is_pow2(M.shape[0]) or not is_pow2(M.shape[1]):
            return "malformed:notpow2"
        if M.shape[1] > M.shape[0]:
            return "malformed:wide"
        r = gram_ratio(M, "left")
        return "malformed:gram" if r > 3 else ("valid" if r < 1 / 3 else "band")
    raise ValueError(kind)


# ---------------------------------------------------------------------------------------------- inputs

def _haar(n, nprng):
    import numpy as np
    z = (nprng.standard_normal((n, n)) + 1j * nprng.standard_normal((n, n))) / math.sqrt(2)
    q, r = np.linalg.qr(z)
    d = np.diag(r)
    return q * (d / np.abs(d))


def _unit(n, nprng, real=False):
    import numpy as np
    v = nprng.standard_normal(n) + (0 if real else 1j * nprng.standard_normal(n))
    return v / np.linalg.norm(v)


def _renorm(v):
    """normalise so that Python's own sum of squares is within an ulp or two of 1."""
    import numpy as np
    for _ in range(3):
        v = v / math.sqrt(float(np.sum(np.abs(v) ** 2)))
    return v


def dense_stream(ctx, nprng):
    import numpy as np
    out = []
    for n in range(0, 41):                                         # every length 0..40, unit norm
        v = _renorm(_unit(n, nprng)) if n else np.zeros(0)
        out.append((f"len{n}", v))
    sizes = (2, 4, 8, 16) if ctx.quick else (2, 4, 8, 16, 32, 64)
    for n in sizes:
        base = _renorm(_unit(n, nprng, real=ctx.rng.random() < 0.3))
        for d in (1e-12, 3e-11, 4e-10, 9e-10, 1e-8, 1e-6, 1e-4, 1e-3, 1e-2, 0.1, 0.5, 1.0, 3.0):
            for sg in (1, -1):
                if sg < 0 and d >= 1:
                    continue
                out.append((f"norm{'+' if sg > 0 else '-'}{d:g}", base * math.sqrt(1 + sg * d)))
        for c in (1 + 1e-4, 1 - 1e-4, 2.0, 0.5, 1 + 1e-3, -1.0, 1j):
            out.append((f"scaled{c:g}" if not isinstance(c, complex) else "scaled1j", base * c))
        out.append(("zero", np.zeros(n)))
        out.append(("zero-int", np.zeros(n, dtype=int)))
        k = ctx.rng.randrange(n)
        for lab, val in (("nan", np.nan), ("inf", np.inf), ("-inf", -np.inf), ("nanj", 1j * np.nan), ("huge", 1e200)):
            w = base.astype(complex).copy()
            w[k] = val
            out.append((lab, w))
        out.append(("all-nan", np.full(n, np.nan)))
        e = np.zeros(n)
        e[k] = 1.0
        out.append(("basis", e))
        out.append(("basis-phase", e * np.exp(1j * ctx.rng.uniform(0, 6.28))))
        out.append(("uniform", _renorm(np.ones(n))))
        out.append(("real-signed", _renorm(_unit(n, nprng, real=True))))
        out.append(("noisy1e-13", _renorm(base) * (1 + 1e-13)))
        out.append(("list", ("LIST", _renorm(_unit(n, nprng)))))
        # valid vectors whose entries are numpy scalars that are NOT Python int/float/complex (np.int64, np.float32):
        # the second branch of Initialize.validate_parameter; the squared amplitudes sum to 1 exactly in their own type
        out.append(("basis-int64", e.astype(np.int64)))
        cnt = 4 ** int(math.log(n, 4) + 1e-9)
        f32 = np.zeros(n, dtype=np.float32)
        f32[:cnt] = np.float32(1.0 / math.sqrt(cnt))
        out.append(("uniform-float32", f32))
        out.append(("ones-int64-unnormalised", np.ones(n, dtype=np.int64)))
    return out


def _shear(n, eps):
    import numpy as np
    s = np.eye(n, dtype=complex)
    s[0, n - 1] = eps
    return s


def unitary_stream(ctx, nprng):
    import numpy as np
    out = []
    sizes = (2, 4, 8) if ctx.quick else (2, 4, 8, 16)
    for n in sizes:
        U = _haar(n, nprng)
        out += [("haar", U), ("identity", np.eye(n)), ("minus-i-identity", -1j * np.eye(n)),
                ("diag-phases", np.diag(np.exp(1j * nprng.uniform(0, 6.28, n)))),
                ("permutation", np.eye(n)[nprng.permutation(n)]),
                ("real-orthogonal", np.linalg.qr(nprng.standard_normal((n, n)))[0]),
                ("noisy1e-11", U + 1e-11 * nprng.standard_normal((n, n)))]
        for c in (2.0, 0.5, 1 + 1e-3, 1 - 1e-3, 1 + 1e-4, 3.0):
            out.append((f"scaled{c:g}", c * U))
        for eps in (1.0, 1e-3, 1e-6):
            out.append((f"shear{eps:g}", U @ _shear(n, eps)))
        Z = U.copy()
        Z[:, 0] = 0
        out.append(("zero-column", Z))
        D = U.copy()
        D[:, 1] = D[:, 0]
        out.append(("duplicate-column", D))
        out.append(("rank-deficient-projector", np.diag([1.0] * (n - 1) + [0.0])))
        if n >= 4:
            # only the TRAILING columns are wrong (leading half / leading quarter orthonormal): a validator that
            # looks at the leading columns only (isometry mode) must not let these through
            T = U.copy()
            T[:, n // 2:] = nprng.standard_normal((n, n - n // 2))
            out.append(("trailing-half-random", T))
            T = U.copy()
            T[:, -1] = 2.0 * T[:, -1]
            out.append(("last-column-doubled", T))
            T = U.copy()
            T[:, -1] = T[:, -2]
            out.append(("last-column-repeated", T))
            T = U.copy()
            T[:, n // 2:] = 0.0
            out.append(("trailing-half-zero", T))
        out.append(("zero", np.zeros((n, n))))
        for lab, val in (("nan", np.nan), ("inf", np.inf)):
            W = U.copy()
            W[ctx.rng.randrange(n), ctx.rng.randrange(n)] = val
            out.append((lab, W))
        out.append(("all-ones", np.ones((n, n))))
        out.append((f"row-vector", U[0]))
        out.append((f"wide{n}x{2 * n}", _haar(2 * n, nprng)[:n]))
        out.append((f"tall{2 * n}x{n}", _haar(2 * n, nprng)[:, :n]))
        out.append(("3d", np.stack([U, U])))
    for n in (3, 5, 6, 7):
        out.append((f"unitary{n}x{n}", _haar(n, nprng)))
        out.append((f"eye{n}", np.eye(n)))
    out.append(("empty0x0", np.zeros((0, 0))))
    return out


def isometry_stream(ctx, nprng):
    import numpy as np
    out = []
    shapes = [(2, 1), (2, 2), (4, 1), (4, 2), (4, 4), (8, 1), (8, 2), (8, 4)] + ([] if ctx.quick else [(8, 8), (16, 2), (16, 4)])
    for (r, c) in shapes:
        V = _haar(r, nprng)[:, :c]
        out.append((f"iso{r}x{c}", V))
        out.append((f"iso{r}x{c}-noisy1e-11", V + 1e-11 * nprng.standard_normal((r, c))))
        for s in (2.0, 0.5, 1 + 1e-3, 1 - 1e-3, 1 + 1e-4):
            out.append((f"scaled{s:g}-{r}x{c}", s * V))
        if c >= 2:
            for eps in (1.0, 1e-3, 1e-6):
                out.append((f"shear{eps:g}-{r}x{c}", V @ _shear(c, eps)))
            D = V.copy()
            D[:, 1] = D[:, 0]
            out.append((f"rank-deficient-{r}x{c}", D))
            if c < r:
                out.append((f"wide{c}x{r}", np.conj(V.T)))
        Z = V.copy()
        Z[:, 0] = 0
        out.append((f"zero-column-{r}x{c}", Z))
        out.append((f"zero-{r}x{c}", np.zeros((r, c))))
        for lab, val in (("nan", np.nan), ("inf", np.inf)):
            W = V.copy()
            W[ctx.rng.randrange(r), ctx.rng.randrange(c)] = val
            out.append((f"{lab}-{r}x{c}", W))
    for n in (2, 4, 8):
        v = _renorm(_unit(n, nprng))
        out.append((f"vector{n}", v))
        out.append((f"vector{n}-scaled2", 2 * v))
        out.append((f"vector{n}-zero", np.zeros(n)))
    for n in (3, 5, 6, 7):
        out.append((f"vector{n}", _renorm(_unit(n, nprng))))
    for (r, c) in ((8, 3), (6, 2), (3, 1), (5, 4), (12, 4), (3, 3), (6, 6), (4, 8), (2, 4), (1, 2)):
        V = _haar(max(r, c), nprng)[:r, :c]
        out.append((f"shape{r}x{c}", V))
    out.append(("empty0x0", np.zeros((0, 0))))
    out.append(("empty4x0", np.zeros((4, 0))))
    return out


def u2_stream(ctx, nprng, for_mcu=False, real_diag=False):
    import numpy as np
    out = []
    reps = 2 if ctx.quick else 5
    for _ in range(reps):
        V = _haar(2, nprng)
        if for_mcu:
            a, b = sorted((ctx.rng.uniform(0.3, 1.4), ctx.rng.uniform(1.6, 3.0)))
            U = V @ np.diag([np.exp(1j * a), np.exp(1j * b)]) @ np.conj(V.T)
            S = U
        elif real_diag:
            t, p = ctx.rng.uniform(0.2, 2.9), ctx.rng.uniform(0, 6.28)
            S = np.array([[math.cos(t), -np.exp(1j * p) * math.sin(t)], [np.exp(-1j * p) * math.sin(t), math.cos(t)]])
            U = S
        else:
            U = V
            S = V / np.sqrt(np.linalg.det(V))
        out += [("su2", S), ("u2-not-su2", S * np.exp(0.7j)) if not for_mcu else ("u2", U),
                ("noisy1e-11", S + 1e-11 * nprng.standard_normal((2, 2)))]
        for c in (2.0, 0.5, 1 + 1e-3, 1 - 1e-3, 1 + 1e-4, -2.0):
            out.append((f"scaled{c:g}", c * S))
        for eps in (1.0, 1e-3, 1e-6):
            out.append((f"shear{eps:g}-times-su2", S @ _shear(2, eps)))
        Z = S.copy()
        Z[:, 0] = 0
        out.append(("zero-column", Z))
        for lab, val in (("nan", np.nan), ("inf", np.inf)):
            W = S.astype(complex).copy()
            W[ctx.rng.randrange(2), ctx.rng.randrange(2)] = val
            out.append((lab, W))
    out += [("shear-det1", np.array([[1.0, 1.0], [0.0, 1.0]])), ("diag(2,0.5)-det1", np.diag([2.0, 0.5])),
            ("projector", np.diag([1.0, 0.0])), ("zero", np.zeros((2, 2))), ("all-ones", np.ones((2, 2))),
            ("eye3", np.eye(3)), ("eye4", np.eye(4)), ("unitary3x3", _haar(3, nprng)), ("unitary4x4", _haar(4, nprng)),
            ("shape2x3", _haar(3, nprng)[:2]), ("shape3x2", _haar(3, nprng)[:, :2]), ("vector2", np.array([1.0, 0.0])),
            ("eye1", np.eye(1)), ("3d-2x2x2", np.stack([np.eye(2), np.eye(2)])),
            ("pauli-x", np.array([[0.0, 1.0], [1.0, 0.0]])), ("identity", np.eye(2)), ("i-pauli-y-real", np.array([[0.0, 1.0], [-1.0, 0.0]]))]
    return out


# ---------------------------------------------------------------------------------------------- boundary values
# Inputs AT distance "a factor >= 3" on both sides of every threshold of the validators, each with all OTHER checks
# passing (MC/DC style), for every size class.  Labels start with "bv:<family>|"; the family goes to a
# `boundary:<family>:<classification>` counter.  They flow through the ordinary stream: tie (decision of the real
# constructor vs the Lean model on the same doubles) AND oracle (accepted inputs must not raise, rejected ones must
# raise before anything is returned).

BOUNDARIES = {
    "gates/initialize.py:46 num_qubits == 0 or not num_qubits.is_integer()":
        "lengths 0 (log2 raises), 1 (== 0 alone), 2, 3, 4, 5, 7, 8, 9 (+ every length to 40), unit norm, all 8 dense classes",
    "gates/initialize.py:50 isclose(sum|a|^2, 1.0, rel_tol=0.0, abs_tol=1e-10)":
        "|sum-1| = 1e-11, 3e-11 accepted; 3.2e-10, 4e-10, 9e-10, 1e-9, 3e-9 rejected; above and below 1; n = 1, 2, 3, 4 qubits; Haar, "
        "basis, uniform vectors, ndarray and list; all 8 dense classes incl. BlackBoxInitialize; first ensemble member of MixedInitialize",
    "isometry.py:74/78 not log.is_integer() or log < 0": "rows / cols 1, 2, 3, 4, 5, 6, 7, 8, 9, 0 (log2 raises); `log < 0` cannot "
                                                       "hold for an integer dimension >= 1 (dead conjunct)",
    "isometry.py:82 log_cols > log_lines": "cols = rows/2, rows, 2*rows (both powers of two), rows + 1",
    "isometry.py:90 np.allclose(V^dagger V, I) (atol 1e-8, rtol 1e-5)":
        "one off-diagonal Gram entry = 1e-9, 3e-9 (accepted) / 3.2e-8, 1e-7, 1e-6 (rejected) with a unit diagonal; one diagonal entry "
        "off by +-1e-7, +-1e-6, +-3e-6 (accepted: atol + rtol*1) / +-3.2e-5, +-1e-4 (rejected) with zero off-diagonals; first and last "
        "column / column pair; 1, 2, 2^(n-1), 2^n columns of 2, 4, 8 rows",
    "unitary.py:40-44 ndim != 2 or rows != cols or not log2(rows).is_integer()":
        "1-D, 3-D; n x (n+1), (n+1) x n, n x 2n, 2n x n; square 1, 2, 3, 4, 5, 6, 7, 8, 9",
    "unitary.py:46 is_unitary_matrix (atol 1e-8, rtol 1e-5)": "same Gram families as the isometry check at 2x2, 4x4, 8x8 for qsd / csd / qr",
    "gates/util.py:43 matrix.shape != (2, 2)": "1x1, 1x2, 2x1, 2x3, 3x2, 3x3, 4x4, 1-D, 3-D (unitary / orthonormal where possible)",
    "gates/util.py:47 np.allclose(M M^dagger, I)": "same Gram families on Haar, diagonal and anti-diagonal 2x2 bases (for the latter two "
                                                  "both Gram matrices agree, so the classification is unambiguous at every size of "
                                                  "the deviation), every gate class that calls check_u2",
    "gates/util.py:53 cmath.isclose(det, 1.0) (rel_tol 1e-9)": "det = exp(i theta), theta = +-1e-10, +-3e-10 (SU(2)) / +-4e-9, +-1e-8, "
                                                              "+-1e-6 (not SU(2)); tie of check_su2 and of LdMcSpecialUnitary; oracle on "
                                                              "LdMcSpecialUnitary (the class that raises on it)",
    "every predicate, one component at a time (counters boundary:component:<validator>:<component>)":
        "Gram defect purely imaginary / purely real off the diagonal with an exactly unit diagonal (columns e0 and (i e0 + e1)/sqrt2, 8x4, "
        "rank-1 [w, i w], Haar columns; first / last / adjacent pair; t = 3e-9 .. 1) for isometry.decompose (ccd, csd, knill), unitary() and "
        "check_u2 (rows); diagonal only (one column); shape only; norm excess only in imaginary parts / only in real parts / only in the "
        "first or last entry; length only; det off 1 only in its real / only in its imaginary part; mixed.py: one probability test at a time",
    "state_preparation/mixed.py:76-80 any(p < 0), any(p > 1), isclose(sum p, 1.0)":
        "oracle only (no Lean model of mixed.py in this property): p = 0.0 and 1.0 exactly (accepted), one negative entry with "
        "every entry <= 1 and sum 1, single entry 1 + 1e-10 / 1 + 3e-10 (only `> 1.0` fires), sum off by +-3e-10 (accepted) / +-3e-9, "
        "+-1e-8 (rejected)",
}


def _shear_ij(c, i, j, eps):
    import numpy as np
    sh = np.eye(c, dtype=complex)
    sh[i, j] = eps
    return sh


def _gram_families(c, light):
    """[(family, detail, kind, index, value)]: one Gram entry moved next to its tolerance, all others exact."""
    out = []
    pairs = [(0, c - 1)] + ([(c - 2, c - 1)] if c >= 3 and not light else [])
    cols = [c - 1] + ([0] if c >= 2 and not light else [])
    if c >= 2:
        for eps in ((3e-9, 1e-7) if light else (1e-9, 3e-9, 3.2e-8, 1e-7, 1e-6)):
            for (i, j) in pairs:
                out.append(("gram off-diagonal", f"eps={eps:g} at ({i},{j})", "off", (i, j), eps))
    for dlt in ((3e-6, -3e-6, 3.2e-5, -3.2e-5) if light else (1e-7, -1e-7, 1e-6, -1e-6, 3e-6, -3e-6, 3.2e-5, -3.2e-5, 1e-4, -1e-4)):
        for j in cols:
            out.append(("gram diagonal", f"delta={dlt:g} at {j}", "diag", j, dlt))
    return out


def _apply_right(V, kind, idx, val):
    """perturb V^dagger V (left Gram): V @ (I + eps E_ij)  /  column j scaled by sqrt(1 + delta)"""
    import numpy as np
    V = np.array(V, dtype=complex)
    if kind == "off":
        return V @ _shear_ij(V.shape[1], idx[0], idx[1], val)
    W = V.copy()
    W[:, idx] = W[:, idx] * math.sqrt(1 + val)
    return W


def _apply_left(M, kind, idx, val):
    """perturb M M^dagger (right Gram): (I + eps E_ij) @ M  /  row j scaled by sqrt(1 + delta)"""
    import numpy as np
    M = np.array(M, dtype=complex)
    if kind == "off":
        return _shear_ij(M.shape[0], idx[0], idx[1], val) @ M
    W = M.copy()
    W[idx, :] = W[idx, :] * math.sqrt(1 + val)
    return W


def dense_boundary(ctx, nprng):
    import numpy as np
    out = []
    for n in (2, 4, 8):
        k = ctx.rng.randrange(n)
        e = np.zeros(n)
        e[k] = 1.0
        uni = _renorm(np.ones(n))
        haar = _renorm(_unit(n, nprng))
        for d in (1e-11, 3e-11, 3.2e-10, 1e-9, 3e-9):
            for sg in (1, -1):
                tag = f"{'+' if sg > 0 else '-'}{d:g}"
                out.append((f"bv:norm threshold|basis{tag} len{n}", e * math.sqrt(1 + sg * d)))
                out.append((f"bv:norm threshold|uniform{tag} len{n}", uni * math.sqrt(1 + sg * d)))
                if d in (3e-11, 3.2e-10):
                    out.append((f"bv:norm threshold|haar-list{tag} len{n}", ("LIST", haar * math.sqrt(1 + sg * d))))
                    w = haar.astype(complex).copy()             # the whole excess in ONE amplitude
                    a2 = abs(w[k]) ** 2
                    if a2 > 0.05:
                        w[k] = w[k] * math.sqrt((a2 + sg * d) / a2)
                        out.append((f"bv:norm threshold|haar-one-entry{tag} len{n}", w))
    return out


def isometry_boundary(ctx, nprng):
    import numpy as np
    out = []
    for (r, c) in ((2, 1), (2, 2), (4, 1), (4, 2), (4, 4), (8, 1), (8, 2), (8, 4), (8, 8)):
        V = _haar(r, nprng)[:, :c]
        light = r == 8 and c >= 4
        for fam, detail, kind, idx, val in _gram_families(c, light):
            out.append((f"bv:iso {fam}|{detail} {r}x{c}", _apply_right(V, kind, idx, val)))
    # shapes next to the power-of-two / wide conditions (orthonormal columns where the shape allows)
    for (r, c) in ((1, 1), (9, 1), (9, 2), (8, 3), (8, 5), (8, 6), (8, 7), (3, 2), (5, 2), (6, 4), (7, 1), (2, 3), (4, 5), (8, 9),
                   (4, 3), (1, 2), (16, 1)):
        # 1x1: the identity (a 0-qubit phase e^{i phi} makes qiskit's Rust QSD panic after validation: not this property's matter)
        V = _haar(max(r, c), nprng)[:r, :c] if (r, c) != (1, 1) else np.eye(1)
        out.append((f"bv:iso shape|{r}x{c}", V))
    out.append(("bv:iso shape|1x1 scaled2", np.array([[2.0]])))
    out.append(("bv:iso shape|vector1", np.array([1.0])))
    out.append(("bv:iso shape|vector9", _renorm(_unit(9, nprng))))
    out.append(("bv:iso shape|0x1", np.zeros((0, 1))))
    return out


def unitary_boundary(ctx, nprng):
    import numpy as np
    out = []
    for n in (2, 4, 8):
        U = _haar(n, nprng)
        for fam, detail, kind, idx, val in _gram_families(n, n == 8):
            out.append((f"bv:unitary {fam}|{detail} {n}x{n}", _apply_right(U, kind, idx, val)))
        out.append((f"bv:unitary shape|{n}x{n + 1}", _haar(n + 1, nprng)[:n]))
        out.append((f"bv:unitary shape|{n + 1}x{n}", _haar(n + 1, nprng)[:, :n]))
    out.append(("bv:unitary shape|1x1", np.eye(1)))         # identity: see isometry_boundary about 0-qubit phases
    out.append(("bv:unitary shape|9x9", _haar(9, nprng)))
    out.append(("bv:unitary shape|1x1 scaled2", np.array([[2.0]])))
    out.append(("bv:unitary shape|vector4", _renorm(_unit(4, nprng))))
    out.append(("bv:unitary shape|0x2", np.zeros((0, 2))))
    return out


def u2_boundary(ctx, nprng, mode=""):
    """mode '': SU(2) bases; 'mcu': eigenphases inside MCU's domain; 'realdiag': real main diagonal."""
    import numpy as np
    out = []
    a = ctx.rng.uniform(0.3, 1.4)
    b = ctx.rng.uniform(1.6, 3.0)
    p = ctx.rng.uniform(0.2, 2.9)
    if mode == "mcu":
        V = _haar(2, nprng)
        bases = [("haar", V @ np.diag([np.exp(1j * a), np.exp(1j * b)]) @ np.conj(V.T)), ("diag", np.diag([np.exp(1j * a), np.exp(1j * b)]))]
    elif mode == "realdiag":
        t = ctx.rng.uniform(0.2, 2.9)
        bases = [("haar", np.array([[math.cos(t), -np.exp(1j * p) * math.sin(t)], [np.exp(-1j * p) * math.sin(t), math.cos(t)]])),
                 ("antidiag", np.array([[0.0, -np.exp(1j * p)], [np.exp(-1j * p), 0.0]]))]
    else:
        V = _haar(2, nprng)
        bases = [("haar", V / np.sqrt(np.linalg.det(V))), ("diag", np.diag([np.exp(1j * a), np.exp(-1j * a)])),
                 ("antidiag", np.array([[0.0, -np.exp(1j * p)], [np.exp(-1j * p), 0.0]]))]
    for bname, B in bases:
        for fam, detail, kind, idx, val in _gram_families(2, False):
            out.append((f"bv:u2 {fam}|{detail} {bname}", _apply_left(B, kind, idx, val)))
            if kind == "off":
                out.append((f"bv:u2 {fam}|{detail} transposed {bname}", _apply_left(B, kind, (idx[1], idx[0]), val)))
    if mode == "":
        S = bases[0][1]
        D = bases[1][1]
        for th in (1e-10, 3e-10, 4e-9, 1e-8, 1e-6):
            for sg in (1, -1):
                want = "accept" if th <= 3e-10 else "reject"
                for bname, B in (("haar", S), ("diag", D)):
                    out.append((f"bv:su2 det|theta={'+' if sg > 0 else '-'}{th:g} {bname} expect={want}", B * np.exp(0.5j * sg * th)))
        # the shape test alone: orthonormal where the shape allows, and 2x2 shape with the unitarity next to the tolerance is above
        out += [("bv:u2 shape|2x1", np.array([[1.0], [0.0]])), ("bv:u2 shape|1x2", np.array([[1.0, 0.0]])),
                ("bv:u2 shape|1x1", np.array([[1.0]])), ("bv:u2 shape|2x3", _haar(3, nprng)[:2]), ("bv:u2 shape|3x2", _haar(3, nprng)[:, :2]),
                ("bv:u2 shape|3x3", _haar(3, nprng)), ("bv:u2 shape|4x4", _haar(4, nprng)), ("bv:u2 shape|2x2x1", np.eye(2).reshape(2, 2, 1)),
                ("bv:u2 shape|vector4", np.array([1.0, 0.0, 0.0, 1.0]))]
    return out


def boundary_streams(ctx, nprng):
    return {"dense": dense_boundary(ctx, nprng), "unitary": unitary_boundary(ctx, nprng), "isometry": isometry_boundary(ctx, nprng),
            "u2": u2_boundary(ctx, nprng), "u2-mcu": u2_boundary(ctx, nprng, "mcu"), "u2-realdiag": u2_boundary(ctx, nprng, "realdiag")}


# ---- one component of a predicate violated at a time (all other components satisfied) -------------------------------------

def _overlap_cols(V, i, j, t, imag):
    """Column j replaced by (z * v_i + v_j) / sqrt(1 + t^2), z = t or i*t: every column keeps unit norm (the Gram DIAGONAL stays
    exactly 1) and the only defect is the entry (i, j) (and its mirror) = z / sqrt(1 + t^2): purely real or purely imaginary."""
    import numpy as np
    W = np.array(V, dtype=complex)
    z = (1j * t) if imag else t
    W[:, j] = (z * W[:, i] + W[:, j]) / math.sqrt(1 + t * t)
    return W


COMPONENT_T = (3e-9, 1e-7, 1e-3, 0.1, 1.0)          # Gram entry t / sqrt(1 + t^2): inside the tolerance, next to it, gross


def isometry_components(ctx, nprng):
    import numpy as np
    out = []
    e = np.eye(8, dtype=complex)
    s = math.sqrt(0.5)
    # the literal witnesses: columns e0 and (i*e0 + e1)/sqrt(2); an 8x4 variant; the rank-1 matrix [w, i*w]
    out.append(("bv:component:isometry:imaginary off-diagonal only|e0,(i e0+e1)/sqrt2 4x2", np.stack([e[:4, 0], (1j * e[:4, 0] + e[:4, 1]) * s], axis=1)))
    out.append(("bv:component:isometry:imaginary off-diagonal only|e0,(i e0+e1)/sqrt2 2x2", np.stack([e[:2, 0], (1j * e[:2, 0] + e[:2, 1]) * s], axis=1)))
    out.append(("bv:component:isometry:imaginary off-diagonal only|8x4 columns 2,3", np.stack([e[:, 0], e[:, 1], e[:, 2], (1j * e[:, 2] + e[:, 3]) * s], axis=1)))
    for n in (2, 4, 8):
        w = _renorm(_unit(n, nprng))
        out.append((f"bv:component:isometry:imaginary off-diagonal only|rank-1 [w, i w] {n}x2", np.stack([w, 1j * w], axis=1)))
        out.append((f"bv:component:isometry:real off-diagonal only|rank-1 [w, -w] {n}x2", np.stack([w, -w], axis=1)))
    for (r, c) in ((2, 2), (4, 2), (4, 4), (8, 2), (8, 4), (8, 8)):
        V = _haar(r, nprng)[:, :c]
        pairs = [(0, c - 1)] + ([(c - 2, c - 1), (0, 1)] if c >= 3 else [])
        for t in (COMPONENT_T if c < 8 else (3e-9, 1e-7, 0.1)):
            for (i, j) in pairs[: (3 if t in (1e-7, 0.1) else 1)]:
                for imag in (True, False):
                    comp = "imaginary off-diagonal only" if imag else "real off-diagonal only"
                    out.append((f"bv:component:isometry:{comp}|t={t:g} at ({i},{j}) {r}x{c}", _overlap_cols(V, i, j, t, imag)))
    # narrow numpy dtypes in which the Gram matrix WRAPS or ROUNDS to the identity although the values are far from an isometry
    # (16*16 + 1 = 257 = 1 mod 256; 0.707^2 * 2 = 0.99979 -> 1.0 in half precision): validation must look at the values
    out.append(("bv:component:isometry:narrow dtype|int8 [[16,1],[-1,16]] 2x2", np.array([[16, 1], [-1, 16]], dtype=np.int8)))
    out.append(("bv:component:isometry:narrow dtype|uint8 columns (16,1,0,0),(0,0,16,1) 4x2",
                np.array([[16, 0], [1, 0], [0, 16], [0, 1]], dtype=np.uint8)))
    out.append(("bv:component:isometry:narrow dtype|int8 column (16,1,0,0) 4x1", np.array([[16], [1], [0], [0]], dtype=np.int8)))
    out.append(("bv:component:isometry:narrow dtype|float16 column (0.707,0.707) 2x1", np.array([[0.707], [0.707]], dtype=np.float16)))
    out.append(("bv:component:isometry:narrow dtype|float16 [[0.707,0.707],[0.707,-0.707]] 2x2",
                np.array([[0.707, 0.707], [0.707, -0.707]], dtype=np.float16)))
    return out


def unitary_components(ctx, nprng):
    import numpy as np
    out = []
    for n in (2, 4, 8):
        U = _haar(n, nprng)
        pairs = [(0, n - 1)] + ([(n - 2, n - 1), (0, 1)] if n >= 3 else [])
        for t in (COMPONENT_T if n < 8 else (3e-9, 1e-7, 0.1)):
            for (i, j) in pairs[: (3 if t in (1e-7, 0.1) else 1)]:
                for imag in (True, False):
                    comp = "imaginary off-diagonal only" if imag else "real off-diagonal only"
                    out.append((f"bv:component:unitary:{comp}|t={t:g} at ({i},{j}) {n}x{n}", _overlap_cols(U, i, j, t, imag)))
        e = np.eye(n, dtype=complex)
        W = e.copy()
        W[:, n - 1] = (1j * e[:, 0] + e[:, n - 1]) * math.sqrt(0.5)
        out.append((f"bv:component:unitary:imaginary off-diagonal only|identity with last column (i e0+e_last)/sqrt2 {n}x{n}", W))
    return out


def u2_components(ctx, nprng, mode=""):
    """rows of M overlap by a purely imaginary / purely real number, unit row norms: M M^dagger = [[1, z], [conj z, 1]]"""
    import numpy as np
    out = []
    a = ctx.rng.uniform(0.3, 1.4)
    b = ctx.rng.uniform(1.6, 3.0)
    V = _haar(2, nprng)
    if mode == "mcu":
        bases = [("haar", V @ np.diag([np.exp(1j * a), np.exp(1j * b)]) @ np.conj(V.T)), ("diag", np.diag([np.exp(1j * a), np.exp(1j * b)]))]
    elif mode == "realdiag":
        t0, p = ctx.rng.uniform(0.2, 2.9), ctx.rng.uniform(0, 6.28)
        bases = [("haar", np.array([[math.cos(t0), -np.exp(1j * p) * math.sin(t0)], [np.exp(-1j * p) * math.sin(t0), math.cos(t0)]])),
                 ("identity", np.eye(2, dtype=complex))]
    else:
        bases = [("haar", V / np.sqrt(np.linalg.det(V))), ("diag", np.diag([np.exp(1j * a), np.exp(-1j * a)])), ("identity", np.eye(2, dtype=complex))]
    for bname, B in bases:
        for t in COMPONENT_T:
            for (i, j) in ((0, 1), (1, 0)):
                for imag in (True, False):
                    comp = "imaginary off-diagonal only" if imag else "real off-diagonal only"
                    M = _overlap_cols(B.T, i, j, t, imag).T
                    out.append((f"bv:component:check_u2:{comp}|t={t:g} rows ({i},{j}) {bname}", M))
    if mode == "":
        S = bases[0][1]
        # det off 1 in its REAL part only (a common scale inside check_u2's tolerance) / see "su2 det" for the imaginary part
        for dlt in (3e-10, -3e-10, 1e-8, -1e-8, 1e-6, -1e-6):
            want = "accept" if abs(dlt) <= 3e-10 else "reject"
            for bname, B in (("haar", S), ("diag", bases[1][1])):
                out.append((f"bv:component:check_su2:real part of det only|det=1{dlt:+g} {bname} expect={want}", B * math.sqrt(1 + dlt)))
    return out


def dense_components(ctx, nprng):
    """the excess / deficit of the norm carried ONLY by imaginary parts, only by real parts, only by the first / last entry"""
    import numpy as np
    out = []
    for n in (2, 4, 8):
        r_ = _renorm(_unit(n, nprng, real=True))
        s_ = _renorm(_unit(n, nprng, real=True))
        for d in (3e-11, 3.2e-10, 1e-9, 1e-4, 0.5, 1.0):
            out.append((f"bv:component:dense norm:excess in imaginary parts only|+{d:g} len{n}", r_ + 1j * math.sqrt(d) * s_))
            out.append((f"bv:component:dense norm:excess in real parts only|+{d:g} len{n}", math.sqrt(d) * s_ + 1j * r_))
        for d in (3e-11, 3.2e-10, 1e-4):
            for pos, name in ((0, "first"), (n - 1, "last")):
                for part in ("real", "imaginary"):
                    w = _renorm(_unit(n, nprng)).astype(complex)
                    base = w[pos]
                    other = 1.0 - abs(base) ** 2
                    # keep the other part of that entry, move the chosen part so that the total becomes 1 + d
                    keep = base.imag if part == "real" else base.real
                    mov2 = 1.0 + d - other - keep * keep
                    if mov2 <= 0:
                        continue
                    mv = math.copysign(math.sqrt(mov2), base.real if part == "real" else base.imag)
                    w[pos] = complex(mv, keep) if part == "real" else complex(keep, mv)
                    out.append((f"bv:component:dense norm:excess in the {part} part of the {name} entry only|+{d:g} len{n}", w))
        # valid: unit norm although neither the real nor the imaginary parts alone are normalised
        out.append((f"bv:component:dense norm:valid, real and imaginary parts each of norm^2 1/2|len{n}", (r_ + 1j * s_) * math.sqrt(0.5)))
        out.append((f"bv:component:dense norm:valid, purely imaginary unit vector|len{n}", 1j * r_))
    return out


def component_streams(ctx, nprng):
    return {"dense": dense_components(ctx, nprng), "unitary": unitary_components(ctx, nprng), "isometry": isometry_components(ctx, nprng),
            "u2": u2_components(ctx, nprng), "u2-mcu": u2_components(ctx, nprng, "mcu"), "u2-realdiag": u2_components(ctx, nprng, "realdiag")}


# existing boundary families = which single component of which validator they violate
COMPONENT_OF = {"norm threshold": "dense norm:norm only (right length)", "iso gram diagonal": "isometry:diagonal only, one column (first / last)",
                "iso gram off-diagonal": "isometry:off-diagonal only, one pair", "iso shape": "isometry:shape only",
                "unitary gram diagonal": "unitary:diagonal only, one column (first / last)", "unitary gram off-diagonal": "unitary:off-diagonal only, one pair",
                "unitary shape": "unitary:shape only", "u2 gram diagonal": "check_u2:diagonal only, one row",
                "u2 gram off-diagonal": "check_u2:off-diagonal only", "u2 shape": "check_u2:shape only",
                "su2 det": "check_su2:imaginary part of det only"}


BOUNDARY_LENGTHS = {0, 1, 2, 3, 4, 5, 7, 8, 9}


def _count_boundary(ctx, kind, label, cls, dec):
    if label.startswith("bv:"):
        fam = label[3:].split("|")[0]
        ctx.count(f"boundary:{fam}:{cls.split(':')[0]}->{dec.split()[0]}")
        if fam in COMPONENT_OF and cls != "valid":
            ctx.count(f"boundary:component:{COMPONENT_OF[fam]}")
    elif kind == "dense" and label.startswith("len") and label[3:].split("#")[0].isdigit() \
            and int(label[3:].split("#")[0]) in BOUNDARY_LENGTHS:
        ctx.count(f"boundary:dense length {int(label[3:].split('#')[0])}->{dec.split()[0]}")
        if cls != "valid":
            ctx.count("boundary:component:dense norm:length only (unit norm)")
    elif kind == "dense" and label.startswith("norm") and label[4:5] in "+-":
        ctx.count(f"boundary:norm threshold:{cls.split(':')[0]}->{dec.split()[0]}")


def mixed_boundary(ctx):
    """mixed.py validation (oracle only: this property has no Lean model of MixedInitialize): every comparison of lines 68-81
    on both sides with the other checks passing, plus the norm check of the first ensemble member."""
    import numpy as np
    from qclib.state_preparation.mixed import MixedInitialize
    from qiskit import QuantumCircuit
    s2 = [np.array([1.0, 0.0]), np.array([0.0, 1.0])]
    s3 = s2 + [np.array([math.sqrt(0.5), math.sqrt(0.5)])]
    s1 = [np.array([0.6, 0.8])]
    rows = [("p zero entry", s2, [0.0, 1.0], {}, "accept"), ("p one entry", s2, [1.0, 0.0], {}, "accept"),
            ("p single 1.0", s1, [1.0], {}, "accept"),
            ("p negative -0.1 (all <= 1, sum 1)", s3, [-0.1, 0.6, 0.5], {}, "ValueError"),
            ("p negative -3e-10 (all <= 1, sum 1)", s3, [-3e-10, 0.5, 0.5 + 3e-10], {}, "ValueError"),
            ("p negative -1e-6 (all <= 1, sum 1)", s3, [-1e-6, 0.5, 0.5 + 1e-6], {}, "ValueError"),
            ("p above one 1+1e-10 (sum within tolerance)", s1, [1.0 + 1e-10], {}, "ValueError"),
            ("p above one 1+3e-10 (sum within tolerance)", s1, [1.0 + 3e-10], {}, "ValueError"),
            ("p sum +3e-10", s2, [0.5, 0.5 + 3e-10], {}, "accept"), ("p sum -3e-10", s2, [0.5, 0.5 - 3e-10], {}, "accept"),
            ("p sum +3e-9", s2, [0.5, 0.5 + 3e-9], {}, "ValueError"), ("p sum -3e-9", s2, [0.5, 0.5 - 3e-9], {}, "ValueError"),
            ("p sum +1e-8", s2, [0.5, 0.5 + 1e-8], {}, "ValueError"), ("p sum -1e-8", s2, [0.5, 0.5 - 1e-8], {}, "ValueError"),
            ("p sum -1e-6", s3, [0.25, 0.25, 0.5 - 1e-6], {}, "ValueError"), ("p sum +1e-6", s3, [0.25, 0.25, 0.5 + 1e-6], {}, "ValueError"),
            ("initializer not an Initialize class (int)", s2, None, {"initializer": int}, "TypeError"),
            ("initializer not an Initialize class (QuantumCircuit)", s2, None, {"initializer": QuantumCircuit}, "TypeError")]
    for n in (2, 4):
        v = _renorm(np.arange(1.0, n + 1.0))
        w = np.zeros(n)
        w[0] = 1.0
        for d, want in ((3e-11, "accept"), (-3e-11, "accept"), (3.2e-10, "ValueError"), (-3.2e-10, "ValueError"), (1e-9, "ValueError"),
                        (-1e-9, "ValueError")):
            rows.append((f"first member norm {d:+g} len{n}", [v * math.sqrt(1 + d), w], None, {}, want))
    for n in (2, 4):
        r_ = _renorm(np.arange(1.0, n + 1.0))
        s_ = _renorm(np.arange(n + 0.0, 0.0, -1.0))
        w = np.zeros(n)
        w[0] = 1.0
        rows.append((f"first member norm excess in imaginary parts only +1e-4 len{n}", [r_ + 1j * 1e-2 * s_, w], None, {}, "ValueError"))
        rows.append((f"first member norm excess in imaginary parts only +1 len{n}", [r_ + 1j * s_, w], None, {}, "ValueError"))
    for label, states, probs, kw, want in rows:
        if want != "accept":
            ctx.count("boundary:component:mixed:" + ("negative entry only" if "negative" in label else "entry above one only" if "above one" in label
                                                     else "sum only" if label.startswith("p sum") else "initializer type only" if "initializer" in label
                                                     else "first member norm only"))
        fam = "mixed " + ("probabilities" if label.startswith("p ") else ("first member norm" if label.startswith("first") else "initializer type"))
        got, msg = "accept", ""
        with warnings.catch_warnings():
            warnings.simplefilter("ignore")
            try:
                g = MixedInitialize([np.array(x) for x in states], probabilities=None if probs is None else list(probs), **kw)
                try:
                    g.definition
                except Exception as e:             # passed validation; construction is not this property's matter
                    msg = f" (definition raised {type(e).__name__})"
            except Exception as e:
                got, msg = type(e).__name__, str(e)[:100]
        ctx.count(f"boundary:{fam}:{'accept' if want == 'accept' else 'reject'}")
        key = f"mixed:{label}"
        rep = {"probe": "mixed-boundary", "label": label}
        if got == want:
            ctx.ok(key, sample={"entry": "MixedInitialize", "input": label, "decision": got})
        elif want == "accept":
            ctx.fail("valid-rejected:" + key, f"MixedInitialize ({label}; probabilities={probs}) raised {got}: {msg}; the value is inside "
                                              f"the documented tolerance", rep)
        else:
            ctx.fail("accepted:" + key, f"MixedInitialize ({label}; probabilities={probs}) was accepted{msg}, expected {want} "
                                        f"(got {got} {msg})", rep)



# ---------------------------------------------------------------------------------------------- real calls

def _entry_callers(nprng_good):
    """entry name -> list of (variant tag, callable(A) -> object with/without .definition)."""
    import numpy as np
    from qclib.state_preparation import (TopDownInitialize, LowRankInitialize, SVDInitialize, UCGInitialize, UCGEInitialize,
                                         IsometryInitialize, BaaLowRankInitialize)
    from qclib.state_preparation.blackbox import BlackBoxInitialize
    from qclib.unitary import unitary
    from qclib.isometry import decompose
    from qclib.gates.ldmcu import Ldmcu
    from qclib.gates.ldmcsu import Ldmcsu, LdMcSpecialUnitary
    from qclib.gates.qdmcu import Qdmcu
    from qclib.gates.mcg import Mcg
    from qclib.gates.mcu import MCU
    from qclib.gates.multitargetmcsu2 import MultiTargetMCSU2
    good = np.array([[math.cos(0.4), -math.sin(0.4)], [math.sin(0.4), math.cos(0.4)]])
    sp, g = "qclib/state_preparation/", "qclib/gates/"
    return {
        sp + "topdown.py:TopDownInitialize": [("", TopDownInitialize)],
        sp + "lowrank.py:LowRankInitialize": [("", LowRankInitialize)],
        sp + "svd.py:SVDInitialize": [("", SVDInitialize)],
        sp + "ucg.py:UCGInitialize": [("", UCGInitialize)],
        sp + "ucge.py:UCGEInitialize": [("", UCGEInitialize)],
        sp + "isometry.py:IsometryInitialize": [("", IsometryInitialize)],
        sp + "baa_lowrank.py:BaaLowRankInitialize": [("", BaaLowRankInitialize)],
        sp + "blackbox.py:BlackBoxInitialize": [("", BlackBoxInitialize)],
        # isometry mode (iso > 0) goes through the SAME validation of the WHOLE matrix: variants qsd+iso1 / qsd+iso2
        "qclib/unitary.py:unitary": [(d, (lambda A, d=d: unitary(A, decomposition=d))) for d in ("qsd", "csd", "qr")]
        + [(f"qsd+iso{i}", (lambda A, i=i: unitary(A, decomposition="qsd", iso=i))) for i in (1, 2)],
        "qclib/isometry.py:decompose": [(s, (lambda A, s=s: decompose(A, scheme=s))) for s in ("ccd", "csd", "knill")],
        g + "ldmcu.py:Ldmcu": [("k3", lambda A: Ldmcu(A, 3)), ("k1", lambda A: Ldmcu(A, 1))],
        g + "ldmcsu.py:Ldmcsu": [("k3", lambda A: Ldmcsu(A, 3))],
        g + "ldmcsu.py:LdMcSpecialUnitary": [("k3", lambda A: LdMcSpecialUnitary(A, 3))],
        g + "qdmcu.py:Qdmcu": [("k3", lambda A: Qdmcu(A, 3))],
        g + "mcg.py:Mcg": [("k3", lambda A: Mcg(A, 3)), ("k5", lambda A: Mcg(A, 5))],
        g + "mcu.py:MCU": [("k8e0.1", lambda A: MCU(A, 8, 0.1))],
        g + "multitargetmcsu2.py:MultiTargetMCSU2[list]": [("first", lambda A: MultiTargetMCSU2([A, good], 3, 2)),
                                                           ("last", lambda A: MultiTargetMCSU2([good, A], 3, 2))],
        g + "multitargetmcsu2.py:MultiTargetMCSU2[single]": [("k3", lambda A: MultiTargetMCSU2(A, 3, 1))],
    }


KIND_OF = {}
for _k, _rel, _n in ENTRY_POINTS:
    if _n == "MultiTargetMCSU2":
        KIND_OF[f"{_rel}:{_n}[list]"] = _k
        KIND_OF[f"{_rel}:{_n}[single]"] = _k
    else:
        KIND_OF[f"{_rel}:{_n}"] = _k


VALIDATOR_FRAMES = {"_get_num_qubits", "_check_isometry", "_is_isometry", "check_u2", "check_su2"}
ENTRY_FRAMES = {"unitary", "decompose", "__init__"}


def _qclib_frames(e):
    """(file, function) of every traceback frame that lies inside the qclib tree under test, outermost first."""
    import framework
    root = os.path.realpath(framework.REPO) + os.sep
    tb, out = e.__traceback__, []
    while tb is not None:
        code = tb.tb_frame.f_code
        fn = os.path.realpath(code.co_filename)
        if fn.startswith(root):
            out.append((os.path.relpath(fn, root), code.co_name))
        tb = tb.tb_next
    return out


def _in_validation(frames):
    """The exception was raised while a validator was running (anywhere below it, numpy included), or by a
    statement of the entry function / constructor itself (its own `raise`, `log2(0)`, `super().__init__`)."""
    if any(f[1] in VALIDATOR_FRAMES for f in frames):
        return True
    return bool(frames) and frames[-1][1] in ENTRY_FRAMES


def real_decision(fn, A, want_definition):
    """-> (decision line, detail).  decision: 'accept' | 'reject <ExceptionClass>'.
    'reject' = an exception raised while the validation code runs (see `_in_validation`); an exception
    raised by the construction code that runs AFTER validation means the input passed validation:
    decision 'accept', stage 'construction-raised'."""
    with warnings.catch_warnings():
        warnings.simplefilter("ignore")
        try:
            obj = fn(A)
        except BaseException as e:      # pyo3's PanicException (a Rust panic inside qiskit) derives from BaseException
            if isinstance(e, (KeyboardInterrupt, SystemExit, GeneratorExit)):
                raise
            frames = _qclib_frames(e)
            det = {"message": f"{type(e).__name__}: {str(e)[:120]}", "raised_in": list(frames[-1]) if frames else []}
            if _in_validation(frames):
                det["stage"] = "validation"
                return f"reject {type(e).__name__}", det
            det["stage"] = "construction-raised"
            return "accept", det
        if not want_definition:
            return "accept", {"stage": "returned"}
        try:
            circ = obj.definition if hasattr(obj, "definition") and not hasattr(obj, "qregs") else obj
            return "accept", {"stage": "circuit", "ops": len(getattr(circ, "data", []) or [])}
        except BaseException as e:      # incl. pyo3's PanicException (0-qubit synthesis inside qiskit)
            if isinstance(e, (KeyboardInterrupt, SystemExit, GeneratorExit)):
                raise
            return "accept", {"stage": "definition-raised", "message": f"{type(e).__name__}: {str(e)[:100]}"}


def _payload(A):
    import numpy as np
    A = np.asarray(A)
    flat = A.reshape(-1).astype(complex)
    return {"shape": list(A.shape), "re": [repr(float(z.real)) for z in flat], "im": [repr(float(z.imag)) for z in flat]}


def _from_payload(p):
    import numpy as np
    z = np.array([complex(float(a), float(b)) for a, b in zip(p["re"], p["im"])], dtype=complex)
    return z.reshape(p["shape"])


def check_case(ctx, callers, name, variant, label, A, tie=True):
    """One (entry point, input): tie line + oracle verdict."""
    import numpy as np
    kind = KIND_OF[name]
    as_list = isinstance(A, tuple) and A[0] == "LIST"
    arr = np.asarray(A[1]) if as_list else np.asarray(A)
    fn = dict(callers[name])[variant]
    cls = classify(kind, arr)
    if cls == "band":
        ctx.count("skipped-band")
        if label.startswith("bv:"):
            ctx.count(f"boundary-in-band:{label[3:].split('|')[0]}")
        return
    if kind == "isometry" and arr.ndim > 2:
        return
    small = arr.size <= (8 if kind == "dense" else 64)
    arg = [complex(z) for z in arr] if as_list else arr
    dec, det = real_decision(fn, arg, want_definition=(cls != "valid" or small))
    short = _short(name) + (f"/{variant}" if variant else "")
    if tie:
        op = {"op": "entry", "name": name}
        op.update(arr_fields(arr))
        ctx.tie(op, [dec], label=f"{short} {label} shape={list(arr.shape)}")
    rep = {"entry": name, "variant": variant, "label": label, "as_list": as_list, "input": _payload(arr),
           "classification": cls, "observed": dec, "detail": det}
    ctx.count(f"{kind}:{cls}:{dec.split()[0]}")
    _count_boundary(ctx, kind, label, cls, dec)
    if kind == "dense" and not as_list and arr.dtype not in (np.dtype(float), np.dtype(complex)):
        ctx.count(f"branch:dense vector dtype {arr.dtype}:{cls.split(':')[0]}:{dec.split()[0]}")
    late = det.get("stage") in ("definition-raised", "construction-raised")
    if cls.startswith("malformed"):
        if dec == "accept" and det.get("stage") == "construction-raised":
            # validation let the input through, but the call itself still raised (construction code):
            # rejected at the property's observation point (the constructor / function call), only late
            ctx.count("late-reject")
            _note(ctx, ("late", short, label), f"late-reject {short} {label}: passed validation, then {det.get('message')}")
            ctx.ok(f"late:{short}:{label}")
        elif dec == "accept" and det.get("stage") == "definition-raised":
            # the constructor RETURNED a gate for a malformed input; only building its definition fails
            ctx.fail(f"accepted-by-constructor:{short}:{label}",
                     f"{short} accepted a malformed input ({cls}, {label}, shape {list(arr.shape)}): the constructor returned a gate; "
                     f"building .definition later raised {det.get('message')}", rep)
        elif dec == "accept":
            ctx.fail(f"accepted:{short}:{label}",
                     f"{short} accepted a malformed input ({cls}, {label}, shape {list(arr.shape)}) and returned a circuit ({det})", rep)
        else:
            ctx.ok(f"rejected:{short}:{label}", sample={"entry": short, "input": label, "shape": list(arr.shape), "decision": dec})
    else:
        # SU(2)-only class: a U(2) matrix outside SU(2) is outside the property's sentence ("2x2 unitary")
        su2_only = _short(name).startswith("LdMcSpecialUnitary") and "ValueError: Operator must be in SU(2)" in det.get("message", "")
        knill_small = name.endswith(":decompose") and variant == "knill" and arr.shape[0] < 4
        if "expect=" in label and _short(name).startswith("LdMcSpecialUnitary"):
            # the one class that REJECTS on check_su2: det = exp(i theta) on both sides of cmath.isclose's rel_tol = 1e-9
            want = label.split("expect=")[1].split("#")[0].split()[0]
            got = "accept" if dec == "accept" else "reject"
            if got != want or (got == "reject" and not su2_only):
                ctx.fail(f"su2-threshold:{short}:{label}", f"{short} on a unitary with det = exp(i theta) ({label}): {dec} {det}, "
                                                            f"expected {want} (check_su2: |det - 1| <= 1e-9)", rep)
            else:
                ctx.ok(f"su2-threshold:{short}:{label}")
            return
        if dec != "accept":
            if su2_only or knill_small:
                ctx.count("documented-restriction")
                ctx.ok(f"restricted:{short}:{label}", nontrivial=False)
            else:
                ctx.fail(f"valid-rejected:{short}:{label}",
                         f"validation of {short} rejected a valid input ({label}, shape {list(arr.shape)}): {dec} {det}", rep)
        else:
            if late:
                ctx.count("valid-construction-raised")
                _note(ctx, ("vcr", short, det.get("message")),
                      f"valid input passed validation but the construction code raised (not a C16 matter): {short} "
                           f"{label if arr.size > 4 else label + ' shape ' + str(list(arr.shape))}: {det.get('message')}")
            ctx.ok(f"valid-accepted:{short}:{label}", nontrivial=arr.size >= 2)


def _note(ctx, key, text):
    """one note per key so that the evidence stays readable"""
    seen = ctx.__dict__.setdefault("_c16_note_keys", set())
    if key not in seen:
        seen.add(key)
        ctx.notes.append(text)


def streams(ctx):
    nprng = ctx.nprng()
    st = {"dense": dense_stream(ctx, nprng), "unitary": unitary_stream(ctx, nprng), "isometry": isometry_stream(ctx, nprng),
          "u2": u2_stream(ctx, nprng), "u2-mcu": u2_stream(ctx, nprng, for_mcu=True),
          "u2-realdiag": u2_stream(ctx, nprng, real_diag=True)}
    for k, extra in boundary_streams(ctx, nprng).items():
        st[k] = st[k] + extra
    for k, extra in component_streams(ctx, nprng).items():
        st[k] = st[k] + extra
    return st


def run_stream(ctx, tie=True):
    import numpy as np
    callers = _entry_callers(None)
    reps = 1 if ctx.quick else 4                      # thorough: four independent draws of every stream
    for rep in range(reps):
        st = streams(ctx)
        sfx = f"#{rep}" if rep else ""
        for name, variants in callers.items():
            kind = KIND_OF[name]
            key = kind
            if name.endswith(":MCU"):
                key = "u2-mcu"
            elif "MultiTargetMCSU2[list]" in name:
                key = "u2-realdiag"
            for variant, _ in variants:
                for label, A in st[key]:
                    arr = A[1] if isinstance(A, tuple) else A
                    # expensive valid builds: only the cheap schemes at the larger sizes
                    if kind in ("unitary", "isometry") and variant in ("qr", "knill") and np.asarray(arr).shape[0] > (4 if ctx.quick else 8):
                        if classify(kind, arr) == "valid":
                            continue
                    check_case(ctx, callers, name, variant, label + sfx, A, tie=tie)
        if tie:
            direct_validator_ties(ctx, st)


def direct_validator_ties(ctx, st):
    """`check_u2` and `check_su2` called directly (not through a constructor)."""
    import numpy as np
    from qclib.gates.util import check_u2, check_su2
    for label, A in st["u2"] + st["u2-mcu"]:
        A = np.asarray(A)
        if classify("u2", A) == "band" or A.ndim > 2:
            continue
        dec, _ = real_decision(lambda M: check_u2(M), A, want_definition=False)
        op = {"op": "steps", "v": "check_u2"}
        op.update(arr_fields(A))
        ctx.tie(op, [dec], label=f"check_u2 {label}")
        if A.shape == (2, 2):
            with warnings.catch_warnings():
                warnings.simplefilter("ignore")
                with np.errstate(all="ignore"):
                    d = abs(np.linalg.det(A) - 1.0)
                if 1e-9 / 3 <= d <= 3e-9 * max(1.0, abs(np.linalg.det(A))):
                    continue                        # band of cmath.isclose's rel_tol
                try:
                    r = "true" if check_su2(A) else "false"
                except Exception as e:
                    r = f"raise {type(e).__name__}"
            op = {"op": "pred", "p": "check_su2"}
            op.update(arr_fields(A))
            ctx.tie(op, [r], label=f"check_su2 {label}")


def table_tie(ctx):
    """The generated table itself, as the driver sees it (names + guarded flags)."""
    import framework
    try:
        x = extract_all(framework.REPO)
    except Unsupported as e:
        # the translator refuses the current source (already a broken obligation from `generate`): keep going, so that the
        # stream still runs against the last generated model and the oracle can name a concrete failing input
        ctx.obligation_broken("translator (entry-point table)", str(e))
        return
    ctx.tie({"op": "table"}, [f"{n} guarded=true" for n, _, _ in x["table"]], label="entry-point table")


def side_probes(ctx):
    """Things outside the property's list that a reader of a C16 report wants to know (notes only)."""
    import numpy as np
    notes = []
    with warnings.catch_warnings():
        warnings.simplefilter("ignore")
        try:
            from qclib.state_preparation import DcspInitialize, BdspInitialize, PivotInitialize
            for cls in (DcspInitialize, BdspInitialize):
                try:
                    cls([1.0, 2.0, 3.0, 4.0])
                    notes.append(f"outside-scope: {cls.__name__}([1,2,3,4]) (norm^2 = 30) is accepted: its _get_num_qubits has no norm check and an `Exception(...)` without `raise`")
                except Exception as e:
                    notes.append(f"outside-scope: {cls.__name__}([1,2,3,4]) raises {type(e).__name__}")
            try:
                PivotInitialize({"00": 1.0, "11": 1.0})
                notes.append("outside-scope: sparse initializers accept un-normalised dictionaries (initialize_sparse.py: `Exception(...)` without `raise`)")
            except Exception as e:
                notes.append(f"outside-scope: PivotInitialize un-normalised dict raises {type(e).__name__}")
        except Exception as e:                       # harness-side problem: not a finding
            notes.append(f"side probes skipped: {type(e).__name__}: {e}")
        try:
            from qclib.state_preparation.mixed import MixedInitialize
            try:
                g = MixedInitialize([np.array([1.0, 0.0]), np.array([2.0, 0.0])])
                try:
                    g.definition
                    notes.append("outside-scope: MixedInitialize([[1,0],[2,0]]) (second state has norm 2) is accepted and a definition is built")
                except Exception as e:
                    notes.append("outside-scope: MixedInitialize([[1,0],[2,0]]) (second state has norm 2): the constructor returns a gate "
                                 f"(only the first ensemble member is validated); building .definition raises {type(e).__name__}")
            except Exception as e:
                notes.append(f"outside-scope: MixedInitialize([[1,0],[2,0]]) raises {type(e).__name__} in the constructor")
        except Exception as e:
            notes.append(f"MixedInitialize side probe skipped: {type(e).__name__}: {e}")
        try:
            from qclib.gates.ldmcsu import Ldmcsu
            from qiskit.quantum_info import Operator
            m = np.diag([1.0, 1j])
            op = Operator(Ldmcsu(m, 3).definition).data
            ideal = np.eye(16, dtype=complex)
            ideal[15, 15] = 1j
            notes.append(f"outside-sentence: Ldmcsu(diag(1,i), 3) (unitary, det != 1; check_su2's result is dropped) is accepted, |Operator - C^3 U| = {np.abs(op - ideal).max():.3f}")
        except Exception as e:
            notes.append(f"Ldmcsu(diag(1,i),3): {type(e).__name__}: {str(e)[:80]}")
    ctx.notes.extend(notes)


def non_numeric_probe(ctx):
    """Entries that pass the length and norm tests (abs, ** 2 and sum work on them) but are neither Python numbers nor
    numpy scalars reach the final `raise TypeError` of Initialize.validate_parameter.  The property's sentence does not
    list such inputs, so the observation is recorded (counter + note), not judged: what must hold, and is judged, is that
    no exception OTHER than TypeError / ValueError escapes and that an accepting constructor returns a gate of the right width."""
    from fractions import Fraction
    callers = _entry_callers(None)
    vec = [Fraction(3, 5), Fraction(0), Fraction(4, 5), Fraction(0)]
    seen = {}
    for name, variants in callers.items():
        if KIND_OF[name] != "dense":
            continue
        short = _short(name)
        with warnings.catch_warnings():
            warnings.simplefilter("ignore")
            try:
                g = variants[0][1](list(vec))
                seen[short] = f"accepted (num_qubits={getattr(g, 'num_qubits', '?')})"
                if getattr(g, "num_qubits", None) not in (2, 3):        # 3: black-box carries one extra qubit
                    ctx.fail(f"non-numeric:{short}:wrong-width", f"{short}([3/5, 0, 4/5, 0] as Fractions) returned a gate on "
                             f"{getattr(g, 'num_qubits', '?')} qubits", {"probe": "non-numeric", "entry": name})
                else:
                    ctx.ok(f"non-numeric:{short}:accepted", nontrivial=False)
            except (TypeError, ValueError) as e:
                seen[short] = f"{type(e).__name__}"
                ctx.count("branch:validate_parameter non-numeric entry -> " + type(e).__name__)
                ctx.ok(f"non-numeric:{short}:rejected", nontrivial=False)
            except Exception as e:
                ctx.fail(f"non-numeric:{short}:{type(e).__name__}", f"{short}(vector of Fractions) raised {type(e).__name__}: "
                         f"{str(e)[:120]} (neither TypeError nor ValueError)", {"probe": "non-numeric", "entry": name})
    ctx.notes.append("non-numeric entries (unit vector of fractions.Fraction), outside the property's sentence, observed: "
                     + "; ".join(f"{k}: {v}" for k, v in sorted(seen.items())))


# ==================================================================================================
# 3. input-diversity pass: element types x scale structure x sign / phase x call forms x sizes
# ==================================================================================================
#
# The property is about REJECTION, so every form family is applied to INVALID inputs (must raise before anything is
# returned, a host circuit handed to a static helper must stay empty, the caller's vector / matrix / dict must not be
# mutated) and to their VALID TWINS (validation must not reject them: a validator that starts refusing int lists, tuples,
# real arrays or a particular option is as wrong as one that accepts garbage).
#
# form  x  entry point                                  -> where generated
# ---------------------------------------------------------------------------------------------------------------------
# 1 element types   8 dense classes                     -> div_dense_exact x DIV_FORMS (c128, f64, int64, f32, c64, bool, negzero,
#                                                          list, int-list, tuple, npscalar-list, npint-list, pybool-list,
#                                                          mixed-list) through the plain constructor; NaN / inf at first / middle /
#                                                          last as real NaN, nan+0j, 0+nanj, Python float('nan') in a list
#                                                          (div_dense_nonfinite); column / row vector, 3-D, ragged (div_dense_shapes);
#                                                          an inexactly normalised float32 vector (div_float32_inexact)
#                   7 one-qubit gate classes (+MT list) -> div_u2_exact x forms (+ rows-of-arrays) through every constructor variant
#                   unitary()                           -> div_unitary_exact x forms x (qsd, csd, qr, qsd+iso1, qsd+iso2)
#                   isometry.decompose                  -> div_iso_exact x forms x (ccd, csd, knill)
# 2 scale of defect dense                               -> div_dense_scaled: norm^2 - 1 = +-1e-2, +-1e-4, +-1e-6 carried by one heavy
#                                                          amplitude / a light tail (n = 16, 32) / the first / the last entry;
#                                                          valid twins: heavy head + light tail exactly normalised
#                   unitary / isometry / u2             -> div_matrix_scaled: first / middle / last column (row for check_u2) norm off by
#                                                          +-1e-2, +-1e-4; adjacent / first-last pair with real / imaginary overlap 1e-2,
#                                                          1e-4 (unit diagonal); defect only in the lower-right block; one row times 2;
#                                                          |det| = 1 non-unitary; 16x16 once
# 3 sign / phase    all                                 -> all-negative, purely imaginary, valid x 1.1i, valid x -1.1 (invalid);
#                                                          -v, i v, per-entry phases +-1, +-i (valid twins); U(2) with det = -1, i,
#                                                          exp(0.3i) as int / real / complex given to the SU(2)-only classes
#                                                          (LdMcSpecialUnitary judged: must raise; Ldmcsu / MultiTargetMCSU2 observed)
# 4 call forms      dense                               -> DIV_DENSE_CALLS: label, opt_params None / {} / each key alone / full /
#                                                          positional, static X.initialize on an exact host (qubits=None) and on a
#                                                          larger two-register host with a permuted non-contiguous qubit list as
#                                                          ints / Qubit objects / register slice, with and without every option,
#                                                          after a valid construction, with a re-used (edited) options dict
#                   gates                               -> DIV_U2_CALLS: num_controls 0, 1, 2, 3, 5 (MCU 8, 9), keyword / positional,
#                                                          ctrl_state None / '000' / '101' / '111', up_to_diagonal, error, static
#                                                          helper (ldmcu, ldmcsu, qdmcu, mcg, mcu with error 0 and > 0,
#                                                          multi_target_mcsu2 list / single) on a larger host, permuted ints / Qubits /
#                                                          registers; MultiTargetMCSU2 lists of 1, 2, 3 with the input first / middle / last
#                   unitary()                           -> DIV_UNITARY_CALLS: positional / keyword decomposition, iso 0 / 1 / 2,
#                                                          apply_a2, everything at once, cnot_count(method='exact')
#                   isometry.decompose                  -> DIV_ISO_CALLS: positional / keyword scheme, cnot_count(method='exact')
# 5 sizes           dense 1, 2, 3, 5, 6, 7, 9, 12 / n = 1..5; matrices 1x1, 2x2, 4x4, 8x8, 16x16; isometries 2x1 .. 8x8, 4x3, 4x8, 6x2
#
# Tie: the NUMERIC content of every diversity input goes through `check_case` (plain constructor / function, complex128
# ndarray): decision of the real code vs the Lean validator model on the same doubles.  Element types, call forms, hosts,
# option dictionaries are outside the model (it sees an array of doubles): oracle only.
#
# Unsupported forms (counted, not judged for valid twins; an INVALID input in such a form must still raise): nested lists /
# tuples for the classes that call `check_u2(unitary)` on the raw argument (Ldmcu, Qdmcu, Mcg, MCU: documented "numpy.ndarray")
# and for `decompose(isometry: np.ndarray)` (-> AttributeError); numpy bool arrays for the dense initializers
# (validate_parameter: np.bool_ is not a number -> TypeError).

DIV_ND_FORMS = ("c128", "f64", "int64", "f32", "c64", "bool", "negzero")
DIV_SEQ_FORMS = ("list", "int-list", "tuple", "npscalar-list", "npint-list", "pybool-list", "mixed-list", "rows-of-arrays")
DIV_FORMS = DIV_ND_FORMS + DIV_SEQ_FORMS


def _div_exact32(c):
    import numpy as np
    with np.errstate(all="ignore"):
        b = c.astype(np.complex64).astype(complex)
    return bool(np.array_equal(c.real, b.real, equal_nan=True) and np.array_equal(c.imag, b.imag, equal_nan=True))


def _div_nest(x, leaf, seq):
    if x.ndim == 0:
        return leaf(x.item())
    return seq([_div_nest(y, leaf, seq) for y in x])


def _div_form(arr, form):
    """The same VALUES in another element type; None where the form cannot carry them exactly."""
    import numpy as np
    a = np.asarray(arr)
    c = a.astype(complex)
    with np.errstate(all="ignore"):
        is_real = not np.any(c.imag != 0) and not np.any(np.signbit(c.imag))
        finite = bool(np.all(np.isfinite(c.real)) and np.all(np.isfinite(c.imag)))
        is_int = is_real and finite and bool(np.all(c.real == np.round(c.real))) and bool(np.all(np.abs(c.real) < 2 ** 31))
        is_bool = is_int and bool(np.all((c.real == 0) | (c.real == 1)))
    neg0 = bool(np.any(np.signbit(c.real) & (c.real == 0)))

    def pyleaf(z):
        return float(z.real) if is_real else complex(z)
    if form == "c128":
        return c.copy()
    if form == "f64":
        return c.real.copy() if is_real else None
    if form == "int64":
        return c.real.astype(np.int64) if is_int and not neg0 else None
    if form == "f32":
        return c.real.astype(np.float32) if is_real and _div_exact32(c) else None
    if form == "c64":
        return c.astype(np.complex64) if _div_exact32(c) else None
    if form == "bool":
        return (c.real != 0) if is_bool and not neg0 and c.size else None
    if form == "negzero":
        if not is_real or not np.any(c.real == 0):
            return None
        r = c.real.copy()
        r[r == 0] = -0.0
        return r
    if form == "list":
        return _div_nest(c, pyleaf, list)
    if form == "tuple":
        return _div_nest(c, pyleaf, tuple)
    if form == "int-list":
        return _div_nest(c, lambda z: int(z.real), list) if is_int and not neg0 else None
    if form == "pybool-list":
        return _div_nest(c, lambda z: bool(z.real), list) if is_bool and not neg0 and c.size else None
    if form == "npscalar-list":
        return _div_nest(c, (lambda z: np.float64(z.real)) if is_real else (lambda z: np.complex128(z)), list)
    if form == "npint-list":
        return _div_nest(c, lambda z: np.int64(z.real), list) if is_int and not neg0 else None
    if form == "mixed-list":
        # leaves cycle through Python int / float / complex and numpy float64 / float32 / complex128 scalars
        if not c.size or not finite:
            return None
        cnt = [0]

        def leaf(z):
            i = cnt[0]
            cnt[0] += 1
            integral = z.imag == 0 and z.real == round(z.real) and not (z.real == 0 and math.copysign(1, z.real) < 0)
            ex32 = z.imag == 0 and float(np.float32(z.real)) == z.real
            opts = [int(z.real) if integral else (float(z.real) if z.imag == 0 else complex(z)),
                    float(z.real) if z.imag == 0 else complex(z), complex(z),
                    np.float64(z.real) if z.imag == 0 else np.complex128(z),
                    np.float32(z.real) if ex32 else np.complex128(z), np.complex128(z)]
            return opts[i % len(opts)]
        return _div_nest(c, leaf, list)
    if form == "rows-of-arrays":
        return [np.array(r) for r in (c.real if is_real else c)] if c.ndim == 2 and c.shape[0] else None
    raise ValueError(form)


def _div_snap(o):
    """structural snapshot of a caller-owned object (to see that the library did not write into it)"""
    import numpy as np
    if isinstance(o, np.ndarray):
        return ("nd", str(o.dtype), o.shape, o.tobytes())
    if isinstance(o, (list, tuple)):
        return (type(o).__name__, tuple(_div_snap(x) for x in o))
    if isinstance(o, dict):
        return ("dict", tuple((k, _div_snap(v)) for k, v in o.items()))
    return (type(o).__name__, repr(o))


def _div_supported(name, form):
    """does the library claim to take this element-type form at this entry point?  (see the header comment)"""
    kind = KIND_OF[name]
    nd = form in DIV_ND_FORMS
    if kind == "dense":
        return form != "bool"
    if kind == "unitary":
        return True
    if kind == "isometry":
        return nd
    cls = _short(name).split("[")[0]
    return True if cls in ("Ldmcsu", "LdMcSpecialUnitary", "MultiTargetMCSU2") else nd


# ---------------------------------------------------------------------------------------------- numeric content

def div_dense_exact():
    """(label, vector): entries 0, +-1, +-1/2, +-i, ... exactly representable in every dtype: all element-type forms apply"""
    h = 0.5
    inv = [("int [1,1,0,0]", [1, 1, 0, 0]), ("int [2,0,0,0]", [2, 0, 0, 0]), ("int [0,0,0,0]", [0, 0, 0, 0]), ("int [1,1]", [1, 1]),
           ("int [3,4]", [3, 4]), ("all-negative [-1,-1,0,0]", [-1, -1, 0, 0]), ("halves norm 3/4", [h, h, h, 0]),
           ("purely imaginary [i,i,0,0]", [1j, 1j, 0, 0]), ("halves len8 norm 2", [h] * 8), ("two ones len8", [1, 0, 0, 0, 0, 0, 0, 1]),
           ("basis times 2i", [0, 2j, 0, 0]), ("phases 1,-1,i,-i norm 4", [1, -1, 1j, -1j]), ("int [0,0]", [0, 0]),
           ("len1 [1]", [1]), ("len3 [1,0,0]", [1, 0, 0]), ("len5 halves", [h, h, h, h, 0]), ("len6 halves", [h, h, h, h, 0, 0]),
           ("len7 basis", [0, 0, 0, 0, 0, 0, 1]), ("len9 basis", [1] + [0] * 8), ("len12 basis", [0] * 11 + [1]), ("empty", [])]
    val = [("valid basis int [0,1,0,0]", [0, 1, 0, 0]), ("valid [0,-1]", [0, -1]), ("valid [1,0]", [1, 0]), ("valid [-i,0]", [-1j, 0]),
           ("valid signed halves", [h, h, -h, h]), ("valid all-negative halves", [-h] * 4),
           ("valid halves phases 1,i,-1,-i", [h, h * 1j, -h, -h * 1j]), ("valid imaginary basis len8", [0, 0, 0, 0, 0, 0, 1j, 0]),
           ("valid halves + zeros len8", [h, h, h, h, 0, 0, 0, 0])]
    return inv + val


def div_dense_scaled(ctx, nprng):
    """defect norm^2 - 1 = +-d carried by one heavy amplitude / a light tail / the first / the last entry; sign / phase families"""
    import numpy as np
    out = []
    for n in (16, 32):
        hpos = ctx.rng.choice((0, n - 1, ctx.rng.randrange(1, n - 1)))
        tail = np.exp(nprng.uniform(math.log(1e-6), math.log(1e-3), n)) * np.exp(1j * nprng.uniform(0, 2 * math.pi, n))
        tail[hpos] = 0.0
        tail = tail / math.sqrt(float(np.sum(np.abs(tail) ** 2)))          # unit mass, moduli spread over three decades
        for d in (1e-2, 1e-4, 1e-6):
            for sg in (1, -1):
                head2 = 1.0 if sg > 0 else 1.0 - 2 * d
                v = math.sqrt(d) * tail
                v[hpos] = math.sqrt(head2)
                out.append((f"light tail mass {d:g} -> norm^2 1{'+' if sg > 0 else '-'}{d:g} len{n} head@{hpos}", v))
            v = math.sqrt(d) * tail
            v[hpos] = math.sqrt(1.0 - d) * np.exp(1j * ctx.rng.uniform(0, 6.28))
            out.append((f"valid heavy head + light tail mass {d:g} len{n} head@{hpos}", _renorm(v)))
    for n in (2, 4, 8):
        base = _renorm(_unit(n, nprng))
        k = int(np.argmax(np.abs(base)))
        for d in (1e-2, 1e-4):
            for sg in (1, -1):
                tag = f"{'+' if sg > 0 else '-'}{d:g}"
                for pos, name in ((k, "heaviest"), (0, "first"), (n - 1, "last")):
                    w = base.copy()
                    a2 = abs(w[pos]) ** 2
                    if a2 + sg * d <= 1e-3:
                        continue
                    w[pos] = w[pos] * math.sqrt((a2 + sg * d) / a2)
                    out.append((f"defect {tag} in the {name} entry only len{n}", w))
        r_ = _renorm(np.abs(_unit(n, nprng, real=True)) + 0.05)
        out += [(f"all-negative norm^2 1.21 len{n}", -1.1 * r_), (f"valid times 1.1i len{n}", 1.1j * base),
                (f"valid times -1.1 len{n}", -1.1 * base), (f"purely imaginary norm^2 0.81 len{n}", 0.9j * r_),
                (f"valid all-negative len{n}", -r_), (f"valid times -1 len{n}", -base), (f"valid times i len{n}", 1j * base),
                (f"valid purely imaginary len{n}", 1j * r_), (f"valid complex with zero imaginary parts len{n}", r_.astype(complex)),
                (f"valid equal moduli phases +-1,+-i len{n}", _renorm(np.array([1, 1j, -1, -1j] * n)[:n] / math.sqrt(n)))]
    return out


def div_dense_nonfinite(ctx):
    """NaN / inf at the first / middle / last position; real NaN, nan+0j, 0+nanj; the other entries form a unit vector"""
    import numpy as np
    out = []
    nan, inf = float("nan"), float("inf")
    for n in (2, 4, 8):
        for pos, pname in ((0, "first"), (n // 2, "middle"), (n - 1, "last")):
            if n == 2 and pname == "middle":
                continue
            other = (pos + 1) % n
            for vname, val in (("nan", nan), ("nan+0j", complex(nan, 0.0)), ("0+nanj", complex(0.0, nan)), ("nan+nanj", complex(nan, nan)),
                               ("inf", inf), ("-inf", -inf), ("0+infj", complex(0.0, inf))):
                if n == 8 and vname in ("nan+nanj", "-inf", "0+infj"):
                    continue
                v = np.zeros(n, dtype=complex)
                v[other] = 1.0
                v[pos] = val
                out.append((f"{vname} at the {pname} entry len{n}", v))
        out.append((f"all nan len{n}", np.full(n, nan)))
    return out


def div_dense_shapes():
    """2-D / 3-D / ragged objects where a vector is expected (oracle only: outside the Lean model's vector input)"""
    import numpy as np
    return [("column vector 2x1 unit", np.array([[1.0], [0.0]])), ("column vector 4x1 norm 2", np.array([[1.0], [1.0], [0.0], [0.0]])),
            ("row vector 1x2 unit", np.array([[1.0, 0.0]])), ("row vector 1x4 unit", np.array([[0.0, 1.0, 0.0, 0.0]])),
            ("matrix 2x2 identity", np.eye(2)), ("matrix 4x4 identity", np.eye(4)), ("matrix 2x2 halves", np.full((2, 2), 0.5)),
            ("3-D 2x1x1", np.array([[[1.0]], [[0.0]]])), ("ragged", ("RAW", [[1.0, 0.0], [1.0]])), ("ragged-2", ("RAW", [1.0, [0.0]])),
            ("nested list column", ("RAW", [[0.0], [1.0]])), ("vector of length-2 tuples", ("RAW", [(1.0, 0.0), (0.0, 0.0)]))]


def _blk(a, b):
    import numpy as np
    out = np.zeros((a.shape[0] + b.shape[0], a.shape[1] + b.shape[1]), dtype=complex)
    out[:a.shape[0], :a.shape[1]] = a
    out[a.shape[0]:, a.shape[1]:] = b
    return out


def div_u2_exact():
    import numpy as np
    h = 0.5
    inv = [("int shear [[1,1],[0,1]]", [[1, 1], [0, 1]]), ("int diag(2,1)", [[2, 0], [0, 1]]), ("int diag(1,2)", [[1, 0], [0, 2]]),
           ("diag(1,1/2)", [[1, 0], [0, h]]), ("diag(1/2,1)", [[h, 0], [0, 1]]), ("int projector diag(1,0)", [[1, 0], [0, 0]]),
           ("int projector diag(0,1)", [[0, 0], [0, 1]]), ("int all ones", [[1, 1], [1, 1]]), ("int zero", [[0, 0], [0, 0]]),
           ("int hadamard unnormalised", [[1, 1], [1, -1]]), ("halves hadamard rows norm^2 1/2", [[h, h], [h, -h]]), ("int 2X", [[0, 2], [2, 0]]),
           ("complex-int [[1,i],[i,1]] orthogonal rows norm^2 2", [[1, 1j], [1j, 1]]), ("diag(2,1/2) |det|=1", [[2, 0], [0, h]]),
           ("antidiag(2,1/2) |det|=1", [[0, 2], [h, 0]]), ("2i identity", [[2j, 0], [0, 2j]]), ("all-negative -2 identity", [[-2, 0], [0, -2]]),
           ("diag(1,2i)", [[1, 0], [0, 2j]]), ("int lower shear [[1,0],[1,1]]", [[1, 0], [1, 1]]),
           ("shape int eye3", np.eye(3)), ("shape int eye4", np.eye(4)), ("shape 1x2", [[1, 0]]), ("shape 2x1", [[1], [0]]),
           ("shape 1-D [1,0,0,1]", [1, 0, 0, 1]), ("shape 2x3", [[1, 0, 0], [0, 1, 0]]), ("shape 3x2", [[1, 0], [0, 1], [0, 0]]),
           ("shape 1x1", [[1]]), ("shape 2x2x2", np.stack([np.eye(2), np.eye(2)]))]
    val = [("valid int X", [[0, 1], [1, 0]]), ("valid int Z", [[1, 0], [0, -1]]), ("valid int iY", [[0, 1], [-1, 0]]),
           ("valid int -iY", [[0, -1], [1, 0]]), ("valid Y", [[0, -1j], [1j, 0]]), ("valid S", [[1, 0], [0, 1j]]),
           ("valid diag(i,-i)", [[1j, 0], [0, -1j]]), ("valid iX", [[0, 1j], [1j, 0]]), ("valid i identity", [[1j, 0], [0, 1j]]),
           ("valid int -identity", [[-1, 0], [0, -1]]), ("valid int identity", [[1, 0], [0, 1]])]
    return [(l, np.array(m, dtype=complex)) for l, m in inv + val]


def div_unitary_exact():
    import numpy as np
    I2, sh = np.eye(2), np.array([[1.0, 1.0], [0.0, 1.0]])
    cnot = np.eye(4)[[0, 1, 3, 2]]
    out = []
    for n in (4, 8):
        perm = np.eye(n)[[(3 * i + 1) % n for i in range(n)]] if n == 8 else cnot
        m = n // 2
        out += [(f"int kron(I,shear) {n}x{n}", np.kron(np.eye(n // 2), sh)), (f"int lower-right block shear only {n}x{n}", _blk(np.eye(n - 2), sh)),
                (f"int first column doubled {n}x{n}", perm @ np.diag([2.0] + [1.0] * (n - 1))),
                (f"int middle column doubled {n}x{n}", perm @ np.diag([1.0] * m + [2.0] + [1.0] * (n - m - 1))),
                (f"int last column doubled {n}x{n}", perm @ np.diag([1.0] * (n - 1) + [2.0])),
                (f"halves: one row halved {n}x{n}", np.diag([1.0] * (n - 1) + [0.5]) @ perm),
                (f"int hadamard-unnormalised x I {n}x{n}", np.kron(np.array([[1.0, 1.0], [1.0, -1.0]]), np.eye(n // 2))),
                (f"diag(2,1/2,1..) |det|=1 {n}x{n}", np.diag([2.0, 0.5] + [1.0] * (n - 2))),
                (f"int projector {n}x{n}", np.diag([1.0] * (n - 1) + [0.0])), (f"int all ones {n}x{n}", np.ones((n, n))),
                (f"int zero {n}x{n}", np.zeros((n, n))), (f"2i times permutation {n}x{n}", 2j * perm),
                (f"unit columns not orthogonal (halves) {n}x{n}", np.kron(np.full((4, 4), 0.5), np.eye(n // 4))),
                (f"int last column repeated {n}x{n}", perm @ (np.eye(n) - np.outer(np.eye(n)[n - 1], np.eye(n)[n - 1]) + np.outer(np.eye(n)[n - 2], np.eye(n)[n - 1])))]
    p16 = np.eye(16)[[(5 * i + 3) % 16 for i in range(16)]]
    out += [("int last column doubled 16x16", p16 @ np.diag([1.0] * 15 + [2.0])), ("int lower-right block shear only 16x16", _blk(np.eye(14), sh)),
            ("int shear 2x2", sh), ("int diag(1,2) 2x2", np.diag([1.0, 2.0])), ("halves hadamard 2x2", np.full((2, 2), 0.5) * [[1, 1], [1, -1]]),
            ("shape int eye3", np.eye(3)), ("shape int eye6", np.eye(6)), ("shape int 2x3", np.eye(3)[:2]), ("shape int 4x3", np.eye(4)[:, :3]),
            ("shape int 2x4 wide", np.eye(4)[:2]), ("shape int 6x2", np.eye(6)[:, :2]), ("shape 1-D [1,0,0,1]", np.array([1.0, 0, 0, 1])),
            ("shape 1-D len2", np.array([1.0, 0.0])), ("shape 3-D 2x2x2", np.stack([I2, I2])), ("shape column 4x1", np.eye(4)[:, :1]),
            ("shape row 1x4", np.eye(4)[:1]), ("int 2 times 1x1", np.array([[2.0]]))]
    hh = np.kron(np.array([[1.0, 1.0], [1.0, -1.0]]), np.array([[1.0, 1.0], [1.0, -1.0]])) / 2
    out += [("valid int X 2x2", np.eye(2)[[1, 0]]), ("valid int Z 2x2", np.diag([1.0, -1.0])), ("valid int identity 2x2", I2),
            ("valid i identity 2x2", 1j * I2), ("valid int CNOT 4x4", cnot), ("valid halves H(x)H 4x4", hh),
            ("valid i SWAP 4x4", 1j * np.eye(4)[[0, 2, 1, 3]]), ("valid diag(1,-1,i,-i) 4x4", np.diag([1, -1, 1j, -1j])),
            ("valid int -identity 4x4", -np.eye(4)), ("valid int permutation 8x8", np.eye(8)[[(3 * i + 1) % 8 for i in range(8)]])]
    return [(l, np.array(m, dtype=complex)) for l, m in out]


def div_iso_exact():
    import numpy as np
    e4, e8 = np.eye(4), np.eye(8)
    a = np.array([0.5, 0.5, 0.5, 0.5])
    b = np.array([0.5j, 0.5j, 0.5, -0.5])            # <a, b> = i/2 exactly: Re(V^dagger V) = I although V^dagger V != I
    c = np.array([0.5, -0.5, 0.5, -0.5])
    out = [("int shear 4x2", [[1, 1], [0, 1], [0, 0], [0, 0]]), ("int second column doubled 4x2", [[1, 0], [0, 2], [0, 0], [0, 0]]),
           ("halves: purely imaginary overlap i/2, unit columns 4x2", np.stack([a, b], axis=1)),
           ("halves: real overlap, unit columns 4x2", np.stack([a, np.array([0.5, 0.5, 0.5, -0.5])], axis=1)),
           ("int duplicate column 4x2", np.stack([e4[0], e4[0]], axis=1)), ("int column [1,1,0,0] 4x1", [[1], [1], [0], [0]]),
           ("int vector [1,1,0,0] 1-D", [1, 1, 0, 0]), ("int vector [0,0,0,0] 1-D", [0, 0, 0, 0]), ("int column [1,1] 2x1", [[1], [1]]),
           ("int shear 2x2", [[1, 1], [0, 1]]), ("int last column doubled 8x2", np.stack([e8[5], 2 * e8[0]], axis=1)),
           ("int last column doubled 8x4", np.stack([e8[5], e8[0], e8[3], 2 * e8[6]], axis=1)),
           ("int middle column doubled 8x4", np.stack([e8[5], 2 * e8[0], e8[3], e8[6]], axis=1)),
           ("int first column zero 8x4", np.stack([0 * e8[5], e8[0], e8[3], e8[6]], axis=1)),
           ("int lower-right block shear only 8x8", _blk(np.eye(6), np.array([[1.0, 1.0], [0.0, 1.0]]))),
           ("2i times isometry 4x2", 2j * e4[:, :2]), ("all-negative -2 isometry 4x2", -2 * e4[:, :2]),
           ("shape int 2x4 wide", e4[:2]), ("shape int 4x8 wide", e8[:4]), ("shape int 4x3", e4[:, :3]), ("shape int eye3", np.eye(3)),
           ("shape int 6x2", np.eye(6)[:, :2]), ("shape int 2x3", np.eye(3)[:2]), ("shape int 1-D len3", [0, 1, 0]),
           ("shape int 1-D len6", [0, 1, 0, 0, 0, 0]), ("shape int 1-D len12", [0] * 11 + [1]), ("shape int 8x3", e8[:, :3]),
           ("shape int 1x2", [[1, 0]]), ("shape int 4x4x1", e4.reshape(4, 4, 1)),
           ("valid int 4x2", e4[:, :2]), ("valid int permuted columns 4x2", e4[:, [2, 0]]), ("valid halves 4x2", np.stack([a, c], axis=1)),
           ("valid int column 4x1", e4[:, 2:3]), ("valid int vector 1-D len4", e4[2]), ("valid halves vector 1-D len4", c),
           ("valid int 8x2", np.stack([e8[5], e8[0]], axis=1)), ("valid int 8x4", np.stack([e8[5], e8[0], e8[3], e8[6]], axis=1)),
           ("valid int 2x1", [[0], [1]]), ("valid int X 2x2", [[0, 1], [1, 0]]), ("valid int CNOT 4x4", e4[[0, 1, 3, 2]]),
           ("valid i times isometry 4x2", 1j * e4[:, :2]), ("valid -1 times isometry 4x2", -e4[:, :2])]
    return [(l, np.array(m, dtype=complex)) for l, m in out]


def div_matrix_scaled(ctx, nprng):
    """defect of the Gram matrix carried by ONE column / pair / block, at sizes 1e-2 and 1e-4 (10x and 1000x the diagonal tolerance,
    1e4 x / 1e6 x the off-diagonal one); -> {"unitary": [...], "isometry": [...], "u2": [...]}"""
    import numpy as np
    out = {"unitary": [], "isometry": [], "u2": [], "u2-mcu": []}
    for n in (4, 8):
        U = _haar(n, nprng)
        m = ctx.rng.randrange(1, n - 1)
        for d in (1e-2, -1e-2, 1e-4, -1e-4):
            for j, nm in ((0, "first"), (m, "middle"), (n - 1, "last")):
                out["unitary"].append((f"column norm^2 1{d:+g} {nm} column {n}x{n}", _apply_right(U, "diag", j, d)))
            out["unitary"].append((f"row norm^2 1{d:+g} middle row {n}x{n}", _apply_left(U, "diag", m, d)))
        for t in (1e-2, 1e-4):
            for (i, j), nm in (((m - 1, m), "adjacent"), ((0, n - 1), "first-last")):
                for imag in (True, False):
                    out["unitary"].append((f"{'imaginary' if imag else 'real'} overlap {t:g} {nm} pair, unit diagonal {n}x{n}", _overlap_cols(U, i, j, t, imag)))
        B = _haar(2, nprng)
        for d in (1e-2, 1e-4):
            out["unitary"].append((f"lower-right 2x2 block scaled 1{d:+g} only {n}x{n}", _blk(_haar(n - 2, nprng), B * math.sqrt(1 + d))))
        out["unitary"].append((f"one row times 2 {n}x{n}", _apply_left(U, "diag", m, 3.0)))
        out["unitary"].append((f"|det|=1 non-unitary {n}x{n}", U @ np.diag([2.0, 0.5] + [1.0] * (n - 2))))
        out["unitary"].append((f"valid times 1.1i {n}x{n}", 1.1j * U))
        out["unitary"].append((f"all-negative real non-orthogonal {n}x{n}", -np.abs(np.real(U)) - 0.1))
        out["unitary"].append((f"valid times i {n}x{n}", 1j * U))
        out["unitary"].append((f"valid real orthogonal times -1 {n}x{n}", -np.linalg.qr(nprng.standard_normal((n, n)))[0]))
    U16 = _haar(16, nprng)
    out["unitary"].append(("column norm^2 1+0.01 last column 16x16", _apply_right(U16, "diag", 15, 1e-2)))
    out["unitary"].append(("imaginary overlap 0.01 first-last pair 16x16", _overlap_cols(U16, 0, 15, 1e-2, True)))
    for (r, c) in ((4, 2), (8, 2), (8, 4), (8, 8), (4, 4)):
        V = _haar(r, nprng)[:, :c]
        m = c // 2
        for d in (1e-2, -1e-2, 1e-4, -1e-4):
            for j, nm in sorted({(0, "first"), (m, "middle"), (c - 1, "last")}):
                out["isometry"].append((f"column norm^2 1{d:+g} {nm} column {r}x{c}", _apply_right(V, "diag", j, d)))
        for t in (1e-2, 1e-4):
            for (i, j), nm in sorted({((max(m - 1, 0), max(m, 1)), "adjacent"), ((0, c - 1), "first-last")}):
                for imag in (True, False):
                    out["isometry"].append((f"{'imaginary' if imag else 'real'} overlap {t:g} {nm} pair, unit diagonal {r}x{c}", _overlap_cols(V, i, j, t, imag)))
        out["isometry"].append((f"one row times 3 {r}x{c}", _apply_left(V, "diag", r - 1, 8.0)))
        out["isometry"].append((f"valid times 1.1i {r}x{c}", 1.1j * V))
        out["isometry"].append((f"valid times i {r}x{c}", 1j * V))
        out["isometry"].append((f"valid real isometry times -1 {r}x{c}", -np.linalg.qr(nprng.standard_normal((r, r)))[0][:, :c]))
    for key in ("u2", "u2-mcu"):
        a, b = sorted((ctx.rng.uniform(0.3, 1.4), ctx.rng.uniform(1.6, 3.0)))
        V = _haar(2, nprng)
        S = V @ np.diag([np.exp(1j * a), np.exp(1j * b)]) @ np.conj(V.T) if key == "u2-mcu" else V / np.sqrt(np.linalg.det(V))
        t0 = ctx.rng.uniform(0.3, 1.2)
        R = np.array([[math.cos(t0), -math.sin(t0)], [math.sin(t0), math.cos(t0)]])
        for d in (1e-2, -1e-2, 1e-4, -1e-4):
            for j, nm in ((0, "first"), (1, "second")):
                out[key].append((f"row norm^2 1{d:+g} {nm} row", _apply_left(S, "diag", j, d)))
                out[key].append((f"real rotation: row norm^2 1{d:+g} {nm} row", _apply_left(R, "diag", j, d).real))
        for t in (1e-2, 1e-4):
            for imag in (True, False):
                out[key].append((f"{'imaginary' if imag else 'real'} row overlap {t:g}, unit diagonal", _overlap_cols(S.T, 0, 1, t, imag).T))
        out[key] += [("valid times 1.1i", 1.1j * S), ("valid times -1.1", -1.1 * S), ("real rotation times -1.1", -1.1 * R),
                     ("|det|=1 non-unitary", np.diag([2.0, 0.5]) @ S), ("valid real rotation", R), ("valid real rotation times -1", -R),
                     ("valid times i", 1j * S), ("valid times exp(0.3i)", np.exp(0.3j) * S)]
    return out


# ---------------------------------------------------------------------------------------------- call forms

DIV_DENSE_OPTS = {
    "TopDownInitialize": {"global_phase": False, "lib": "qiskit"},
    "LowRankInitialize": {"lr": 1, "iso_scheme": "knill", "unitary_scheme": "csd", "partition": [0], "svd": "regular"},
    "UCGInitialize": {"target_state": 1, "preserve_previous": True},
    "UCGEInitialize": {"target_state": 1, "preserve_previous": True},
    "IsometryInitialize": {"scheme": "csd"},
    "BaaLowRankInitialize": {"max_fidelity_loss": 0.1, "iso_scheme": "knill", "unitary_scheme": "csd", "strategy": "brute_force",
                             "max_combination_size": 1, "use_low_rank": True},
}
DIV_HOSTS = ("exact", "perm-int", "perm-qubit", "reg-slice")


def _div_classes():
    from qclib.state_preparation import (TopDownInitialize, LowRankInitialize, SVDInitialize, UCGInitialize, UCGEInitialize,
                                         IsometryInitialize, BaaLowRankInitialize)
    from qclib.state_preparation.blackbox import BlackBoxInitialize
    from qclib.gates.ldmcu import Ldmcu
    from qclib.gates.ldmcsu import Ldmcsu, LdMcSpecialUnitary
    from qclib.gates.qdmcu import Qdmcu
    from qclib.gates.mcg import Mcg
    from qclib.gates.mcu import MCU
    from qclib.gates.multitargetmcsu2 import MultiTargetMCSU2
    return {c.__name__: c for c in (TopDownInitialize, LowRankInitialize, SVDInitialize, UCGInitialize, UCGEInitialize, IsometryInitialize,
                                    BaaLowRankInitialize, BlackBoxInitialize, Ldmcu, Ldmcsu, LdMcSpecialUnitary, Qdmcu, Mcg, MCU,
                                    MultiTargetMCSU2)}


def div_dense_calls(short):
    opts = DIV_DENSE_OPTS.get(short)
    calls = ["ctor", "ctor-label", "after-valid"] + [f"static:{h}" for h in DIV_HOSTS] + ["static-pos:perm-int"]
    if opts is not None:
        sels = ["none", "empty", "full"] + [f"only-{k}" for k in opts]
        calls += [f"ctor-opt:{s}" for s in sels] + ["ctor-opt-pos:full", "reuse-dict"]
        calls += [f"static:perm-int+opt:{s}" for s in sels] + ["static:exact+opt:full", "static:perm-qubit+opt:full", "static:reg-slice+opt:full",
                                                               "static-pos:perm-int+opt:full"]
        # the flags and the falsy-valued options in their other forms, through the constructor (keyword / positional) and the
        # static helper (keyword / positional): no form of an option may switch the validation of the vector off
        fsels = [f"full@{f}" for f in DIV_OPT_FORMS]
        if short in DIV_DENSE_FLIP:
            fsels += ["flip"] + [f"flip@{f}" for f in DIV_OPT_FORMS]
        for i, fs in enumerate(fsels):
            calls += [f"ctor-opt:{fs}", f"static:perm-int+opt:{fs}", ("ctor-opt-pos:", "static-pos:perm-int+opt:")[i % 2] + fs]
    return calls


# every boolean option flipped and every numeric option at its VALID FALSY value (lr 0 = full rank, target_state 0, loss 0.0,
# max_combination_size 0), relative to DIV_DENSE_OPTS: together the two sets hold True and False of every flag
DIV_DENSE_FLIP = {
    "TopDownInitialize": {"global_phase": True, "lib": "qclib"},
    "LowRankInitialize": {"lr": 0, "iso_scheme": "ccd", "unitary_scheme": "qsd", "partition": [0], "svd": "auto"},
    "UCGInitialize": {"target_state": 0, "preserve_previous": False},
    "UCGEInitialize": {"target_state": 0, "preserve_previous": False},
    "BaaLowRankInitialize": {"max_fidelity_loss": 0.0, "strategy": "greedy", "max_combination_size": 0, "use_low_rank": False},
}
DIV_OPT_FORMS = ("np", "int")       # numpy.bool_ / numpy.int64 / numpy.float64; int 1 / 0 for the flags (numbers stay Python numbers)


def _div_opt_form(v, form):
    """an option value in the form named: 'np' -> numpy.bool_ / numpy.int64 / numpy.float64, 'int' -> flags as int 1 / 0 and an
    integral float as int (0.0 -> 0)"""
    import numpy as np
    if isinstance(v, bool):
        return np.bool_(v) if form == "np" else int(v)
    if isinstance(v, int):
        return np.int64(v) if form == "np" else v
    if isinstance(v, float):
        return np.float64(v) if form == "np" else (int(v) if v == int(v) else v)
    return list(v) if isinstance(v, list) else v


def _div_sel(short, sel):
    sel, _, form = sel.partition("@")
    full = DIV_DENSE_FLIP[short] if sel == "flip" else DIV_DENSE_OPTS[short]
    if sel == "none":
        return None
    if sel == "empty":
        return {}
    if sel in ("full", "flip"):
        return {k: (_div_opt_form(v, form) if form else (list(v) if isinstance(v, list) else v)) for k, v in full.items()}
    k = sel[len("only-"):]
    return {k: (list(full[k]) if isinstance(full[k], list) else full[k])}


def _div_host(host, width):
    """-> (circuit, qubit argument, expected qubit objects in order)"""
    from qiskit import QuantumCircuit, QuantumRegister
    if host == "exact":
        qc = QuantumCircuit(width)
        return qc, None, list(qc.qubits)
    if host == "reg-slice":
        p, q = QuantumRegister(1, "p"), QuantumRegister(width + 1, "q")
        qc = QuantumCircuit(q, p)                         # registers in the other order than they were created
        sl = q[1:width + 1]
        return qc, sl, list(sl)
    a, b = QuantumRegister(2, "a"), QuantumRegister(width + 1, "b")
    qc = QuantumCircuit(a, b)
    pool = list(range(width + 3))
    idx = (pool[1::2][::-1] + pool[0::2])[:width]          # non-ascending, non-contiguous: [3, 1], [5, 3, 1], ...
    if host == "perm-int":
        return qc, idx, [qc.qubits[i] for i in idx]
    if host == "perm-qubit":
        return qc, [qc.qubits[i] for i in idx], [qc.qubits[i] for i in idx]
    raise ValueError(host)


def _div_len(obj):
    try:
        return len(obj)
    except TypeError:
        return 2


def _div_make_dense(short, call, obj):
    """-> (thunk, host circuit or None, expected qubits or None, [caller-owned objects besides obj])"""
    import numpy as np
    cls = _div_classes()[short]
    has_opt = short in DIV_DENSE_OPTS
    n = max(1, int(math.ceil(math.log2(max(_div_len(obj), 2)))))
    width = n + (1 if short == "BlackBoxInitialize" else 0)
    if call == "ctor":
        return (lambda: cls(obj)), None, None, []
    if call == "ctor-label":
        return (lambda: cls(obj, label="div")), None, None, []
    if call == "after-valid":
        def thunk():
            cls([0.0, 1.0, 0.0, 0.0])                      # a valid construction first: validation has no memory
            return cls(obj)
        return thunk, None, None, []
    if call.startswith("ctor-opt:"):
        o = _div_sel(short, call.split(":", 1)[1])
        return (lambda: cls(obj, opt_params=o)), None, None, [o]
    if call.startswith("ctor-opt-pos:"):
        o = _div_sel(short, call.split(":", 1)[1])
        return (lambda: cls(obj, None, o)), None, None, [o]
    if call == "reuse-dict":
        o = _div_sel(short, "full")

        def thunk():
            cls([0.0, 1.0, 0.0, 0.0], opt_params=o)        # the SAME dict object, edited between the two constructions
            first = next(iter(DIV_DENSE_OPTS[short]))
            keep = o[first]
            o.clear()
            o[first] = keep
            return cls(obj, opt_params=o)
        return thunk, None, None, []
    if call.startswith("static"):
        positional = call.startswith("static-pos:")
        spec = call.split(":", 1)[1]
        host, _, sel = spec.partition("+opt:")
        qc, qarg, expect = _div_host(host, width)
        o = _div_sel(short, sel) if sel else None
        if positional:
            if has_opt:
                return (lambda: cls.initialize(qc, obj, qarg, o)), qc, expect, [o]
            return (lambda: cls.initialize(qc, obj, qarg)), qc, expect, []
        if sel:
            return (lambda: cls.initialize(qc, obj, qubits=qarg, opt_params=o)), qc, expect, [o]
        if qarg is None:
            return (lambda: cls.initialize(qc, obj)), qc, expect, []
        return (lambda: cls.initialize(qc, obj, qubits=qarg)), qc, expect, []
    raise ValueError(call)


DIV_GOOD = [[math.cos(0.4), -math.sin(0.4)], [math.sin(0.4), math.cos(0.4)]]
DIV_U2_HELPER = {"Ldmcu": "ldmcu", "Ldmcsu": "ldmcsu", "LdMcSpecialUnitary": "ldmcsu", "Qdmcu": "qdmcu", "Mcg": "mcg", "MCU": "mcu"}


def div_u2_calls(short, valid):
    if short == "MultiTargetMCSU2[list]":
        return ["list:0/1", "list:0/2", "list:1/2", "list:0/3", "list:1/3", "list:2/3", "list-kw:1/3:cs=101", "static-list:0/2", "static-list:1/2",
                "static-list:1/3:qubit", "static-list:2/3:reg:cs=010",
                "list-kw:1/3:csi=0", "list-kw:0/2:csi=7:csform=np", "static-list:1/2:csi=0:csform=np"]      # decimal control state 0 (all open; falsy) / 7
    if short == "MultiTargetMCSU2[single]":
        return ["single:k0", "single:k1", "single:k3", "single:k5", "single-kw:k3:cs=101", "static-single:perm-int", "static-single:qubit:cs=101",
                "static-single:reg", "single-kw:k3:csi=0", "single-kw:k3:csi=5:csform=np", "static-single:perm-int:csi=0"]
    if short == "MCU":
        calls = ["ctor:k8", "ctor-kw:k8:e0.01", "ctor:k9:e0.5:cs=111111111", "ctor:k8:cs=10101010", "static:perm-int:e0", "static:perm-int:e0.1",
                 "static:qubit:e0.1:cs=11110000", "static:reg:e0:cs=101",
                 "static:perm-int:e0:eform=int", "static:qubit:e0:eform=np", "static:reg:e0.1:eform=np"]     # error 0 as int 0 / numpy.float64(0)
        return calls if valid else calls + ["ctor:k0", "ctor:k1", "ctor:k2", "ctor:k3", "ctor:k5"]
    calls = ["ctor:k0", "ctor:k1", "ctor:k2", "ctor:k3", "ctor:k5", "ctor-kw:k3", "ctor:k3:cs=000", "ctor:k3:cs=101", "ctor:k3:cs=111",
             "ctor:k3:cs-pos=101", "static:perm-int", "static:qubit", "static:reg", "static:perm-int:cs=101", "static:qubit:cs=000", "static:reg:cs=111"]
    if short == "Mcg":
        calls += ["ctor:k3:utd", "ctor:k3:cs=101+utd", "ctor:k0:utd"]
        calls += ["ctor:k3:utd@np1", "ctor:k3:utd@i1", "ctor:k3:utd@b0", "ctor:k3:utd@np0", "ctor:k3:utd@i0", "ctor:k5:utd@np1", "ctor:k0:utd@i1"]
    return calls


def _div_gate_host(style, k, targets=1):
    """controls (k) and target(s) on a larger host: -> (circuit, controls, target argument, expected qubits)"""
    from qiskit import QuantumCircuit, QuantumRegister
    if style == "reg":
        t, c, idle = QuantumRegister(targets, "t"), QuantumRegister(k, "c"), QuantumRegister(2, "idle")
        qc = QuantumCircuit(idle, t, c)
        tg = t[0] if targets == 1 else list(t)
        return qc, c, tg, list(c) + list(t)
    qc = QuantumCircuit(QuantumRegister(2, "a"), QuantumRegister(k + targets + 1, "b"))
    pool = list(range(k + targets + 3))
    idx = (pool[1::2][::-1] + pool[0::2])[:k + targets]
    cidx, tidx = idx[:k], idx[k:]
    if style == "qubit":
        cq, tq = [qc.qubits[i] for i in cidx], [qc.qubits[i] for i in tidx]
        return qc, cq, (tq[0] if targets == 1 else tq), cq + tq
    return qc, cidx, (tidx[0] if targets == 1 else tidx), [qc.qubits[i] for i in cidx + tidx]


def _div_tag(call, key, default=None):
    for part in call.replace("+", ":").split(":"):
        if part.startswith(key):
            return part[len(key):]
    return default


def _div_make_u2(short, call, obj):
    import numpy as np
    C = _div_classes()
    good = np.array(DIV_GOOD)
    cs = _div_tag(call, "cs=")
    if _div_tag(call, "csi=") is not None:          # decimal control state (documented for MultiTargetMCSU2): Python int / numpy.int64
        cs = int(_div_tag(call, "csi="))
        if _div_tag(call, "csform=") == "np":
            cs = np.int64(cs)
    if short.startswith("MultiTargetMCSU2"):
        MT = C["MultiTargetMCSU2"]
        head = call.split(":")[0]
        if head in ("list", "list-kw", "static-list"):
            pos, ln = (int(x) for x in call.split(":")[1].split("/"))
            lst = [good.copy() for _ in range(ln)]
            lst[pos] = obj
            if head == "list":
                return (lambda: MT(lst, 3, ln)), None, None, [lst]
            if head == "list-kw":
                return (lambda: MT(unitaries=lst, num_controls=3, num_target=ln, ctrl_state=cs)), None, None, [lst]
            style = "qubit" if ":qubit" in call else ("reg" if ":reg" in call else "perm-int")
            qc, ctl, tg, expect = _div_gate_host(style, 3, ln)
            tg = tg if isinstance(tg, list) else [tg]
            return (lambda: MT.multi_target_mcsu2(qc, lst, ctl, tg, ctrl_state=cs)), qc, expect, [lst]
        if head in ("single", "single-kw"):
            k = int(_div_tag(call, "k"))
            if head == "single":
                return (lambda: MT(obj, k, 1)), None, None, []
            return (lambda: MT(unitaries=obj, num_controls=k, num_target=1, ctrl_state=cs)), None, None, []
        style = call.split(":")[1]
        qc, ctl, tg, expect = _div_gate_host(style, 3, 1)
        return (lambda: MT.multi_target_mcsu2(qc, obj, ctl, tg, ctrl_state=cs)), qc, expect, []
    cls = C[short]
    head = call.split(":")[0]
    if head in ("ctor", "ctor-kw"):
        k = int(_div_tag(call, "k"))
        utd = "utd" in call.replace("+", ":").split(":")
        utdf = _div_tag(call, "utd@")               # up_to_diagonal as numpy.bool_ / int / bool, True and False
        if utdf is not None:
            utd = {"np": np.bool_, "i": int, "b": bool}[utdf[:-1]](int(utdf[-1]))
        cspos = _div_tag(call, "cs-pos=")
        if short == "MCU":
            err = float(_div_tag(call, "e", "0.1"))
            if head == "ctor-kw":
                return (lambda: cls(unitary=obj, num_controls=k, error=err, ctrl_state=cs)), None, None, []
            if cs is not None:
                return (lambda: cls(obj, k, err, cs)), None, None, []
            return (lambda: cls(obj, k, err)), None, None, []
        if head == "ctor-kw":
            return (lambda: cls(unitary=obj, num_controls=k)), None, None, []
        if cspos is not None:
            return (lambda: cls(obj, k, cspos)), None, None, []
        kw = {}
        if cs is not None:
            kw["ctrl_state"] = cs
        if utdf is not None:
            kw["up_to_diagonal"] = utd
        elif utd:
            kw["up_to_diagonal"] = True
        return (lambda: cls(obj, k, **kw)), None, None, []
    if head == "static":
        style = call.split(":")[1]
        helper = getattr(cls, DIV_U2_HELPER[short])
        if short == "MCU":
            err = float(_div_tag(call, "e"))
            k = 8 if err > 0 else 3
            ef = _div_tag(call, "eform=")
            if ef is not None:
                err = np.float64(err) if ef == "np" else (int(err) if err == int(err) else err)
            if cs is not None and len(cs) != k:
                cs = (cs * k)[:k]
            qc, ctl, tg, expect = _div_gate_host(style, k)
            if cs is None:
                return (lambda: helper(qc, obj, ctl, tg, err)), qc, expect, []
            return (lambda: helper(qc, obj, ctl, tg, err, ctrl_state=cs)), qc, expect, []
        qc, ctl, tg, expect = _div_gate_host(style, 3)
        if cs is None:
            return (lambda: helper(qc, obj, ctl, tg)), qc, expect, []
        return (lambda: helper(qc, obj, ctl, tg, ctrl_state=cs)), qc, expect, []
    raise ValueError(call)


DIV_UNITARY_CALLS = ["u", "u:pos:qsd", "u:kw:csd", "u:kw:qr", "u:iso1", "u:iso2", "u:a2off", "u:all-pos", "u:all-kw", "u:csd+iso2",
                     "u:qr+iso1+a2off", "cnot:exact", "cnot:exact:csd+iso1",
                     # apply_a2 True / False as numpy.bool_ / int, iso = 0 (falsy, valid) / 1 as numpy.int64 / int32, positional and keyword
                     "u:a2@np1", "u:a2@np0", "u:a2@i1", "u:a2@i0", "u:iso@np0", "u:iso@np1", "u:all-pos@np", "u:all-kw@int", "u:all-pos@i32",
                     "cnot:exact@np"]
DIV_ISO_CALLS = ["d", "d:pos:ccd", "d:kw:csd", "d:kw:knill", "d:pos:knill", "d:pos:csd", "cnot:exact:ccd", "cnot:exact:csd"]


def _div_make_fn(kind, call, obj):
    import numpy as np
    from qclib import unitary as umod, isometry as imod
    if kind == "unitary":
        table = {"u": lambda: umod.unitary(obj), "u:pos:qsd": lambda: umod.unitary(obj, "qsd"),
                 "u:kw:csd": lambda: umod.unitary(obj, decomposition="csd"), "u:kw:qr": lambda: umod.unitary(obj, decomposition="qr"),
                 "u:iso1": lambda: umod.unitary(obj, iso=1), "u:iso2": lambda: umod.unitary(obj, iso=2),
                 "u:a2off": lambda: umod.unitary(obj, apply_a2=False), "u:all-pos": lambda: umod.unitary(obj, "qsd", 1, False),
                 "u:all-kw": lambda: umod.unitary(gate=obj, decomposition="csd", iso=1, apply_a2=False),
                 "u:csd+iso2": lambda: umod.unitary(obj, "csd", iso=2), "u:qr+iso1+a2off": lambda: umod.unitary(obj, "qr", 1, apply_a2=False),
                 "cnot:exact": lambda: umod.cnot_count(obj, method="exact"),
                 "cnot:exact:csd+iso1": lambda: umod.cnot_count(obj, "csd", "exact", 1, False),
                 "u:a2@np1": lambda: umod.unitary(obj, apply_a2=np.bool_(True)), "u:a2@np0": lambda: umod.unitary(obj, apply_a2=np.bool_(False)),
                 "u:a2@i1": lambda: umod.unitary(obj, "qsd", 0, 1), "u:a2@i0": lambda: umod.unitary(obj, apply_a2=0),
                 "u:iso@np0": lambda: umod.unitary(obj, iso=np.int64(0)), "u:iso@np1": lambda: umod.unitary(obj, "csd", np.int64(1)),
                 "u:all-pos@np": lambda: umod.unitary(obj, "qsd", np.int64(1), np.bool_(False)),
                 "u:all-kw@int": lambda: umod.unitary(gate=obj, decomposition="csd", iso=0, apply_a2=1),
                 "u:all-pos@i32": lambda: umod.unitary(obj, "qsd", np.int32(0), np.bool_(True)),
                 "cnot:exact@np": lambda: umod.cnot_count(obj, "qsd", "exact", np.int64(0), np.bool_(True))}
    else:
        table = {"d": lambda: imod.decompose(obj), "d:pos:ccd": lambda: imod.decompose(obj, "ccd"),
                 "d:kw:csd": lambda: imod.decompose(obj, scheme="csd"), "d:kw:knill": lambda: imod.decompose(isometry=obj, scheme="knill"),
                 "d:pos:knill": lambda: imod.decompose(obj, "knill"), "d:pos:csd": lambda: imod.decompose(obj, "csd"),
                 "cnot:exact:ccd": lambda: imod.cnot_count(obj, "ccd", "exact"),
                 "cnot:exact:csd": lambda: imod.cnot_count(obj, scheme="csd", method="exact")}
    return table[call], None, None, []


def _div_make(name, call, obj):
    kind = KIND_OF[name]
    short = _short(name)
    if kind == "dense":
        return _div_make_dense(short, call, obj)
    if kind == "u2":
        return _div_make_u2(short, call, obj)
    return _div_make_fn(kind, call, obj)


# ---------------------------------------------------------------------------------------------- evaluation

def _div_flagform_counters(short, call):
    """flagforms:<option>:<form> counters of a call form that hands an option over in another form / at its falsy value"""
    out = []
    via = call.split(":")[0].split("+")[0]
    if "+opt:" in call or call.startswith("ctor-opt"):
        sel = call.split("opt:", 1)[1] if "opt:" in call else call.split(":", 1)[1]
        sel = call.split(":")[-1]
        base, _, form = sel.partition("@")
        if base in ("full", "flip") and (form or base == "flip"):
            opts = (DIV_DENSE_FLIP if base == "flip" else DIV_DENSE_OPTS).get(short, {})
            for k, v in opts.items():
                if isinstance(v, bool):
                    out.append(f"flagforms:{k}:{ {'np': 'np.bool_', 'int': 'int', '': 'bool'}[form] }:{v}:via {via}")
                elif isinstance(v, (int, float)) and (form or not v):
                    fn = {"np": "np.int64" if isinstance(v, int) else "np.float64", "int": "int", "": type(v).__name__}[form]
                    out.append(f"flagforms:{k}:{fn}:{v}:via {via}")
    for tag, opt in (("a2@", "apply_a2"), ("iso@", "iso"), ("utd@", "up_to_diagonal")):
        t = _div_tag(call, tag)
        if t is not None:
            out.append(f"flagforms:{opt}:{ {'np': 'np.bool_' if opt != 'iso' else 'np.int64', 'i': 'int', 'b': 'bool'}[t[:-1]] }:{t[-1]}:via {via}")
    if call in ("u:all-pos@np", "u:all-kw@int", "u:all-pos@i32", "cnot:exact@np"):
        out.append(f"flagforms:apply_a2+iso:{call.split('@')[1]}:via {via}")
    if _div_tag(call, "csi=") is not None:
        out.append(f"flagforms:ctrl_state:{'np.int64' if _div_tag(call, 'csform=') == 'np' else 'int'}:{_div_tag(call, 'csi=')}:via {via}")
    if _div_tag(call, "eform=") is not None:
        out.append(f"flagforms:error:{'np.float64' if _div_tag(call, 'eform=') == 'np' else 'int'}:{_div_tag(call, 'e')}:via {via}")
    return out


def _div_validation_frames(frames):
    return _in_validation(frames) or any(f[1] == "validate_parameter" for f in frames)


def _div_eval(ctx, name, call, form, label, arr):
    """`_div_eval_inner` with a safety net: an exception of the HARNESS itself (not of the call under test, which is caught inside)
    must neither look like a violation nor end the run; it is counted and noted (the count is 0 on the unchanged tree)."""
    try:
        return _div_eval_inner(ctx, name, call, form, label, arr)
    except Exception as e:              # pragma: no cover
        import traceback
        ctx.count("diversity:HARNESS-EXCEPTION")
        _note(ctx, ("div-harness", type(e).__name__), f"diversity harness exception at {_short(name)} {call} {form} {label}: "
                                                      f"{type(e).__name__}: {e} | {traceback.format_exc().splitlines()[-3:]}")
        return False


def _div_eval_inner(ctx, name, call, form, label, arr):
    """One (entry point, call form, element-type form, numeric content): run the REAL call, judge reject / accept."""
    import numpy as np
    kind = KIND_OF[name]
    short = _short(name)
    raw = isinstance(arr, tuple) and arr[0] == "RAW"
    if raw:
        obj, cls, num = arr[1], "malformed:ragged", None
    else:
        num = np.asarray(arr)
        obj = _div_form(num, form)
        if obj is None:
            return False
        cls = classify(kind, num) if num.size or kind == "dense" else "malformed:empty"
        if cls == "band":
            ctx.count("skipped-band")
            return False
    thunk, host, expect, watched = _div_make(name, call, obj)
    watched = [obj] + list(watched)
    before = [_div_snap(w) for w in watched]
    ret, exc, frames = None, None, []
    with warnings.catch_warnings():
        warnings.simplefilter("ignore")
        with np.errstate(all="ignore"):
            try:
                ret = thunk()
            except BaseException as e:             # incl. pyo3's PanicException
                if isinstance(e, (KeyboardInterrupt, SystemExit, GeneratorExit)):
                    raise
                exc = e
                # (traceback frames are only needed to tell validation from construction code for VALID twins)
                frames = _qclib_frames(e) if not cls.startswith("malformed") else []
    ename = type(exc).__name__ if exc is not None else None
    key = f"div:{short}:{call}:{form}:{label}"
    rep = {"probe": "diversity", "entry": name, "call": call, "form": form, "label": label, "classification": cls,
           "input": ({"raw": repr(arr[1])} if raw else _payload(num)),
           "observed": (f"raised {ename}: {str(exc)[:120]}" if exc is not None else f"returned {type(ret).__name__}")}
    callfam = call.split(":")[0].split("+")[0]
    ctx.count(f"diversity:call:{kind}:{callfam}")
    for c_ in _div_flagform_counters(short, call):
        ctx.count(c_ + (":invalid-input" if cls.startswith("malformed") else ":valid-input"))
    bad = False
    # the caller's objects are never written to
    after = [_div_snap(w) for w in watched]
    if after != before:
        bad = True
        which = "input" if after[0] != before[0] else "options / list"
        ctx.fail(f"caller-object-mutated:{key}", f"{short} via {call}: the caller's {which} object was modified by the call "
                                                  f"(form {form}, {label})", rep)
    if cls.startswith("malformed"):
        if exc is not None:
            ctx.count(f"diversity:element-type:{kind}:{form}:rejected-{ename}")
            if host is not None and len(host.data) != 0:
                bad = True
                ctx.fail(f"host-modified:{key}", f"{short} via {call} raised {ename} for a malformed input ({cls}, {label}, form {form}) but left "
                                                f"{len(host.data)} instruction(s) on the caller's circuit", rep)
            if not bad:
                ctx.ok(f"rejected:{key}", sample={"entry": short, "call": call, "form": form, "input": label, "decision": "reject " + ename})
            return True
        # nothing was raised: something came back for a malformed input
        stage = "returned"
        from qiskit.circuit import Instruction
        if isinstance(ret, Instruction):                  # (not hasattr: evaluating the property may raise anything)
            try:
                with warnings.catch_warnings():
                    warnings.simplefilter("ignore")
                    ret.definition
                stage = "circuit built"
            except BaseException as e:
                if isinstance(e, (KeyboardInterrupt, SystemExit, GeneratorExit)):
                    raise
                stage = f"definition-raised {type(e).__name__}: {str(e)[:80]}"
        rep["stage"] = stage
        ctx.count(f"diversity:element-type:{kind}:{form}:ACCEPTED")
        if stage.startswith("definition-raised"):
            ctx.fail(f"accepted-by-constructor:{key}", f"{short} via {call} accepted a malformed input ({cls}, {label}, element form {form}): a gate was "
                                                      f"returned; only building .definition raised ({stage})", rep)
        else:
            extra = f"; the host circuit now holds {len(host.data)} instruction(s)" if host is not None else ""
            ctx.fail(f"accepted:{key}", f"{short} via {call} accepted a malformed input ({cls}, {label}, element form {form}) and returned "
                                       f"{type(ret).__name__} ({stage}){extra}", rep)
        return True
    # ---- valid twin: validation must let it through
    if exc is not None:
        msg = str(exc)
        inval = _div_validation_frames(frames)
        supported = _div_supported(name, form)
        su2_only = short.startswith("LdMcSpecialUnitary") and "Operator must be in SU(2)" in msg
        mcu_domain = short == "MCU" and isinstance(exc, (ValueError, OverflowError)) and ("number of" in msg or isinstance(exc, OverflowError))
        knill_small = kind == "isometry" and "knill" in call and "Knill decomposition does not work" in msg
        if su2_only:
            with np.errstate(all="ignore"):
                d = abs(np.linalg.det(num) - 1.0)
            if d > 1e-6:
                ctx.count(f"diversity:sign-phase:su2-only class rejects det != 1:{form}")
                ctx.ok(f"su2-rejected:{key}")
            else:
                ctx.fail(f"valid-rejected:{key}", f"{short} via {call} rejected an SU(2) matrix ({label}, form {form}): {ename}: {msg[:100]}", rep)
        elif mcu_domain or knill_small:
            ctx.count("documented-restriction")
            ctx.ok(f"restricted:{key}", nontrivial=False)
        elif not inval:
            ctx.count("valid-construction-raised")
            ctx.count(f"diversity:valid twin passed validation, construction raised {ename}:{kind}:{form}")
            ctx.ok(f"valid-accepted:{key}", nontrivial=False)
        elif not supported and isinstance(exc, (AttributeError, TypeError)):
            ctx.count(f"diversity:{kind}:{short.split('[')[0]}:{form}:unsupported-form-raises-{ename}")
            ctx.ok(f"unsupported-form:{key}", nontrivial=False)
        else:
            ctx.fail(f"valid-rejected:{key}", f"validation of {short} via {call} rejected a VALID input ({label}, element form {form}): "
                                             f"{ename}: {msg[:120]} (raised in {frames[-1] if frames else '?'})", rep)
        return True
    ctx.count(f"diversity:element-type:{kind}:{form}:accepted")
    if short.startswith("LdMcSpecialUnitary") and num is not None and num.shape == (2, 2):
        with np.errstate(all="ignore"):
            d = abs(np.linalg.det(num) - 1.0)
        if d > 1e-6:
            ctx.fail(f"su2-accepted:{key}", f"{short} via {call} accepted a U(2) matrix with det != 1 ({label}, form {form}, |det - 1| = {d:.3g}); the "
                                           f"class raises 'Operator must be in SU(2)' for such matrices in its other call forms", rep)
            return True
    elif short.split("[")[0] in ("Ldmcsu", "MultiTargetMCSU2") and num is not None and num.shape == (2, 2):
        with np.errstate(all="ignore"):
            if abs(np.linalg.det(num) - 1.0) > 1e-6:
                ctx.count(f"diversity:sign-phase:observed {short.split('[')[0]} accepts U(2) with det != 1 (check_su2 result unused)")
    if host is not None:
        inst = host.data
        ok_host = len(inst) == 1 and list(inst[0].qubits) == list(expect)
        if kind == "dense" and len(inst) == 1 and len(expect) != len(inst[0].qubits):
            ok_host = False
        if not ok_host:
            got = [list(i.qubits) for i in inst][:2]
            ctx.fail(f"host-placement:{key}", f"{short} via {call} on a valid input ({label}, form {form}): expected exactly one instruction on "
                                             f"{expect}, the host holds {len(inst)}: {got}", rep)
            return True
        ctx.count(f"diversity:call:{kind}:placed on the listed qubits in the listed order")
    if not bad:
        ctx.ok(f"valid-accepted:{key}", nontrivial=(num is not None and num.size >= 2))
    return True


def _div_entries(kind):
    return [n for n in KIND_OF if KIND_OF[n] == kind]


def div_float32_inexact(ctx):
    """A float32 vector normalised in float32 arithmetic: its exact (up-cast) squared norm is off by ~1e-9 .. 1e-8, i.e. it is neither
    inside the tolerance nor grossly wrong.  Acceptable: ValueError from the constructor, or a gate whose definition builds and
    prepares the up-cast state to 1e-5, or (observed, noted) the documented ValueError raised late by .definition.  Not acceptable: any other
    exception type, a prepared state further than 1e-5 from the up-cast input."""
    import numpy as np
    from qiskit.quantum_info import Statevector
    C = _div_classes()
    v32 = (np.array([1.0, 2.0, 3.0, 4.0]) / math.sqrt(30.0)).astype(np.float32)
    up = v32.astype(np.float64)
    ideal = up / np.linalg.norm(up)
    for name in _div_entries("dense"):
        short = _short(name)
        key = f"div:{short}:ctor:f32-inexact:[1,2,3,4]/sqrt(30) as float32"
        rep = {"probe": "diversity-f32", "entry": name}
        ctx.count("diversity:element-type:dense:f32-inexact")
        with warnings.catch_warnings():
            warnings.simplefilter("ignore")
            try:
                g = C[short](v32.copy())
            except ValueError:
                ctx.count("diversity:element-type:dense:f32-inexact:rejected-ValueError")
                ctx.ok(f"rejected:{key}")
                continue
            except Exception as e:
                ctx.fail(f"undocumented-exception:{key}", f"{short}(float32 vector) raised {type(e).__name__}: {str(e)[:100]}", rep)
                continue
            try:
                circ = g.definition
                sv = Statevector(circ).data
            except ValueError as e:
                # the documented rejection, only late (the inner LowRankInitialize of BaaLowRankInitialize re-validates the
                # complex128 copy at 1e-10): observed, not judged -- float32 data is a reduced-precision form
                ctx.count(f"diversity:element-type:dense:f32-inexact:{short} returned a gate, .definition raised the documented ValueError")
                _note(ctx, ("f32-late", short), f"float32 form: {short}(np.float32([1,2,3,4]/sqrt(30))) returns a gate (the norm test is evaluated in "
                      f"float32: sum = {float(sum(np.absolute(v32) ** 2))!r}; exact squared norm - 1 = {float(np.sum(up ** 2)) - 1.0:.3g}); building "
                      f".definition then raises ValueError: {str(e)[:80]}")
                ctx.ok(f"late-documented-rejection:{key}", nontrivial=False)
                continue
            except Exception as e:
                ctx.fail(f"undocumented-exception:{key}", f"{short}(np.float32([1,2,3,4]/sqrt(30))) returned a gate, building .definition raised "
                                                          f"{type(e).__name__}: {str(e)[:100]}", rep)
                continue
        if short == "BlackBoxInitialize":
            ctx.count("diversity:element-type:dense:f32-inexact:accepted")
            ctx.ok(f"accepted:{key}", nontrivial=False)        # probabilistic preparation on n+1 qubits: C09's observable
            continue
        err = float(np.abs(sv * np.exp(-1j * np.angle(np.vdot(ideal, sv))) - ideal).max())
        if err > 1e-5:
            ctx.fail(f"wrong-state:{key}", f"{short}(float32 vector) was accepted and prepares a state {err:.3g} away from the up-cast input", rep)
        else:
            ctx.count("diversity:element-type:dense:f32-inexact:accepted")
            ctx.ok(f"accepted:{key}")


def _div_forms_for(kind, num):
    import numpy as np
    forms = list(DIV_FORMS)
    if kind == "dense" or np.asarray(num).ndim != 2:
        forms.remove("rows-of-arrays")
    return forms


DIV_LIST_LIKE = ("list", "int-list", "npscalar-list", "npint-list", "pybool-list", "mixed-list", "rows-of-arrays")


def run_diversity(ctx, tie=True):
    """the whole diversity pass (both tiers); `tie=False` from `search`"""
    import numpy as np
    nprng = ctx.nprng()
    callers = _entry_callers(None)
    dense_exact = div_dense_exact()
    dense_scaled = div_dense_scaled(ctx, nprng)
    dense_nonfinite = div_dense_nonfinite(ctx)
    mats = div_matrix_scaled(ctx, nprng)
    exact = {"u2": div_u2_exact(), "unitary": div_unitary_exact(), "isometry": div_iso_exact()}
    # ---- (a) numeric content -> tie + oracle through the plain constructor / function, every variant
    content = {"dense": [(l, np.array(v, dtype=complex)) for l, v in dense_exact] + dense_scaled + dense_nonfinite,
               "unitary": exact["unitary"] + mats["unitary"], "isometry": exact["isometry"] + mats["isometry"],
               "u2": exact["u2"] + mats["u2"], "u2-mcu": [(l, m) for l, m in exact["u2"] if "identity" not in l or not l.startswith("valid")] + mats["u2-mcu"]}
    for name, variants in callers.items():
        kind = KIND_OF[name]
        key = "u2-mcu" if name.endswith(":MCU") else kind
        for variant, _ in variants:
            for label, A in content[key]:
                A = np.asarray(A)
                if kind == "isometry" and A.ndim > 2:
                    continue
                if kind in ("unitary", "isometry") and variant in ("qr", "knill") and A.shape[0] > 4 and classify(kind, A) == "valid":
                    continue
                if kind == "unitary" and A.shape[0] > 4 and variant.startswith("qsd+iso") and classify(kind, A) == "valid":
                    continue
                check_case(ctx, callers, name, variant, "div:" + label, A, tie=tie)
    for fam, n in (("scale:dense defect carried by a light tail", sum("light tail" in l for l, _ in dense_scaled)),
                   ("scale:dense defect in one entry (heaviest / first / last)", sum("entry only" in l for l, _ in dense_scaled)),
                   ("scale:matrix defect in one column / row / pair / block", sum(len(v) for v in mats.values())),
                   ("sign-phase:dense all-negative / imaginary / times 1.1i / times -1.1", sum(("times" in l or "negative" in l or "imaginary" in l) for l, _ in dense_scaled)),
                   ("nonfinite:NaN / inf by position and kind", len(dense_nonfinite)),
                   ("size:16x16 invalid unitary", sum("16x16" in l for l, _ in content["unitary"]))):
        ctx.count("diversity:" + fam, n)
    # ---- (b) element types: exact content x every form, plain call
    plain = {"dense": "ctor", "unitary": "u", "isometry": "d"}
    for name in KIND_OF:
        kind, short = KIND_OF[name], _short(name)
        if kind == "dense":
            items = [(l, np.array(v, dtype=complex)) for l, v in dense_exact]
            items += [x for x in dense_nonfinite if "len4" in x[0] or ("len2" in x[0] and "nan" in x[0])]
            items += [x for x in dense_scaled if ("light tail" in x[0] and "len16" in x[0] and ("0.0001" in x[0])) or "len4" in x[0]]
            pcalls = ["ctor"]
        elif kind == "u2":
            items = exact["u2"] + [x for x in mats["u2-mcu" if short == "MCU" else "u2"] if "0.0001" not in x[0]]
            if short == "MCU":
                items = [x for x in items if not (x[0].startswith("valid") and "identity" in x[0])]
            pcalls = {"MultiTargetMCSU2[list]": ["list:0/2", "list:2/3"], "MultiTargetMCSU2[single]": ["single:k3"], "MCU": ["ctor:k8"]}.get(short, ["ctor:k3"])
        else:
            items = exact[kind] + [x for x in mats[kind] if "4x" in x[0] and "0.0001" not in x[0]]
            pcalls = [plain[kind]] + (["u:iso1"] if kind == "unitary" else ["d:kw:csd"])
        for label, num in items:
            for form in _div_forms_for(kind, num):
                if short == "MultiTargetMCSU2[single]" and form in DIV_LIST_LIKE:
                    continue                              # a Python list there MEANS a list of matrices
                if kind in ("unitary", "isometry") and num.shape[0] >= 8 and label.startswith("valid") and form not in ("c128", "int64", "f32", "list"):
                    continue                              # (building an 8x8 / 8x4 circuit once per element type is enough)
                for call in pcalls:
                    if kind in ("unitary", "isometry") and call != plain[kind] and form not in ("int64", "f64", "list", "c64"):
                        continue
                    _div_eval(ctx, name, call, form, label, num)
        if kind == "dense":
            for label, obj in div_dense_shapes():
                for form in (("c128", "list", "f64") if not isinstance(obj, tuple) else ("raw",)):
                    if _div_eval(ctx, name, "ctor", form, label, obj):
                        ctx.count("diversity:shape:dense 2-D / 3-D / ragged where a vector is expected")
    div_float32_inexact(ctx)
    # ---- (c) call forms: a few inputs x (c128, one integer / real form, list) x every call form of the entry point
    pick = {
        "dense": ["int [1,1,0,0]", "int [3,4]", "len3 [1,0,0]", "halves norm 3/4", "valid basis int [0,1,0,0]", "valid signed halves", "valid [0,-1]"],
        "u2": ["int shear [[1,1],[0,1]]", "int diag(1,2)", "complex-int [[1,i],[i,1]] orthogonal rows norm^2 2", "shape int eye4",
               "valid int iY", "valid int X", "valid diag(i,-i)", "valid S"],
        "unitary": ["int lower-right block shear only 4x4", "int last column doubled 8x8", "int last column repeated 8x8", "int diag(1,2) 2x2",
                    "shape int 4x3", "int last column doubled 16x16", "valid int CNOT 4x4", "valid int Z 2x2", "valid halves H(x)H 4x4"],
        "isometry": ["int shear 4x2", "halves: purely imaginary overlap i/2, unit columns 4x2", "int last column doubled 8x4", "int vector [1,1,0,0] 1-D",
                     "shape int 4x8 wide", "valid int 4x2", "valid halves vector 1-D len4", "valid halves 4x2"],
    }
    extra = {"dense": [x for x in dense_scaled if ("light tail" in x[0] and "len16" in x[0] and "0.0001" in x[0])]
             + [x for x in dense_nonfinite if x[0] in ("nan at the last entry len4", "0+nanj at the first entry len4")]
             + [x for x in dense_scaled if x[0] in ("valid times 1.1i len4", "defect -0.0001 in the last entry only len4", "valid times -1 len4")],
             "u2": [], "unitary": [x for x in mats["unitary"] if x[0] in ("imaginary overlap 0.01 first-last pair, unit diagonal 8x8",
                                                                          "lower-right 2x2 block scaled 1+0.01 only 8x8")],
             "isometry": [x for x in mats["isometry"] if x[0] in ("column norm^2 1-0.01 last column 8x4",)]}
    for name in KIND_OF:
        kind, short = KIND_OF[name], _short(name)
        src = {"dense": [(l, np.array(v, dtype=complex)) for l, v in dense_exact], "u2": exact["u2"], "unitary": exact["unitary"],
               "isometry": exact["isometry"]}[kind]
        items = [x for x in src if x[0] in pick[kind]] + (extra[kind] if short != "MCU" else [])
        if kind == "u2" and short != "MCU":
            items += [x for x in mats["u2"] if x[0] in ("row norm^2 1-0.01 second row", "imaginary row overlap 0.01, unit diagonal", "valid times exp(0.3i)")]
        if short == "MCU":
            items += [x for x in mats["u2-mcu"] if x[0] in ("row norm^2 1-0.01 second row", "imaginary row overlap 0.01, unit diagonal", "valid times i")]
        for label, num in items:
            valid = classify(kind, num) == "valid"
            if kind == "dense":
                calls = div_dense_calls(short)
            elif kind == "u2":
                calls = div_u2_calls(short, valid)
            else:
                calls = DIV_UNITARY_CALLS if kind == "unitary" else DIV_ISO_CALLS
            forms = ["c128"] + [f for f in ("int64", "f64") if _div_form(num, f) is not None][:1] + ["list"]
            for call in calls:
                if valid and kind in ("unitary", "isometry") and call.startswith("cnot") and num.shape[0] > 4:
                    continue
                for form in forms:
                    if short == "MultiTargetMCSU2[single]" and form in DIV_LIST_LIKE:
                        continue
                    if valid and kind in ("unitary", "isometry") and form != "c128" and (call.startswith("cnot") or "knill" in call or "qr" in call):
                        continue
                    if kind == "dense" and call.startswith("static") and form in ("int64", "f64") and "+opt:full" not in call:
                        continue                          # static helpers: complex128 and list forms (+ the integer / real form with every option)
                    if valid and form == "list" and short.startswith("UCG") and call.startswith("static") and "+opt:full" not in call:
                        continue                          # (these helpers build the definition of a valid twin: once per call form)
                    _div_eval(ctx, name, call, form, label, num)
    ctx.notes.append("input-diversity pass: invalid inputs and their valid twins in every element-type form (complex128 / float64 / int64 / float32 / "
                     "complex64 / bool arrays, negative zeros, lists, int lists, tuples, lists of numpy scalars, mixed lists) and through every call "
                     "form (options None / {} / each key / full, static helpers on larger hosts with permuted qubit lists as ints / Qubits / "
                     "register slices, num_controls 0..5, ctrl_state, iso / scheme / decomposition / apply_a2, cnot_count exact); float32 / "
                     "complex64 forms only for exactly representable values (plus one inexactly normalised float32 vector, judged by outcome)")


def _order_failures(ctx):
    """report first an input for which a circuit really came back, then constructor-level acceptances"""
    blatant = ("eye3", "scaled2", "shear-det1", "len3", "zero", "wide", "norm+0.5", "unitary3x3")

    def rank(f):
        k = f["key"]
        a = 0 if k.startswith("accepted:") else (1 if k.startswith("accepted-by-constructor:") else 2)
        lab = k.split(":")[-1]
        b = next((i for i, w in enumerate(blatant) if lab.startswith(w)), len(blatant))
        return (a, b)
    ctx.failures.sort(key=rank)


def run(ctx):
    table_tie(ctx)
    run_stream(ctx, tie=True)
    mixed_boundary(ctx)
    side_probes(ctx)
    non_numeric_probe(ctx)
    run_diversity(ctx, tie=True)
    _order_failures(ctx)
    ctx.notes.append("boundary values: every tolerance is approached to a factor 3 from both sides with all other checks passing; nothing is "
                     "generated inside (tol/3, 3*tol): norm (3.3e-11, 3e-10), Gram entry (3.3e-9, 3e-8) off the diagonal and "
                     "(3.3e-6, 3.0e-5) on it, det (3.3e-10, 3e-9), sum of probabilities (3.3e-10, 3e-9); MixedInitialize is evaluated by "
                     "the oracle only (no Lean model of mixed.py in this property)")
    ctx.notes.append("excluded bands: |sum|a|^2-1| in [3.3e-11, 3e-10]; Gram deviation / (1e-8 + 1e-5*delta_ij) in [1/3, 3]; |det-1| in [3.3e-10, 3e-9] (check_su2)")


def search(ctx, hints):
    """Failing-input search when a proof / the table / the tie is red: the same oracle at thorough sizes
    (the disagreeing inputs first)."""
    callers = _entry_callers(None)
    for h in hints or []:
        op = h.get("op", {})
        if op.get("op") != "entry" or op.get("name") not in callers:
            continue
        import numpy as np
        n = op["rows"] * op["cols"]
        un = lambda b: struct.unpack("<d", struct.pack("<Q", b))[0]
        z = np.array([complex(un(a), un(b)) for a, b in zip(op["re"][:n], op["im"][:n])])
        A = z if op["ndim"] == 1 else z.reshape(op["rows"], op["cols"])
        for variant, _ in callers[op["name"]]:
            check_case(ctx, callers, op["name"], variant, "from-tie-diff", A, tie=False)
    run_stream(ctx, tie=False)
    mixed_boundary(ctx)
    run_diversity(ctx, tie=False)
    _order_failures(ctx)


def replay(ctx, payload):
    r = payload["replay"]
    if r.get("probe") == "non-numeric":
        non_numeric_probe(ctx)
        return
    if r.get("probe") == "mixed-boundary":
        mixed_boundary(ctx)
        return
    if r.get("probe") == "diversity-f32":
        div_float32_inexact(ctx)
        return
    if r.get("probe") == "diversity":
        if "raw" in r["input"]:
            raw = dict((l, o) for l, o in div_dense_shapes() if isinstance(o, tuple))
            _div_eval(ctx, r["entry"], r["call"], r["form"], r["label"], raw[r["label"]])
        else:
            _div_eval(ctx, r["entry"], r["call"], r["form"], r["label"], _from_payload(r["input"]))
        return
    callers = _entry_callers(None)
    A = _from_payload(r["input"])
    if r.get("as_list"):
        A = ("LIST", A)
    check_case(ctx, callers, r["entry"], r["variant"], r["label"], A, tie=True)


def compare(op, impl, model):
    """decisions / table lines are compared verbatim"""
    if list(impl) != list(model):
        return f"impl={list(impl)[:4]!r} model={list(model)[:4]!r}"
    return None
